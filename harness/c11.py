"""C11 - the compiler is total (and the structural half of C12 on everything it accepts).

Four parts (see coq/Props/C11.v for what is a theorem and what is not):
  (a) correspondence of every line-level function with Compiler/ParseLine.v (real function vs model,
      compared inside Coq);
  (b) correspondence of the whole `parse` with Compiler/ParseMain.v on generated line sequences and
      on mutations of every .bard file of the repository, restricted to inputs that use only the
      constructs in ALLOWED_CONSTRUCTS (the block extractors are part B's; until they are merged the
      model side stubs them out and the restriction keeps such inputs away - which constructs an
      input uses is observed on the real run, by wrapping the four extractor names in core's
      namespace; LINK_BLOCKS / env C11_LINK_BLOCKS=1 links part B's extractors and lifts the
      restriction);
  (c) the direct totality oracle on the implementation (model independent, ALL constructs): compile
      every generated / mutated input under an alarm; anything but a dict, SyntaxError or ValueError is
      reported.  Besides the random line sequences and the mutated repository files two systematic families:
      deep-nesting probes (deep_inputs: every recursive construct through every recursive position in every
      host at depths below / at / above the caps and far above) and the call-shape matrix (call_matrix: target
      parameters x argument shapes x call sites in otherwise valid stories); both also feed (b) and (d);
  (d) for accepted inputs, the C12 structural validator over the real dict.

Signatures (computed from the structure of the case, never from messages):
  internal-error:<ExceptionName>:<function at the bottom of the traceback>
  timeout:<generator family>     (deep probes: timeout:deep:<construct>:<position>:<host>)
  c12:<rule>                     (json-roundtrip, initial-missing, initial-priority, key-id,
                                  token-kind, target-undefined[:nested])
  oracle-assumption:<oracle>:<ExceptionName>   (ast.parse left its two-outcome contract)
"""
from __future__ import annotations

import ast
import copy
import glob
import json
import os
import traceback

from . import common as C
from . import story2coq as S
from .common import coq_str, coq_list, coq_bool, coq_nat, coq_opt

HEADER = ("From Coq Require Import List String Ascii Bool.\n"
          "From Bardic Require Import PyStr Value Compiled Lex ParseBase ParseLine ParseMain ParseCheck.")

# Part B linked: the whole-parse correspondence evaluates Compiler/ParseMain.v with the block extractors of
# Compiler/ParseBlocks.v + ParseBlocksInst.v (`real_extractors`, Proofs/ParseAllProofs.v), so inputs with block
# constructs are compared too.  C11_LINK_BLOCKS=0 falls back to stub extractors and to inputs without blocks.
LINK_BLOCKS = os.environ.get("C11_LINK_BLOCKS", "1") == "1"
BLOCK_CONSTRUCTS = {"py-block", "if-block", "for-block", "join-block"}
# the constructs the whole-parse correspondence may contain
ALLOWED_CONSTRUCTS = {"import", "metadata", "start", "header", "comment", "render", "input", "hook", "unhook",
                      "join-marker", "jump", "stmt", "choice", "join-choice", "text", "glue", "blank", "other-at"} | \
    (BLOCK_CONSTRUCTS if LINK_BLOCKS else set())
LINK_HEADER = ("\nFrom Bardic Require Import ParseBlocks ParseBlocksInst ParseAllProofs.\n"
               "Definition pcase_bad_l := pcase_bad_x real_extractors.\n"
               "Definition pcase_show_l := pcase_show_x real_extractors.")

ALARM_S = 5
DEEP_ALARM_S = 20     # for the deep-nesting probes of more than 20000 characters
MAX_MODEL_LINE = 1500  # longer lines (only the pinned deep-nesting probes) are not sent to Coq: the model's string
                      # accumulators are quadratic
MAX_MODEL_LINES = 2500 # inputs of more lines (the far-above-cap block-nesting probes) are not sent to Coq either
MAX_TIMEOUTS = 4      # after that many hangs the remaining inputs are not compiled (each hang costs ALARM_S)


# ------------------------------------------------------------------------------------------------
# printing compiled data as Coq terms (same conventions as story2coq.py, which it is cross-checked
# against on every case; this printer adds the framework hint of @render:fw, which story2coq refuses)
# ------------------------------------------------------------------------------------------------

class NoTables(S.Tables):
    """story2coq wants code tables for the engine model; the parser model needs none."""

    def want_expr(self, code):
        pass

    def want_display(self, code):
        pass

    def want_stmt(self, code):
        pass

    def want_args(self, args):
        pass


def cs(s):
    return coq_str(S.check_ascii(s))


def toks_term(ts):
    if isinstance(ts, str):
        return coq_list([f"(TText {cs(ts)})"]) if ts else "[]"
    return coq_list(tok_term(t) for t in ts)


def choice_term(c):
    cond = c.get("condition")
    return "(Choice %s %s %s %s %s %s %s %s)" % (
        toks_term(c["text"]), cs(c["target"]), cs(c.get("args", "") or ""), coq_opt(cond, cs),
        coq_bool(c.get("sticky", True)), coq_nat(c.get("section", 0)),
        coq_list(cs(t) for t in c.get("tags", []) or []), toks_term(c.get("block_content", [])))


def tok_term(t):
    ty = t["type"]
    if ty == "render_directive":
        return f"(TRender {cs(t['name'])} {cs(t.get('args', '') or '')} {coq_opt(t.get('framework_hint'), cs)})"
    if ty == "inline_conditional":
        if not isinstance(t["truthy"], list) or not isinstance(t["falsy"], list):
            raise S.Unsupported("legacy inline conditional")
        return f"(TInlineCond {cs(t['condition'])} {toks_term(t['truthy'])} {toks_term(t['falsy'])})"
    if ty == "conditional":
        brs = [f"(Branch {cs(b.get('condition', 'False'))} {toks_term(b['content'])} "
               f"{coq_list(choice_term(c) for c in b.get('choices', []))})" for b in t.get("branches", [])]
        return f"(TCond {coq_list(brs)})"
    if ty == "for_loop":
        return (f"(TLoop {cs(t.get('variable') or '')} {cs(t.get('collection') or '')} "
                f"{toks_term(t.get('content', []))} {coq_list(choice_term(c) for c in t.get('choices', []))})")
    return S.token(t, NoTables())


def passage_term(p):
    ps = [f"(mkParam {cs(x['name'])} {coq_opt(x.get('default'), cs)})" for x in p.get("params", []) or []]
    return "(mkPassage %s %s %s %s %s %s %s)" % (
        cs(p["id"]), coq_list(ps), toks_term(p["content"]), coq_list(choice_term(c) for c in p["choices"]),
        toks_term(p.get("execute", [])), coq_list(cs(t) for t in p.get("tags", []) or []),
        coq_list(S.attrs(d) for d in p.get("input_directives", []) or []))


def story_term(st):
    ps = coq_list(f"({cs(k)}, {passage_term(p)})" for k, p in st["passages"].items())
    md = coq_list(f"({cs(k)}, {cs(str(v))})" for k, v in (st.get("metadata") or {}).items())
    imps = coq_list(cs(s) for s in st.get("imports", []))
    term = f"(mkStory {cs(st.get('initial_passage') or '')} {ps} {imps} {md})"
    try:
        ref = S.story(st, NoTables())
    except S.Unsupported:
        ref = None
    if ref is not None and ref != term:
        raise AssertionError("c11 printer and story2coq disagree")
    return term


def has_framework(obj):
    if isinstance(obj, dict):
        return bool(obj.get("type") == "render_directive" and obj.get("framework_hint")) or \
            any(has_framework(v) for v in obj.values())
    if isinstance(obj, list):
        return any(has_framework(v) for v in obj)
    return False


def input_term(d):
    """An input directive (its "type" key can be overwritten by a type="..." attribute; attrs() drops the key)."""
    return f"(TInput {S.attrs(d)})"


def param_term(x):
    return f"(mkParam {cs(x['name'])} {coq_opt(x.get('default'), cs)})"


# ------------------------------------------------------------------------------------------------
# outcome of a real call
# ------------------------------------------------------------------------------------------------

def outcome(f, *args):
    """('val', v) | ('SyntaxError',) | ('ValueError',) | ('other', name, bottom function)."""
    try:
        with C.quiet():
            return ("val", f(*args))
    except SyntaxError:
        return ("SyntaxError",)
    except ValueError:
        return ("ValueError",)
    except C.Timeout:
        raise
    except BaseException as e:  # noqa: the point of the check
        tb = traceback.extract_tb(e.__traceback__)
        return ("other", type(e).__name__, blame(e, tb))


def blame(e, tb):
    """The function named in the signature: the bottom frame of the traceback; for RecursionError the
    bottom frame is wherever the stack happened to run out, so the function that recurses (the most
    frequent bardic frame) is named instead, or the bottom bardic frame when nothing recurses there
    (the recursion is inside CPython's own parser)."""
    if not tb:
        return "?"
    if isinstance(e, RecursionError):
        ours = [f.name for f in tb if "bardic" in f.filename]
        if ours:
            top = max(set(ours), key=ours.count)
            return top if ours.count(top) > 3 else ours[-1]
    return tb[-1].name


def robs(oc, val_term):
    if oc[0] == "val":
        return f"(RVal {val_term(oc[1])})"
    if oc[0] == "SyntaxError":
        return "RSyntax"
    if oc[0] == "ValueError":
        return "RValue"
    return f"(ROther {coq_str(oc[1])})"


# ------------------------------------------------------------------------------------------------
# generators: lines
# ------------------------------------------------------------------------------------------------

VOCAB = ["+ ", "* ", "[", "]", "{", "}", " -> ", "->", "@", ":", "(", ")", ",", "=", "\"", "'", "<", ">", "<>", "?", " | ",
         "|", "^", "#", "~ ", "/", "//", "\\", "\\//", "//=", " ", " ", "  ", "\t", "x", "y", "a1", "_b", "Start", "End",
         "@join", "T", "T(", "1", "-", ".", "^tag", "^t:p-1", "name=", "label=", "placeholder=", "type=", "a_b", "<<", ">>",
         "@if ", "@elif ", "@else:", "@endif", "@for ", "@endfor", "@py:", "@endpy", "@render", "@render:", "@input", "@hook ",
         "@unhook ", "@start ", "@include ", ":: ", "::", "@metadata", "import ", "from ", " in ", "if", "and", "\r", "\x0b",
         "\x1c", "\x00", "\x7f"]

ADV_LINES = [
    "", " ", "+ [a] -> T", "* [a] -> T", "+ {x} [a] -> T", "+ {x [a] -> T", "+ {} [a] -> T", "+ [a -> T", "+ a] -> T", "+ ]a[ -> T",
    "+ [a] ->", "+ [a] -> ", "+ [a] ->T", "+ [a]->T", "+ [a] -> T(x, y)", "+ [a] -> T(f(x), (1, 2))", "+ [a] -> T(",
    "+ [a] -> T ^tag ^t:p", "+ [a] -> T // c", "+ [ ] -> T", "+ [] -> T", "+ [a]] -> T", "+ [a] -> [b] -> T", "+ [a -> b] -> T",
    "+ [{x}] -> T", "+ [{x ? a | b}] -> T", "+ [{x] -> T", "+ [x}] -> T", "+ {a}{b} [c] -> T", "+ } [a] -> T", "+ {a[0]} [t] -> T",
    "+ [a] -> @join", "  + [a] -> T", "+ [a] -> T U", "+ [a^b] -> T", "+ {x}[a] -> T", "+ {x}  [a]  ->  T", "+[a] -> T", "+ [a] -> {T}",
    "+ [a] -> T(\"(\") + (\")\")", "+ [a] -> T(\")\")", "+ [a ] -> b ] -> c", "+ [a] -> T -> U", "* {a} -> [b] -> T",
    "Hello {name}", "{a ? b | c}", "{a ? {b} | c}", "{a ? {b ? c | d} | e}", "{a ? | }", "{? | }", "{a ? b}", "{a | b}", "{a}}", "{{a}",
    "{", "}", "{}", "{ }", "a {b} c {d} e", "{a}{b}", "text ^tag", "text ^tag:p ^u", "^tag", "a ^1:- b", "x ^a:b:c", "^^a", "^a^b", "a^:b",
    "text // c", "text \\// c", "x //= 2", "{a ? b // c | d}", "{a}} // }", "{a ? {b | c} | d}", "{a}?{b}|{c}", "{x?y|z|w}", "{x??y|z}",
    "{a ? b | c} ^t", "{'}'}", "{\"{\"}", "{a ? {b | c}", "{a ? b} | c}", "{ ? a | b }", "{a?|}",
    "@render f", "@render f(x)", "@render f(x, y=1)", "@render", "@render ", "@render:react f(x)", "@render:react", "@render: f",
    "@render:react  f", "@render:r-x f", "@render f(", "@render f)", "@render f(x))", "@render f (x)", "@render f.g(x)", "@render 1f()",
    "@render f() // c", "@renderx", "@render:react f(x) // c", "@render f( a )", "@render  f", "@rende", "  @render f", "@render:a b c",
    "@input", "@input ", "@input name=\"n\"", "@input name=\"n\" placeholder=\"p\" label=\"L\"", "@input name=\"a_b c\"",
    "@input label=\"L\"", "@input name=\"n", "@input name=n", "@input name=\"n\" name=\"m\"", "@input type=\"x\" name=\"n\"",
    "@input name=\"\"", "@input x name=\"n\"", "@input =\"n\" name=\"q\"", "@input name=\"a\"b=\"c\"", "@input a.name=\"n\"",
    "@input name=\"hello_world\"", "@input name=\"a1b_c2D\" // c", "@inputname=\"n\"", "@input name=\"o'neil mc_x\"",
    "T", "T(x)", "T(x, (y))", "T(x", "T)x(", "T((x)", "T()", "T(x)(y)", "(x)", "T (x)", "T(\"(\")", "T(a)) b",
    "A", "A(x)", "A(x, y=5) ^tag", "A(x ^t", "A() ^t", "A(x)y", "A ( x )", "A(x, y=(1, 2))",
    "x", "x, y", "x, y=5", "x=1, y", "1x", "x y", "x,,y", "x, x", "if", "x=", "=1", "x==1", "x, y=f(a, b)", "x, y=[1,2]", " ", ",", "x,)", "a, b=)(,c",
    "None", "_", "x=a=b", "x-y", "x, True",
    # fix F07d: a parameter named like a positional marker arg_<digits> is reserved; near misses are not
    "arg_0", "x, arg_1", "arg_12=5", "x, arg_0=5", "arg_0, arg_0", "arg_x", "arg", "my_arg_0", "arg_0x", "arg_", "arg_0 = 1", " arg_3 ",
    "x=1, arg_2", "if, arg_0", "arg_0, if", "arg_007", "x, arg_00=1, x", "x, x, arg_0", "Arg_0", "arg__0", "arg_0_", "_arg_0", "arg_1a, arg_b1",
    "arg_-1", "arg_ 0", "arg_0,", "A(arg_0)", "A(x, arg_1=2) ^tag", "A(arg_x, arg)",
    "Start", "My_Passage.1", "1abc", "a b", "a-b", "a$b", "", " ", "_x", ".a", "a.", "a\tb", "a;b",
    "-> T", "->T", "->", "-> ", "->  T(x)", "-> T U",
]

ADV_MULTI = [
    (["~ x = [", "1,", "2]", "after"], 0, "x = ["),
    (["~ x = {", "'a': (1,", "2)}", "after"], 0, "x = {"),
    (["~ x = (", ")"], 0, "x = ("),
    (["~ x = [", "]]", "after"], 0, "x = ["),
    (["~ x = [", "}", "after", "]"], 0, "x = ["),
    (["~ x = ["], 0, "x = ["),
    (["~ x = 1"], 0, "x = 1"),
    (["a", "~ f(", "1", ")", "b"], 1, "f("),
    (["~ x = [ ", "[", "]", "]"], 0, "x = [ "),
    (["~ x = ([{", "}])", "z"], 0, "x = ([{"),
    (["~ x = [", "(]", ")", "]"], 0, "x = ["),
    (["x"], 5, "y ("),
    ([], 0, "("),
]


def rand_line(rng, maxlen=10):
    return "".join(rng.choice(VOCAB) for _ in range(rng.randint(0, maxlen)))


def shaped_line(rng):
    """A line of a known shape with random damage."""
    k = rng.random()
    ident = lambda: rng.choice(["T", "Start", "End", "A.b", "x_1", "@join", "a b", "1a", ""])  # noqa: E731
    expr = lambda: rng.choice(["x", "x > 1", "a[0]", "f(x, y)", "d['k']", "x ? a | b", "{y}", "", "a}b", "n:>3"])  # noqa: E731
    if k < 0.25:
        s = rng.choice(["+ ", "* ", "+", "  + "]) + rng.choice(["", "", "{" + expr() + "} ", "{" + expr() + "}"]) + \
            "[" + rng.choice(["go", "a {" + expr() + "} b", "", " ", "x]y"]) + "]" + rng.choice([" -> ", " -> ", "->", " ->", " => "]) + \
            ident() + rng.choice(["", "", "(" + expr() + ")", "(1, (2)", "()"]) + rng.choice(["", "", " ^t", " ^t:p ^u", " // c"])
    elif k < 0.45:
        s = rng.choice(["", "Text ", "a {" + expr() + "} b ", "{" + expr() + " ? " + rng.choice(["yes", "{" + expr() + "}", ""]) +
                        " | " + rng.choice(["no", "", "{z}"]) + "}"]) + rng.choice(["", "{" + expr() + "}", "tail", "<>", " ^tag", " // c"])
    elif k < 0.55:
        s = "@render" + rng.choice(["", " ", ":react ", ":", ":x  "]) + rng.choice(["f", "f(x)", "f(a, b=1)", "", "f(", "1(x)", "f (x)"]) + \
            rng.choice(["", "", " // c", " "])
    elif k < 0.65:
        s = "@input" + rng.choice(["", " "]) + " ".join(rng.choice(['name="n"', 'label="L x"', 'placeholder="p"', 'name="a_b"', "junk",
                                                                    'x="', 'type="t"', 'name=""']) for _ in range(rng.randint(0, 3)))
    elif k < 0.75:
        s = rng.choice(["", "T", "A.b", "x y"]) + rng.choice(["", "(", "(x)", "(x, y=2)", "(f(a), b)", "((", "(x))", "()"]) + \
            rng.choice(["", "", " ^t", "z"])
    elif k < 0.85:
        s = ", ".join(rng.choice(["x", "y", "x=1", "y=f(a, b)", "1z", "if", "", " ", "a b", "x=", "k=[1, 2]"]) for _ in range(rng.randint(0, 4)))
    else:
        s = rng.choice(["->", "-> ", "->  "]) + ident() + rng.choice(["", "(x)", "(x", " // c"])
    if rng.random() < 0.25 and s:
        i = rng.randrange(len(s))
        s = s[:i] + rng.choice(VOCAB) + s[i + (rng.random() < 0.5):]
    return s


def repo_bard_files():
    out = []
    for root in ("tests", "stories", "docs", "tests_other", "bardic/examples", "bardic/templates"):
        out += glob.glob(os.path.join(C.REPO, root, "**", "*.bard"), recursive=True)
    return sorted(set(out))


def read_ascii(path):
    try:
        t = open(path, encoding="utf-8").read()
    except Exception:  # noqa
        return None
    return t


def gen_lines(rng, n_random, n_shaped, extra=()):
    seen, out = set(), []

    def add(s):
        if s not in seen and C.is_ascii(s) and "\n" not in s:
            seen.add(s)
            out.append(s)

    for s in ADV_LINES:
        add(s)
    for _ in range(n_random):
        add(rand_line(rng))
    for _ in range(n_shaped):
        add(shaped_line(rng))
    for s in extra:
        add(s)
    return out


# ------------------------------------------------------------------------------------------------
# (a) line-level correspondence
# ------------------------------------------------------------------------------------------------

def opt_term(f):
    return lambda v: coq_opt(v, f)


def line_cases(lines, multi, chk, dist):
    """[(coq term, python description)] for every line-level function on every line."""
    from bardic.compiler.parsing import content as RC, directives as RD, validation as RV
    out = []

    def strs(l):
        return coq_list(cs(x) for x in l)

    def pair(a, b):
        return f"({a}, {b})"

    def add(fn, s, term, oc):
        out.append((term, {"function": fn, "input": s, "implementation": repr(oc)[:300]}))
        k = oc[0] if isinstance(oc, tuple) and oc and oc[0] in ("val", "SyntaxError", "ValueError", "other") else "val"
        if k == "other":
            k = "other:" + oc[1]
            chk.report(f"internal-error:{oc[1]}:{oc[2]}", f"{fn}({s!r}) raised {oc[1]}",
                       {"kind": "line-function", "function": fn, "input": s})
        d = dist.setdefault(fn, {})
        d[k] = d.get(k, 0) + 1

    def plain(fn, f, shown, *args):
        """A helper with a plain result type (no diagnostic of its own): any exception it raises is an internal error."""
        oc = outcome(f, *args)
        if oc[0] == "val":
            return oc[1]
        name = oc[1] if oc[0] == "other" else oc[0]
        chk.report(f"internal-error:{name}:{oc[2] if oc[0] == 'other' else fn}", f"{fn}({shown!r}) raised {name}",
                   {"kind": "line-function", "function": fn, "input": shown})
        d = dist.setdefault(fn, {})
        d["other:" + name] = d.get("other:" + name, 0) + 1
        return None

    for s in lines:
        r = plain("parse_tags", RC.parse_tags, s, s)
        if r is not None:
            add("parse_tags", s, f"(LTags {cs(s)} {pair(cs(r[0]), strs(r[1]))})", ("val", r))
        oc = outcome(RC.parse_content_line, s)
        add("parse_content_line", s, f"(LContent {cs(s)} {robs(oc, toks_term)})", oc)
        oc = outcome(RC.parse_choice_line, s, {})
        add("parse_choice_line", s, f"(LChoice {cs(s)} {robs(oc, opt_term(choice_term))})", oc)
        for ctx in (False, True):
            oc = outcome(RD.parse_render_line, s, 1, [s]) if ctx else outcome(RD.parse_render_line, s)
            add("parse_render_line", s, f"(LRender {coq_bool(ctx)} {cs(s)} {robs(oc, opt_term(tok_term))})", oc)
            oc = outcome(RD.parse_input_line, s, 1, [s]) if ctx else outcome(RD.parse_input_line, s)
            add("parse_input_line", s, f"(LInput {coq_bool(ctx)} {cs(s)} {robs(oc, opt_term(input_term))})", oc)
        r = plain("extract_target_and_args", RC.extract_target_and_args, s, s)
        if r is not None:
            add("extract_target_and_args", s, f"(LTarget {cs(s)} {pair(cs(r[0]), cs(r[1]))})", ("val", r))
        r = plain("extract_passage_params", RC.extract_passage_params, s, s)
        if r is not None:
            add("extract_passage_params", s, f"(LHeaderParams {cs(s)} {pair(cs(r[0]), cs(r[1]))})", ("val", r))
        oc = outcome(RC.parse_passage_params, s, 0, [s], None, None)
        add("parse_passage_params", s, f"(LParams {cs(s)} {robs(oc, lambda v: coq_list(param_term(x) for x in v))})", oc)
        r = plain("_split_on_commas", RC._split_on_commas, s, s)
        if r is not None:
            add("_split_on_commas", s, f"(LCommas {cs(s)} {strs(r)})", ("val", r))
        oc = outcome(RV.validate_choice_syntax, s, 0, [s])
        add("validate_choice_syntax", s, f"(LValChoice {cs(s)} {robs(oc, lambda v: 'tt')})", oc)
        oc = outcome(RV.validate_passage_name, s, 0, [s])
        add("validate_passage_name", s, f"(LValName {cs(s)} {robs(oc, lambda v: 'tt')})", oc)
        oc = outcome(RC.split_expressions_with_depth, s)
        add("split_expressions_with_depth", s, f"(LSplitExpr {cs(s)} {robs(oc, strs)})", oc)
        r = plain("find_pipe_separator", RC.find_pipe_separator, s, s)
        if r is not None:
            add("find_pipe_separator", s, f"(LPipe {cs(s)} {coq_opt(None if r < 0 else r, coq_nat)})", ("val", r))
        oc = outcome(RC.parse_inline_conditional, s)
        add("parse_inline_conditional", s, f"(LInlineCond {cs(s)} {robs(oc, opt_term(tok_term))})", oc)
    for ls, start, init in multi:
        r = plain("extract_multiline_expression", RD.extract_multiline_expression, repr((ls, start, init)), list(ls), start, init)
        if r is not None:
            add("extract_multiline_expression", repr((ls, start, init)),
                f"(LMulti {strs(ls)} {coq_nat(start)} {cs(init)} {pair(cs(r[0]), coq_nat(r[1]))})", ("val", r))
    return out


def gen_multi(rng, n):
    out = list(ADV_MULTI)
    pieces = ["[", "]", "{", "}", "(", ")", "1,", "'a': ", "x", " ", ""]
    for _ in range(n):
        ls = ["".join(rng.choice(pieces) for _ in range(rng.randint(0, 5))) for _ in range(rng.randint(0, 6))]
        start = rng.randint(0, max(0, len(ls)))
        init = "".join(rng.choice(pieces) for _ in range(rng.randint(0, 4))) + rng.choice(["[", "{", "(", "", " ", "[ "])
        out.append((ls, start, init))
    return out


# ------------------------------------------------------------------------------------------------
# generators: whole inputs (line sequences) and mutations of repository files
# ------------------------------------------------------------------------------------------------

NAMES = ["Start", "A", "B", "Shop.front", "End", "P1", "Loop_2", "Q"]
EXPRS = ["x", "hp > 3", "items[0]", "f(x, 2)", "d['k']", "name", "x + 1", "not done", "n:>3", "gold"]
STMTS = ["x = 1", "hp = hp - 1", "items.append('a')", "y = f(x)", "x //= 2", "done = True", "s = 'a // b'",
         "x = [1, 2]", "if x: y = 1", "x = (", "x = ", "1 +", "x = )", "def f(): pass", "x = 'unterminated"]
BROKEN = ["@iff x", "@endif:", "@end", "@py", "@py x", "@if x", "@if :", "@for x", "@for x in", "@elif x:", "@else:", "@endif",
          "@endfor", "@endpy", "<<if x", "<<if x>>", "<<endif>>", "<<py", ">>", "<<for x in y>>", "<<endfor>>", "@render", "@render:",
          "@input", "@hook a", "@unhook", "@hook a b c", "@start", "@start Nowhere", ":: ", "::", ":: 1bad", ":: a b", ":: A(", ":: A(x,x)",
          ":: A(if)", ":: A(x=1, y)", "+ [a]", "+ [a] ->", "* a -> B", "+ {x [a] -> B", "+ [a] -> Nowhere", "+ [] -> A", "-> Nowhere", "->",
          "-> A(", "-> A(1, 2, 3)", "-> A(zz=1)", "{", "}", "{x", "x}", "{x ? a}", "{x ? {y | z}", "~ ", "~ x = (", "~ x = [", "~ )", "@metadata",
          "@include x.bard", "@join", "  @join", "@join x", "#", "# c", "// c", "text // c", "<>", "a <>", "^tag", "@", "@@", "+ ", "* ", "~",
          "-> A(\"(\") + (\")\")", "+ [a] -> A(\"(\") + (\")\")", "@input type=\"x\" name=\"n\"", "\t", "  ", "import os", "from x import y"]


def g_choice(rng, names, with_params):
    tgt = rng.choice(names + ["@join"]) if rng.random() < 0.93 else rng.choice(["Nowhere", "a b", ""])
    args = ""
    if tgt in with_params and rng.random() < 0.9:
        args = "(" + rng.choice(with_params[tgt]) + ")"
    elif rng.random() < 0.05:
        args = rng.choice(["(1)", "()", "(x", "(a, b=2)"])
    pre = rng.choice(["+ ", "* "])
    cond = rng.choice(["", "", "", "{" + rng.choice(EXPRS) + "} "])
    text = rng.choice(["Go", "Take {x}", "Look {hp > 3 ? closely | away}", "Say \"hi\"", "a ] b", "Buy [x]"])
    tail = rng.choice(["", "", "", " ^once", " ^a ^b:c", " // note"])
    return f"{pre}{cond}[{text}] -> {tgt}{args}{tail}"


def g_text(rng):
    parts = []
    for _ in range(rng.randint(1, 3)):
        k = rng.random()
        if k < 0.5:
            parts.append(rng.choice(["You see a door.", "Hello", "It costs", "a", "...", "Path: a/b", "50% off", "x = y", "1 // 2"]))
        elif k < 0.8:
            parts.append("{" + rng.choice(EXPRS) + "}")
        else:
            parts.append("{" + rng.choice(EXPRS) + " ? " + rng.choice(["yes", "{x}", "HP {hp}", ""]) + " | " +
                         rng.choice(["no", "", "{y} left"]) + "}")
    s = " ".join(parts)
    return s + rng.choice(["", "", "", " <>", "<>", " ^tag", " // c", "  "])


def g_block(rng, names, depth=0):
    """Lines of a block construct (for the totality oracle; the correspondence skips them until part B)."""
    k = rng.random()
    ind = rng.choice(["", "", "  ", "\t"])
    inner = lambda: [ind + x for x in g_body(rng, names, {}, rng.randint(0, 3), blocks=depth < 2, depth=depth + 1)]  # noqa: E731
    if k < 0.25:
        return [rng.choice(["@py:", "@py:", "@py", "<<py"])] + [ind + rng.choice(STMTS) for _ in range(rng.randint(0, 3))] + \
            [rng.choice(["@endpy", "@endpy", ">>", ""])]
    if k < 0.65:
        legacy = rng.random() < 0.2
        out = [(f"<<if {rng.choice(EXPRS)}>>" if legacy else f"@if {rng.choice(EXPRS)}:")] + inner()
        if rng.random() < 0.4:
            out += [(f"<<elif {rng.choice(EXPRS)}>>" if legacy else f"@elif {rng.choice(EXPRS)}:")] + inner()
        if rng.random() < 0.4:
            out += ["<<else>>" if legacy else "@else:"] + inner()
        out += ["<<endif>>" if legacy else rng.choice(["@endif", "@endif", "@endif", "", "@endfor"])]
        return out
    if k < 0.9:
        legacy = rng.random() < 0.2
        return [(f"<<for i in {rng.choice(['items', 'range(3)', 'd'])}>>" if legacy else
                 f"@for i in {rng.choice(['items', 'range(3)', 'd'])}:")] + inner() + \
            ["<<endfor>>" if legacy else rng.choice(["@endfor", "@endfor", "@endfor", "", "@endif"])]
    return ["+ [Wait] -> @join"] + ["    " + x for x in g_body(rng, names, {}, rng.randint(1, 3), blocks=False, depth=depth + 1)] + \
        rng.choice([["@join"], ["@join"], []])


def g_body(rng, names, with_params, n, blocks, depth=0):
    out = []
    for _ in range(n):
        k = rng.random()
        if k < 0.30:
            out.append(g_text(rng))
        elif k < 0.38:
            out.append("")
        elif k < 0.50:
            out.append("~ " + rng.choice(STMTS))
            if out[-1].rstrip().endswith(("(", "[", "{")):
                out += rng.choice([["1,", "2)"], ["]"], ["1", "}", "x"], ["'a': (1,", "2)}"], []])
        elif k < 0.66:
            out.append(g_choice(rng, names, with_params))
        elif k < 0.70:
            out.append("@join")
        elif k < 0.75:
            t = rng.choice(names)
            out.append("-> " + t + ("(" + rng.choice(with_params[t]) + ")" if t in with_params else "") + rng.choice(["", "", " // c"]))
        elif k < 0.79:
            out.append(rng.choice(["@render card(x)", "@render:react card(x, y=1)", "@render simple", "@render f(g(1), \"a)\")"]))
        elif k < 0.82:
            out.append(rng.choice(['@input name="player"', '@input name="a_b" label="Your name" placeholder="..."', '@input label="x"']))
        elif k < 0.86:
            out.append(rng.choice(["@hook turn_end Clock", "@unhook turn_end Clock", "@hook a", "@hook  a   b "]))
        elif k < 0.90:
            out.append(rng.choice(["# a comment", "  # indented", "// slashes", "text # not a comment"]))
        elif k < 0.93 or not blocks:
            out.append(rng.choice(BROKEN))
        else:
            out += g_block(rng, names, depth)
    return out


def gen_story_lines(rng, blocks):
    names = rng.sample(NAMES, rng.randint(1, 5))
    with_params = {}
    out = []
    if rng.random() < 0.3:
        out += rng.sample(["import random", "from math import floor", "# preamble", "", "import os // c"], rng.randint(1, 3))
    if rng.random() < 0.25:
        out += ["@metadata"] + rng.sample(["  title: My Story", "\tauthor: A. B: C", "  empty:", "", "  version : 1", "nocolon", " x"],
                                          rng.randint(0, 4))
    if rng.random() < 0.3:
        out.append("@start " + rng.choice(names + ["Nowhere"]) + rng.choice(["", "", " // c", "  "]))
    if rng.random() < 0.15:
        out.append(rng.choice(["stray text", "+ [a] -> b", "~ x = 1", ""]))
    for nm in names:
        hdr = ":: " + nm
        r = rng.random()
        if r < 0.25:
            ps = rng.choice(["x", "x, y=2", "item, count=1", "a=[1, 2], b=f(1, 2)", "x, x", "x=1, y", "if"])
            hdr += "(" + ps + ")"
            if ps in ("x", "x, y=2", "item, count=1"):
                with_params[nm] = ["1", "x", "1, 2", "x=1", "\"a, b\"", "f(1, 2)", "", "1, 2, 3", "zz=1"] if ps != "x" else ["1", "x", "hp + 1", ""]
        hdr += rng.choice(["", "", "", " ^tag", " ^a:b ^c", " // c", "  "])
        out.append(hdr)
        out += g_body(rng, names, with_params, rng.randint(0, 8), blocks)
    if rng.random() < 0.2:
        out.append(":: " + rng.choice(names))          # duplicate
        out += g_body(rng, names, with_params, rng.randint(0, 2), blocks)
    if rng.random() < 0.35:
        for _ in range(rng.randint(1, 2)):
            i = rng.randrange(len(out) + 1)
            out.insert(i, rng.choice(BROKEN))
    return out


def mutate(rng, lines):
    """delete / duplicate / swap / truncate / insert-vocabulary-line; returns (lines, mutation names)."""
    ls = list(lines)
    names = []
    for _ in range(rng.choice([1, 1, 2, 3])):
        m = rng.choice(["delete", "duplicate", "swap", "truncate", "insert", "insert", "damage"])
        names.append(m)
        if m == "delete" and ls:
            del ls[rng.randrange(len(ls))]
        elif m == "duplicate" and ls:
            i = rng.randrange(len(ls))
            ls.insert(i, ls[i])
        elif m == "swap" and len(ls) > 1:
            i, j = rng.randrange(len(ls)), rng.randrange(len(ls))
            ls[i], ls[j] = ls[j], ls[i]
        elif m == "truncate" and ls:
            ls = ls[:rng.randrange(len(ls))]
        elif m == "insert":
            ls.insert(rng.randrange(len(ls) + 1), rng.choice(BROKEN) if rng.random() < 0.7 else rand_line(rng, 6))
        elif m == "damage" and ls:
            i = rng.randrange(len(ls))
            if ls[i]:
                j = rng.randrange(len(ls[i]))
                ls[i] = ls[i][:j] + rng.choice(VOCAB) + ls[i][j + (rng.random() < 0.5):]
    return ls, names


def to_ascii(text):
    return "".join(c if ord(c) < 128 else "?" for c in text)


def line_kind(line, in_passage):
    """Evidence only: the branch of core.py's loop a line would take inside a passage."""
    s = line.strip()
    if line.startswith(":: "):
        return "header"
    if not in_passage:
        if s.startswith(("import ", "from ")):
            return "import"
        if s == "@metadata":
            return "metadata"
        if s.startswith("@start "):
            return "start"
        return "preamble-other"
    for pre, k in (("#", "comment"), ("<<py", "py-block"), ("@py", "py-block"), ("<<if ", "if-block"), ("@if ", "if-block"),
                   ("<<for ", "for-block"), ("@for ", "for-block"), ("@render", "render"), ("@input", "input"), ("@hook ", "hook"),
                   ("@unhook ", "unhook")):
        if s.startswith(pre):
            return k
    if s == "@join":
        return "join-marker"
    if s == "@metadata":
        return "metadata"
    if s.startswith("@start "):
        return "start"
    if s.startswith("->"):
        return "jump"
    if line.startswith("~ "):
        return "stmt"
    if line.startswith(("+ ", "* ")):
        return "join-choice" if "@join" in line else "choice"
    if not s:
        return "blank"
    if line.rstrip().endswith("<>"):
        return "glue"
    if s.startswith("@"):
        return "other-at"
    return "text"


# ------------------------------------------------------------------------------------------------
# the real compiler, instrumented (which extractors ran, what ast.parse was asked)
# ------------------------------------------------------------------------------------------------

class Probe:
    """Wraps ast.parse and core's four block extractors while one input is compiled."""

    def __init__(self):
        self.stmt, self.calls, self.used, self.oracle_escapes, self.gave_up = {}, {}, set(), [], []
        # oracle py_stmt_errline (Compiler/ParseBase.v): for a statement Python rejected, `max(e.lineno - 1, 0) if
        # e.lineno else 0` of the real SyntaxError -- what core.py, after clamping it to the lines the statement
        # consumed (fix F14c), adds to the index of the `~` line
        self.errline = {}

    def __enter__(self):
        from bardic.compiler.parsing import core
        self.core = core
        self.saved = {n: getattr(core, n) for n in ("extract_python_block", "extract_conditional_block", "extract_loop_block",
                                                    "extract_join_choice_block")}
        self.real_parse = ast.parse
        probe = self

        def wrap(name, tag):
            f = self.saved[name]

            def g(*a, **k):
                if tag != "join-block":
                    probe.used.add(tag)
                r = f(*a, **k)
                if tag == "join-block" and r[2] > 0:
                    probe.used.add(tag)
                return r
            return g

        core.extract_python_block = wrap("extract_python_block", "py-block")
        core.extract_conditional_block = wrap("extract_conditional_block", "if-block")
        core.extract_loop_block = wrap("extract_loop_block", "for-block")
        core.extract_join_choice_block = wrap("extract_join_choice_block", "join-block")

        def parse_(source, *a, **k):
            mode = k.get("mode", a[1] if len(a) > 1 else "exec")
            try:
                tree = probe.real_parse(source, *a, **k)
            except SyntaxError as e:
                if mode == "eval" and isinstance(source, str) and source.startswith("_temp_("):
                    probe.calls[source[7:-1]] = (None, True)
                else:
                    probe.stmt[source] = False
                    probe.errline[source] = max(e.lineno - 1, 0) if e.lineno else 0
                raise
            except (RecursionError, MemoryError, ValueError) as e:
                # Python's parser gave up: the compiler reports that as a SyntaxError (fix 6f31489), so the
                # oracle's answer is "does not parse"; counted, so that the evidence shows it happened
                probe.gave_up.append((mode, type(e).__name__))
                if mode == "eval" and isinstance(source, str) and source.startswith("_temp_("):
                    probe.calls[source[7:-1]] = (None, True)
                else:
                    probe.stmt[source] = False
                    probe.errline[source] = 0      # the compiler's replacement SyntaxError carries no lineno
                raise
            except BaseException as e:  # noqa
                probe.oracle_escapes.append((mode, source, type(e).__name__))
                raise
            if mode == "eval" and isinstance(source, str) and source.startswith("_temp_("):
                b = tree.body
                if isinstance(b, ast.Call):
                    kws = [kw.arg if kw.arg is not None else "**" for kw in b.keywords]
                    if any(isinstance(a_, ast.Starred) for a_ in b.args):
                        kws.append("*")           # oracle convention of Compiler/ParseBase.v py_call_shape
                    probe.calls[source[7:-1]] = ((len(b.args), kws), True)
                else:
                    probe.calls[source[7:-1]] = ((0, []), False)
            else:
                probe.stmt[source] = True
            return tree

        ast.parse = parse_
        return self

    def __exit__(self, *exc):
        ast.parse = self.real_parse
        for n, f in self.saved.items():
            setattr(self.core, n, f)
        return False


def compile_real(text, alarm_s=None):
    """(outcome, probe): outcome as in `outcome`, plus ('timeout',)."""
    from bardic.compiler.compiler import BardCompiler
    with Probe() as pr:
        try:
            with C.alarm(alarm_s or ALARM_S):
                oc = outcome(BardCompiler().compile_string, text)
        except C.Timeout:
            oc = ("timeout",)
    return oc, pr


def include_family(chk, rng, n):
    """compile_file on small include graphs whose @include lines are valid or broken in every way (no path, two paths,
    a missing file, a directory, itself, a cycle, inside a passage, with a trailing comment), in the entry file and in
    included files: the outcome must be a story, SyntaxError, ValueError or FileNotFoundError - nothing else."""
    import shutil
    import tempfile
    from bardic.compiler.compiler import BardCompiler
    forms = ["@include", "@include ", "@include a.bard b.bard", "@include parts/b.bard extra", "@include missing.bard",
             "@include parts", "@include {self}", "@include parts/b.bard", "@include a.bard", "@include a.bard // note",
             "@include  a.bard", "@include ../{dir}/a.bard", "@include a.bard\t", "  @include a.bard", "@include \"a.bard\""]
    stats = {"cases": 0, "outcomes": {}}
    tmp = tempfile.mkdtemp(prefix="bardic_verif_c11_inc_")
    try:
        for k in range(n):
            d = os.path.join(tmp, f"g{k}")
            os.makedirs(os.path.join(d, "parts"))
            where = rng.choice(["main", "a", "b"])
            form = rng.choice(forms)
            files = {"main.bard": [":: Start", "hello", "@include a.bard", "+ [Go] -> A"],
                     "a.bard": [":: A", "in a", "@include parts/b.bard", "+ [Go] -> B"],
                     "parts/b.bard": [":: B", "in b", "+ [Back] -> Start"]}
            if rng.random() < 0.2:
                files["parts/b.bard"].insert(2, "@include ../a.bard")          # a cycle
            key = {"main": "main.bard", "a": "a.bard", "b": "parts/b.bard"}[where]
            line = form.replace("{self}", os.path.basename(key)).replace("{dir}", os.path.basename(d))
            files[key].insert(rng.randrange(0, len(files[key]) + 1), line)
            for rel, ls in files.items():
                with open(os.path.join(d, rel), "w") as f:
                    f.write("\n".join(ls) + "\n")
            try:
                with C.alarm(ALARM_S):
                    oc = outcome(lambda: BardCompiler().compile_file(os.path.join(d, "main.bard"), os.path.join(d, "out.json")))
            except C.Timeout:
                oc = ("timeout",)
            stats["cases"] += 1
            kind = oc[0] if oc[0] != "other" else "other:" + oc[1]
            stats["outcomes"][kind] = stats["outcomes"].get(kind, 0) + 1
            replay = {"kind": "include-graph", "files": files, "edited": key, "line": line}
            if oc[0] == "timeout":
                chk.report("timeout:include-graph", "compile_file did not return", replay)
            elif oc[0] == "other" and oc[1] != "FileNotFoundError":
                chk.report(f"internal-error:{oc[1]}:{oc[2]}", f"compile_file raised {oc[1]} on an include graph with the line {line!r} "
                           f"in {key}", replay)
            chk.count(("include", where, form), True)
    finally:
        shutil.rmtree(tmp, ignore_errors=True)
    return stats


# ------------------------------------------------------------------------------------------------
# (d) the C12 structural validator over a real compiled dict
# ------------------------------------------------------------------------------------------------

TOKEN_KINDS = {"text", "expression", "inline_conditional", "conditional", "for_loop", "jump", "python_statement", "python_block",
               "hook", "render_directive", "input", "join_marker"}


def c12_validate(st, lines):
    """[(rule, what)] violated by an accepted story."""
    bad = []
    try:
        if json.loads(json.dumps(st, allow_nan=False)) != st:      # strict JSON: NaN / Infinity are not JSON data
            bad.append(("json-roundtrip", "json.loads(json.dumps(story)) != story"))
    except Exception as e:  # noqa
        bad.append(("json-roundtrip", f"not JSON data: {type(e).__name__}"))
    ps = st.get("passages", {})
    init = st.get("initial_passage")
    if init not in ps:
        bad.append(("initial-missing", f"initial passage {init!r} is not a passage"))
    else:
        starts = set()
        for l in lines:
            s = l.strip()
            if s.startswith("@start "):
                starts.add(s[7:].strip())
                starts.add(s[7:].split("//")[0].strip())
        expected = "Start" if "Start" in ps else next(iter(ps))
        if init not in starts and init != expected:
            bad.append(("initial-priority", f"initial passage {init!r}: no @start names it and the default would be {expected!r}"))
    for k, p in ps.items():
        if p.get("id") != k:
            bad.append(("key-id", f"passage keyed {k!r} has id {p.get('id')!r}"))

    def target(t, nested, where):
        if t != "@join" and t not in ps:
            bad.append(("target-undefined" + (":nested" if nested else ""), f"{where}: target {t!r} is not a passage"))

    def walk_tokens(ts, nested, where):
        if isinstance(ts, str):
            return
        for t in ts:
            if not isinstance(t, dict) or t.get("type") not in TOKEN_KINDS:
                bad.append(("token-kind", f"{where}: token {str(t)[:60]!r}"))
                continue
            ty = t["type"]
            if ty == "jump":
                target(t.get("target"), nested, where)
            elif ty == "inline_conditional":
                walk_tokens(t.get("truthy", []), True, where)
                walk_tokens(t.get("falsy", []), True, where)
            elif ty == "conditional":
                for b in t.get("branches", []):
                    walk_tokens(b.get("content", []), True, where)
                    walk_choices(b.get("choices", []), True, where)
            elif ty == "for_loop":
                walk_tokens(t.get("content", []), True, where)
                walk_choices(t.get("choices", []), True, where)

    def walk_choices(cs_, nested, where):
        for c in cs_:
            target(c.get("target"), nested, where)
            walk_tokens(c.get("text", []), True, where)
            walk_tokens(c.get("block_content", []), True, where)

    for k, p in ps.items():
        walk_tokens(p.get("content", []), False, k)
        walk_tokens(p.get("execute", []), False, k)
        walk_choices(p.get("choices", []), False, k)
    return bad


# ------------------------------------------------------------------------------------------------
# pinned probes: shapes that are expected to break totality (each is re-run on every check)
# ------------------------------------------------------------------------------------------------

def pinned_inputs():
    deep_if = [":: A"] + [f"@if x{i}:" for i in range(1100)] + ["t"] + ["@endif"] * 1100
    deep_ic = ":: A\n" + "{a ? " * 600 + "b" + " | c}" * 600
    return [
        ("deep-block-nesting", "\n".join(deep_if)),
        ("deep-inline-conditional", deep_ic),
        ("deep-python-expression", ":: A\n~ x = " + "-" * 3000 + "1"),
        ("deep-call-argument", ":: A\n-> T(" + "-" * 3000 + "1)\n:: T(x)\nhi"),
        ("call-body-not-a-call", ":: A\n-> T(\"(\") + (\")\")\n:: T(x)\nhi"),
        ("call-body-not-a-call:choice", ":: A\n+ [go] -> T(\"(\") + (\")\")\n:: T(x)\nhi"),
        ("legacy-if-without-close", ":: A\n<<if x\nt\n<<endif>>"),
        ("input-type-attribute-in-block", ":: Start\n@if True:\n@input type=\"x\" name=\"n\"\n@endif"),
    ] + surface_fix_inputs() + call_rule_fix_inputs()


def call_rule_fix_inputs():
    """Shapes touched by the fixes F07d (a parameter named arg_<digits> is refused by parse_passage_params) and F07e (a call
    that repeats a keyword is refused by _validate_single_call as malformed arguments): the minimal stories of the two
    patches and their neighbours (near-miss names, the order of the new checks among the old ones, every kind of call
    site), compared with the model on every run."""
    out = []

    def story(hdr, call="T(1)", body="T text"):
        return "\n".join([":: Start", "hi", "+ [Go] -> " + call, "", ":: " + hdr, body])

    out.append(("F07d:patch-minimal", story("T(a, arg_0=5)", "T(1)", "T {a} {arg_0}")))
    out.append(("F07d:patch-minimal-keyword", story("T(a, arg_0)", "T(arg_0=1, a=2)", "T {a} {arg_0}")))
    for nm in ["arg_0", "arg_1", "arg_12", "arg_007", "arg_99999999999999999999"]:
        out.append((f"F07d:only:{nm}", story(f"T({nm})")))
        out.append((f"F07d:default:{nm}", story(f"T(x, {nm}=2)")))
        out.append((f"F07d:first:{nm}", story(f"T({nm}, y, z=3)", "T(1, 2)")))
    for nm in ["arg_x", "arg", "my_arg_0", "arg_0x", "arg_", "_arg_0", "Arg_0", "ARG_1", "arg__0", "arg_0_", "arg0", "args_0"]:
        out.append((f"F07d:near-miss:{nm}", story(f"T({nm})", f"T({nm}=1)", "T {" + nm + "}")))
        out.append((f"F07d:near-miss-default:{nm}", story(f"T(x, {nm}=2)", "T(1)", "T {x} {" + nm + "}")))
    # the order of the checks: required-after-optional, not-an-identifier, keyword, reserved, duplicate
    for sig in ["x=1, arg_2", "arg_0, arg_0", "x, x, arg_0", "if, arg_0", "arg_0, if", "arg_0, 1x", "1x, arg_0", "arg_0=1, y", "y=1, arg_0=2, y=3",
                "arg_0 = 1", " arg_3 ", "arg_ 0", "arg_-1", "arg_0,", ",arg_0", "x, (arg_0)"]:
        out.append(("F07d:order:" + sig, story(f"T({sig})")))
    out.append(("F07d:uncalled", ":: Start\nhi\n+ [Go] -> Start\n\n:: T(arg_0)\nnobody calls this"))
    out.append(("F07d:initial-passage", ":: Room(arg_0=1)\nRoom {arg_0}\n+ [Go] -> Room"))
    out.append(("F07d:header-with-tags", story("T(arg_0) ^tag ^k:v")))
    out.append(("F07d:header-with-comment", story("T(arg_0) // note")))
    out.append(("F07d:redefined-later", story("T(arg_0)") + "\n\n:: T(x)\nsecond definition"))
    out.append(("F07d:name-not-a-parameter", ":: Start\n~ arg_0 = 1\n{arg_0}\n+ [Go] -> arg_0\n\n:: arg_0\nA passage may be called arg_0."))

    def call_story(call_line, sig="T(a, b=2)"):
        return "\n".join([":: Start", "~ n = 1", "hi"] + call_line + ["", ":: " + sig, "T {a}"])

    out.append(("F07e:patch-minimal", ":: Start\nhi\n+ [Go] -> T(a=1, a=2)\n\n:: T(a)\nT {a}"))
    for args in ["a=1, a=2", "a=1, a=1", "a=1, b=2, a=3", "b=1, b=2", "1, b=2, b=3", "a=1, b=2, b=3, a=4", "a=1,a=2", "a = 1 , a = 2",
                 "a=\"x, y\", a=2", "a=f(a=1, a=2)", "a=1, a=2, zz=3", "zz=1, zz=2", "1, 2, 3, b=1, b=2", "1, a=2, a=3", "**d, **e", "*x, a=1, a=2",
                 "a=1, **d, a=2", "a=1, a=2,", "a=1, a=", "a=1 a=2"]:
        for site, mk in [("choice", lambda c: ["+ [Go] -> " + c]), ("jump", lambda c: ["-> " + c]),
                         ("choice-in-if", lambda c: ["@if n:", "    + [Go] -> " + c, "@endif"]),
                         ("jump-in-for", lambda c: ["@for i in [1]:", "    -> " + c, "@endfor"])]:
            out.append((f"F07e:{site}:{args}", call_story(mk(f"T({args})"))))
    out.append(("F07e:parameterless-target", call_story(["+ [Go] -> T(a=1, a=2)"], "T")))
    out.append(("F07e:unknown-target", call_story(["+ [Go] -> U(a=1, a=2)"])))
    out.append(("F07e:join-choice", ":: Start\nhi\n+ [Wait] -> @join(a=1, a=2)\n    inside\n@join\nafter"))
    out.append(("F07e:one-parameter", call_story(["+ [Go] -> T(a=1, a=2)"], "T(a=0)")))
    return [("call-rule-fix:" + name.split(":")[0], text) for name, text in out]       # two families in the evidence


def surface_fix_inputs():
    """Shapes touched by the fixes F17j (opener indentation of a Python block), F17k (story lines right-stripped by the
    comment pre-pass), F17l (# lines in the @metadata block), F17m (# lines in a join block): the minimal pairs of the
    patches and neighbours of them, so that model and compiler are compared on every one of these paths on every run."""
    q3 = "'" * 3
    out = []
    for name, ind in [("flush", ""), ("2sp", "  "), ("tab", "\t"), ("tab+sp", "\t ")]:
        for opener, closer in [("@py:", "@endpy"), ("<<py", ">>")]:
            body = [ind + "    s = " + q3, ind + "  a", "  b", ind, "", ind + "    " + q3, ind + "    t = 1"]
            out.append((f"F17j:{name}:{opener}", "\n".join([":: S", "@if flag:", ind + opener] + body + [ind + closer, "@endif"])))
            out.append((f"F17j:for:{name}:{opener}",
                        "\n".join([":: S", "@for i in xs:", ind + opener] + body + [ind + closer, "@endfor"])))
        out.append((f"F17j:top:{name}", "\n".join([":: S", ind + "@py:", ind + "  x = [", ind + "1]", " y = 2", ind + "@endpy", "t"])))
        out.append((f"F17j:top-legacy:{name}", "\n".join([":: S", ind + "<<py", ind + "  x = [", ind + "1]", " y = 2", ind + ">>", "t"])))
    out.append(("F17j:unclosed-legacy", ":: S\n@if f:\n  <<py\n    x = 1\n  y"))
    tails = ["   ", "\t", "    // c", "  \t // c"]
    for t in tails:
        story = [":: S", "Hello", "Hello<>", "Hello <>", "~ x = 1", "~ y = [", "  1,   ", "  2]   ", "@if x:", "  in if", "@else:",
                 "  other", "@endif", "@for i in xs:", "  {i}", "@endfor", "@py:", "  z = 1   ", "@endpy", "<<py", "  z = 2   ", ">>",
                 "<<if x>>", "leg", "<<endif>>", "* [J] -> @join", "    block", "@join", "@render card(x)", "@input name=\"n\"",
                 "@hook turn_end S", "# note", "+ [Go] -> S", "-> S"]
        python_code = {6, 7, 17, 20}
        out.append((f"F17k:all:{t!r}", "\n".join(l if k in python_code else l + t for k, l in enumerate(story))))
        for k, l in enumerate(story):
            if k not in python_code and k % 3 == len(t) % 3:
                out.append((f"F17k:{l.strip()[:12]}:{t!r}", "\n".join(story[:k] + [l + t] + story[k + 1:])))
    out.append(("F17k:pair:blanks", ":: S\nHello   \nBye"))
    out.append(("F17k:pair:comment", ":: S\nHello    // c\nBye"))
    out.append(("F17k:preamble", "import x   \n@metadata   \n  title: X   \n@start S   \n:: S   \nhi   "))
    meta = ["@metadata", "  title: X", "  author: Y", ":: Start", "hi"]
    for c in ["# note", "  # note: this", "\t#", "  #: x", " # a // b"]:
        for k in (1, 2, 3):
            out.append((f"F17l:{c!r}@{k}", "\n".join(meta[:k] + [c] + meta[k:])))
    out.append(("F17l:then-unindented", "@metadata\n  a: 1\n# c\nb: 2\n  c: 3\n:: S\nhi"))
    join = [":: Start", "* [J] -> @join", "   inner", "     deeper", "", "   ~ x = 1", "@join", "after"]
    for c in ["# c", "  # c", "   # c", "        # c", "\t# c", "  # c // d"]:
        for k in (2, 3, 4, 5, 6):
            out.append((f"F17m:{c!r}@{k}", "\n".join(join[:k] + [c] + join[k:])))
    out.append(("F17m:only-comments", ":: Start\n* [J] -> @join\n  # a\n# b\n@join\nafter"))
    out.append(("F17m:comment-then-dedent", ":: Start\n* [J] -> @join\n# a\nplain\n@join\nafter"))
    out.append(("F17m:error-line", ":: Start\n* [J] -> @join\n# a\n   ok\n  # b\n   {bad\n@join\nafter"))
    out.append(("F17m:in-if", ":: Start\n@if x:\n  * [J] -> @join\n  # a\n      inner\n@endif"))
    return [("surface-fix:" + name.split(":")[0], text) for name, text in out]     # four families in the evidence



# ------------------------------------------------------------------------------------------------
# deep-nesting probes: every recursive construct, through every recursive position, in every host, at depths
# below / at / above the compiler's caps and far above them.  Expected: a story, SyntaxError or ValueError; never
# another exception (RecursionError!), never a hang.
# ------------------------------------------------------------------------------------------------

INLINE_CAP, BLOCK_CAP = 50, 100        # content.MAX_INLINE_DEPTH, blocks.MAX_BLOCK_DEPTH (evidence only)
INLINE_DEPTHS = [1, 2, 7, 48, 49, 50, 51, 52, 60, 120, 600, 3000]
BLOCK_DEPTHS = [1, 2, 19, 21, 98, 99, 100, 101, 102, 110, 600, 3000]
PYEXPR_DEPTHS = [60, 250, 600, 3000]
INLINE_POSITIONS = ["then", "else", "alternate", "alternate-else-first", "both", "then-among-text", "else-among-text",
                    "else-empty-then", "then-empty-else"]


def nest_inline(depth, position, rng):
    """An inline conditional nested `depth` levels through the given position(s)."""
    pre, suf = [], []
    for k in range(depth):                # k = 0 is the innermost level
        side = position
        if position in ("alternate", "alternate-else-first"):
            side = "then" if (k % 2 == 0) == (position == "alternate") else "else"
        elif position == "both":
            side = "then" if k else "both-leaf"
        if side == "then":
            pre.append("{c ? ")
            suf.append(" | e}")
        elif side == "else":
            pre.append("{c ? t | ")
            suf.append("}")
        elif side == "then-among-text":
            pre.append("{c ? a {v} ")
            suf.append(" b | e}")
        elif side == "else-among-text":
            pre.append("{c ? t | a {v} ")
            suf.append(" b}")
        elif side == "else-empty-then":
            pre.append("{c ? | ")
            suf.append("}")
        elif side == "then-empty-else":
            pre.append("{c ? ")
            suf.append(" |}")
        else:                              # both-leaf: the innermost level of `both`
            pre.append("{c ? x | ")
            suf.append("}")
    core = "x"
    s_ = "".join(reversed(pre)) + core + "".join(suf)
    if position == "both" and depth > 1:   # a second chain, through the else sides, beside the then-chain
        s_ = "{c ? " + s_ + " | " + "{c ? t | " * (depth - 1) + "y" + "}" * (depth - 1) + "}"
    return s_


INLINE_HOSTS = {
    "content-line": lambda S: [":: A", S],
    "content-line-with-text-and-tag": lambda S: [":: A", "Before " + S + " after ^tag"],
    "glue-line": lambda S: [":: A", S + "<>", "tail"],
    "choice-text": lambda S: [":: A", "+ [" + S + "] -> A"],
    "conditional-choice-text": lambda S: [":: A", "* {c} [Go " + S + "] -> A ^t"],
    "join-choice-text": lambda S: [":: A", "+ [" + S + "] -> @join", "    inside", "@join", "after"],
    "if-body": lambda S: [":: A", "@if c:", S, "@endif"],
    "if-body-indented": lambda S: [":: A", "@if c:", "    " + S, "@endif"],
    "elif-body": lambda S: [":: A", "@if c:", "t", "@elif d:", S, "@endif"],
    "else-body": lambda S: [":: A", "@if c:", "t", "@else:", S, "@endif"],
    "legacy-if-body": lambda S: [":: A", "<<if c>>", S, "<<endif>>"],
    "for-body": lambda S: [":: A", "@for i in xs:", "  " + S, "@endfor"],
    "for-in-if-body": lambda S: [":: A", "@if c:", "@for i in xs:", S, "@endfor", "@endif"],
    "choice-text-in-if": lambda S: [":: A", "@if c:", "+ [" + S + "] -> A", "@endif"],
    "choice-text-in-for": lambda S: [":: A", "@for i in xs:", "+ [" + S + "] -> A", "@endfor"],
    "join-block": lambda S: [":: A", "+ [go] -> @join", "    " + S, "@join", "after"],
    "join-block-second-line": lambda S: [":: A", "+ [go] -> @join", "    first", "    " + S, "+ [stay] -> @join", "@join"],
    "before-first-passage": lambda S: [S, ":: A", "t"],
}

BLOCK_KINDS = ["if-then", "if-else", "if-elif", "for", "if-for-alternate", "legacy-if", "legacy-for", "legacy-at-alternate"]
BLOCK_FORMS = ["closed", "unclosed", "closers-only-half"]


def nest_blocks(depth, kind, form, indent):
    """Block openers nested `depth` levels through one branch position, the innermost holding a text line."""
    head, tail = [], []
    for k in range(depth):                 # k = 0 is the outermost level
        ind = " " * (k if indent else 0)
        kk = kind
        if kind == "if-for-alternate":
            kk = "if-then" if k % 2 == 0 else "for"
        elif kind == "legacy-at-alternate":
            kk = "legacy-if" if k % 2 == 0 else "if-then"
        if kk == "if-then":
            head.append(ind + f"@if c{k % 7}:")
            tail.append(ind + "@endif")
        elif kk == "if-else":
            head += [ind + "@if c:", ind + "t", ind + "@else:"]
            tail.append(ind + "@endif")
        elif kk == "if-elif":
            head += [ind + "@if c:", ind + "t", ind + "@elif d:"]
            tail.append(ind + "@endif")
        elif kk == "for":
            head.append(ind + f"@for i{k % 5} in xs:")
            tail.append(ind + "@endfor")
        elif kk == "legacy-if":
            head.append(ind + "<<if c>>")
            tail.append(ind + "<<endif>>")
        else:
            head.append(ind + "<<for i in xs>>")
            tail.append(ind + "<<endfor>>")
    tail.reverse()
    if form == "unclosed":
        tail = []
    elif form == "closers-only-half":
        tail = tail[:len(tail) // 2]
    return head + [(" " * (depth if indent else 0)) + "innermost {v}"] + tail


BLOCK_HOSTS = {
    "passage-body": lambda B: [":: A", "t"] + B + ["+ [go] -> A"],
    "first-in-passage": lambda B: [":: A"] + B,
    "join-block": lambda B: [":: A", "+ [go] -> @join"] + ["    " + l for l in B] + ["@join", "after"],
    "before-first-passage": lambda B: B + [":: A", "t"],
}

PYEXPR_KINDS = {
    "parens": lambda d: "(" * d + "1" + ")" * d,
    "unary-minus": lambda d: "-" * d + "1",
    "not": lambda d: "not " * d + "x",
    "list": lambda d: "[" * d + "]" * d,
    "tuple-in-list": lambda d: "[(" * d + "1" + ",)]" * d,
    "call": lambda d: "f(" * d + "1" + ")" * d,
    "subscript": lambda d: "x" + "[0]" * d,
    "attribute": lambda d: "x" + ".a" * d,
    "binary-chain": lambda d: "1" + " + 1" * d,
    "ternary": lambda d: "1 if x else " * d + "0",
    "lambda": lambda d: "lambda: " * d + "1",
    "dict-in-call": lambda d: "f(k=" * d + "1" + ")" * d,
    "string-of-parens": lambda d: "\"" + "(" * d + "\"",
}
PYEXPR_HOSTS = {
    "statement": lambda E: [":: A", "~ x = " + E],
    "statement-in-if": lambda E: [":: A", "@if c:", "~ x = " + E, "@endif"],
    "statement-multiline": lambda E: [":: A", "~ x = [", "    " + E + ",", "]"],
    "jump-argument": lambda E: [":: A", "-> T(" + E + ")", ":: T(x)", "t"],
    "jump-keyword-argument": lambda E: [":: A", "-> T(x=" + E + ")", ":: T(x)", "t"],
    "choice-argument": lambda E: [":: A", "+ [go] -> T(" + E + ")", ":: T(x)", "t"],
    "choice-argument-in-if": lambda E: [":: A", "@if c:", "+ [go] -> T(" + E + ")", "@endif", ":: T(x)", "t"],
    "jump-argument-in-for": lambda E: [":: A", "@for i in xs:", "-> T(" + E + ")", "@endfor", ":: T(x)", "t"],
    "argument-to-parameterless": lambda E: [":: A", "-> T(" + E + ")", ":: T", "t"],
    "choice-condition": lambda E: [":: A", "+ {" + E + "} [go] -> A"],
    "if-condition": lambda E: [":: A", "@if " + E + ":", "t", "@endif"],
    "for-collection": lambda E: [":: A", "@for i in " + E + ":", "t", "@endfor"],
    "text-expression": lambda E: [":: A", "Value {" + E + "}"],
    "inline-conditional-condition": lambda E: [":: A", "{" + E + " ? a | b}"],
    "parameter-default": lambda E: [":: A", "t", ":: T(x=" + E + ")", "t"],
    "render-argument": lambda E: [":: A", "@render card(" + E + ")"],
    "python-block": lambda E: [":: A", "@py:", "x = " + E, "@endpy"],
}
OTHER_NESTING = {
    "braces-in-text": lambda d: [":: A", "{" * d + "x" + "}" * d],
    "braces-in-choice-text": lambda d: [":: A", "+ [" + "{" * d + "x" + "}" * d + "] -> A"],
    "braces-in-choice-condition": lambda d: [":: A", "+ {" + "{" * d + "x" + "}" * d + "} [go] -> A"],
    "brackets-in-choice-text": lambda d: [":: A", "+ [" + "[" * d + "x" + "]" * d + "] -> A"],
    "parens-in-passage-parameters": lambda d: [":: A", "t", ":: T(x=" + "(" * d + "1" + ")" * d + ", y=2)", "t"],
    "multiline-statement-lines": lambda d: [":: A", "~ x = ["] + ["["] * d + ["]"] * d + ["]"],
    "multiline-statement-never-closed": lambda d: [":: A", "~ x = ["] + ["["] * d,
    "unbalanced-open-braces": lambda d: [":: A", "{c ? " * d + "x"],
    "unbalanced-close-braces": lambda d: [":: A", "x" + " | e}" * d],
    "choices-in-join-blocks": lambda d: [":: A"] + [l for k in range(d) for l in ("+ [c] -> @join", "    t {v}")] + ["@join"],
    "join-sections": lambda d: [":: A"] + [l for k in range(d) for l in ("+ [c] -> @join", "@join", "t")],
    "tags": lambda d: [":: A", "text" + " ^t:p" * d],
    "passages-chain": lambda d: [l for k in range(d) for l in (f":: P{k}", f"-> P{(k + 1) % d}")],
}


def depth_class(d, cap):
    if cap is None:
        return f"d{d}"
    return ("below-cap" if d < cap - 2 else "at-cap" if d <= cap + 2 else "above-cap" if d <= 3 * cap else "far-above-cap") + f":d{d}"


def deep_inputs(rng, quick):
    """[(family, lines)]: family = deep:<construct>:<position>:<host>:<depth class>:d<depth>.
    thorough: the full product positions x hosts x depths (depth 3000 of the inline conditional in 6 hosts per position).  quick: the full product positions x hosts at the depths
    around the cap; the small and the far-above depths on drawn hosts, arranged so that every position meets the
    far-above depths in several hosts and every host meets them through several positions (depth 3000 of the
    inline conditional costs about a second per probe and is left to the thorough tier; quick goes to 600 and 1500)."""
    out = []
    hosts = list(INLINE_HOSTS)
    rng.shuffle(hosts)
    for pi, pos in enumerate(INLINE_POSITIONS):
        for hi, host in enumerate(hosts):
            mk = INLINE_HOSTS[host]
            slot = (hi - 6 * pi) % len(hosts)              # 0..17, a different rotation of the hosts per position
            if not quick:
                # depth 3000 costs about a second per probe: 6 hosts per position (every host through 3 positions)
                depths = [d for d in INLINE_DEPTHS if d < 3000 or slot < 6]
            else:
                depths = [50, 51] + ([2, 49, 60] if slot % 3 == 0 else []) + ([600] if slot < 2 else []) + \
                    ([1500] if slot == 2 and pi % 4 == 0 else [])
            for d in depths:
                if pos == "both" and d > 600:
                    continue
                out.append((f"deep:inline-conditional:{pos}:{host}:{depth_class(d, INLINE_CAP)}", mk(nest_inline(d, pos, rng))))
    for kind in BLOCK_KINDS:
        for form in BLOCK_FORMS:
            for host, mk in BLOCK_HOSTS.items():
                if host != "passage-body" and (form != "closed" and kind not in ("if-then", "for")):
                    continue              # the other hosts: every kind closed, the two plain kinds in every form
                depths = BLOCK_DEPTHS if not quick else [2, 99, 100, 101, 600] + ([3000] if rng.random() < 0.15 else [])
                for d in depths:
                    for indent in ((False, True) if d <= 110 and (not quick or rng.random() < 0.3) else (False,)):
                        out.append((f"deep:block:{kind}/{form}{'/indented' if indent else ''}:{host}:{depth_class(d, BLOCK_CAP)}",
                                    mk(nest_blocks(d, kind, form, indent))))
    # inline conditionals inside nested blocks: both recursions at once
    for pos in ("then", "else", "alternate"):
        for d_block in (3, 99, 100):
            for d_inline in (49, 50, 51, 600):
                if quick and d_inline == 600 and d_block != 3:
                    continue
                body = nest_blocks(d_block, "if-for-alternate", "closed", False)
                k = body.index("innermost {v}")
                body[k] = nest_inline(d_inline, pos, rng)
                out.append((f"deep:inline-conditional-in-blocks:{pos}:blocks-d{d_block}:{depth_class(d_inline, INLINE_CAP)}",
                            [":: A"] + body))
    for kind, mk_e in PYEXPR_KINDS.items():
        for host, mk in PYEXPR_HOSTS.items():
            for d in (PYEXPR_DEPTHS if not quick else [60, 600] + ([3000] if rng.random() < 0.25 else [])):
                out.append((f"deep:python-expression:{kind}:{host}:d{d}", mk(mk_e(d))))
    for kind, mk in OTHER_NESTING.items():
        for d in (3, 60, 600, 3000):
            out.append((f"deep:other:{kind}:-:d{d}", mk(d)))
    return out


# ------------------------------------------------------------------------------------------------
# call-shape matrix: targets with 0..3 parameters (with / without defaults) x argument shapes (too few, exact, too
# many positional; keywords known / unknown / repeated / clashing with a positional; * and **; malformed texts) x
# call sites (choice, jump, nested in @if/@elif/@else/@for, beside a join choice, ...).  Everything else in the story is
# valid, so that the call site is what validate_passage_arguments sees.
# ------------------------------------------------------------------------------------------------

PARAM_CONFIGS = [
    [], [("x", None)], [("x", "1")], [("x", None), ("y", None)], [("x", None), ("y", "2")], [("x", "1"), ("y", "2")],
    [("x", None), ("y", None), ("z", None)], [("x", None), ("y", None), ("z", "3")], [("x", None), ("y", "2"), ("z", "x + y")],
    [("x", "1"), ("y", "x * 2"), ("z", "[1, 2]")],
]
MALFORMED_ARGS = ["1 2", "(", ")", "1,,2", ",", "1, ", "x for x in y", "\"(\") + (\")\"", "\")\"", "1 # c", "=1", "x=", "x==1",
                  "lambda: 0", "1; 2", "'", "{", "1, (2", "yield", " "]


def bracket_statement_inputs(rng, n):
    """Multi-line `~` statements whose continuation lines open and close brackets in every (also wrong) way: surplus
    closers, mismatched kinds, closers before openers, brackets inside strings, comment lines and blank lines inside
    the statement - at top level, in @if and @for bodies and in a join block.  The bracket tracker of
    extract_multiline_expression is shared by the comment pre-pass and every statement handler."""
    out = []
    frags = ["1", "2,", "'a'", "x", "[", "]", "(", ")", "{", "}", "]]", "))", "}}", "[(", ")]", "([{", "}])", "'['", '"]"', "'(' ,",
             "# note", "# ]", "", "  ", "1 // 2", "k: 1", "\\"]
    hosts = [
        ("top", "", lambda body: [":: S"] + body + ["after", "+ [Go] -> S"]),
        ("if", "    ", lambda body: [":: S", "@if flag:"] + body + ["    text", "@endif", "+ [Go] -> S"]),
        ("for", "    ", lambda body: [":: S", "@for i in xs:"] + body + ["    row", "@endfor", "+ [Go] -> S"]),
        ("join", "    ", lambda body: [":: S", "+ [J] -> @join"] + body + ["@join", "tail", "+ [Go] -> S"]),
    ]
    for _ in range(n):
        name, ind, wrap = rng.choice(hosts)
        opener = rng.choice(["[", "(", "{", "[[", "([", "f(", "{'k': ["])
        body = [ind + "~ v = " + opener]
        for _ in range(rng.randint(1, 4)):
            body.append(ind + rng.choice(["", "  ", "    "]) + " ".join(rng.choice(frags) for _ in range(rng.randint(1, 3))))
        if rng.random() < 0.6:
            closer = {"[": "]", "(": ")", "{": "}", "[[": "]]", "([": "])", "f(": ")", "{'k': [": "]}"}[opener]
            body.append(ind + rng.choice([closer, closer + closer[-1], closer[:-1], closer[::-1]]))
        out.append((f"bracket-statement:{name}", wrap(body), True))
    return out


def call_shapes(params):
    """[(shape name, argument text or None for 'no parentheses')] for a target with these parameters."""
    names = [n for n, _ in params]
    n = len(names)
    vals = ["1", "\"a, b\"", "f(2, 3)", "[4]", "n + 1"]
    out = [("no-parentheses", None), ("empty-parentheses", "")]
    for k in range(1, n + 3):
        cls = "exact" if k == n else "too-many-positional" if k > n else "fewer-positional"
        out.append((f"positional-{k}:{cls}", ", ".join(vals[i % len(vals)] for i in range(k))))
    if n:
        out.append(("all-by-keyword", ", ".join(f"{a}={vals[i]}" for i, a in enumerate(names))))
        out.append(("all-by-keyword-reversed", ", ".join(f"{a}={vals[i]}" for i, a in reversed(list(enumerate(names))))))
        out.append(("first-positional-rest-by-keyword", ", ".join(["1"] + [f"{a}=2" for a in names[1:]])))
        out.append(("last-by-keyword-only", f"{names[-1]}=5"))
        out.append(("first-by-keyword-only", f"{names[0]}=5"))
        out.append(("positional-and-keyword-clash", f"1, {names[0]}=2"))
        out.append(("positional-and-keyword-clash-last", ", ".join(["1"] * n + [f"{names[-1]}=2"])))
        out.append(("keyword-repeated", f"{names[0]}=1, {names[0]}=2"))
        out.append(("keyword-before-positional", f"{names[0]}=1, 2"))
        out.append(("exact-plus-unknown-keyword", ", ".join(["1"] * n + ["zz=9"])))
        out.append(("too-many-plus-unknown-keyword", ", ".join(["1"] * (n + 1) + ["zz=9"])))
        out.append(("too-many-plus-known-keyword", ", ".join(["1"] * (n + 1) + [f"{names[0]}=9"])))
    out.append(("unknown-keyword", "zz=1"))
    out.append(("star-args", "*xs"))
    out.append(("star-args-after-exact", ", ".join(["1"] * n + ["*xs"])))
    out.append(("double-star", "**d"))
    out.append(("double-star-after-exact", ", ".join(["1"] * n + ["**d"])))
    for m in MALFORMED_ARGS:
        out.append(("malformed:" + "".join(ch if ch.isalnum() else "_" for ch in m)[:12], m))
    return out


def _hdr(name, params):
    return ":: " + name + ("(" + ", ".join(a if d is None else f"{a}={d}" for a, d in params) + ")" if params else "")


CALL_SITES = {
    "choice": lambda c: ["+ [Go] -> " + c],
    "one-time-choice-with-tags": lambda c: ["* [Go] -> " + c + " ^once ^k:v"],
    "conditional-choice": lambda c: ["+ {n > 1} [Go] -> " + c],
    "choice-with-comment": lambda c: ["+ [Go] -> " + c + " // note"],
    "jump": lambda c: ["-> " + c],
    "jump-after-text": lambda c: ["Some text.", "-> " + c],
    "choice-in-if": lambda c: ["@if n:", "+ [Go] -> " + c, "@endif"],
    "jump-in-if": lambda c: ["@if n:", "    -> " + c, "@endif"],
    "choice-in-elif": lambda c: ["@if n:", "t", "@elif m:", "+ [Go] -> " + c, "@endif"],
    "jump-in-else": lambda c: ["@if n:", "t", "@else:", "-> " + c, "@endif"],
    "choice-in-for": lambda c: ["@for i in [1]:", "  + [Go {i}] -> " + c, "@endfor"],
    "jump-in-for": lambda c: ["@for i in [1]:", "-> " + c, "@endfor"],
    "choice-in-for-in-if": lambda c: ["@if n:", "@for i in [1]:", "+ [Go] -> " + c, "@endfor", "@endif"],
    "jump-in-if-in-for": lambda c: ["@for i in [1]:", "@if i:", "-> " + c, "@endif", "@endfor"],
    "choice-in-legacy-if": lambda c: ["<<if n>>", "+ [Go] -> " + c, "<<endif>>"],
    # (inside a join block a `->` line is text by design: no call site, but a line the block parser must survive)
    "jump-line-in-join-block-is-text": lambda c: ["+ [Wait] -> @join", "    -> " + c, "@join", "after"],
    "choice-beside-join-choice": lambda c: ["+ [Wait] -> @join", "    inside", "+ [Go] -> " + c, "@join", "after"],
    "choice-after-join": lambda c: ["+ [Wait] -> @join", "@join", "after", "+ [Go] -> " + c],
}
JOIN_CALLS = [("join-choice-with-arguments", lambda a: ["+ [Wait] -> @join" + ("" if a is None else f"({a})"), "    inside", "@join"]),
              ("jump-to-@join-with-arguments", lambda a: ["-> @join" + ("" if a is None else f"({a})")])]


def call_matrix(rng, quick):
    """[(family, lines, compare_with_model)].  thorough: the full matrix, all of it compared with the model.  quick: every
    (parameters, shape) pair at 4 drawn call sites out of 18; the model is compared at one of them plus a drawn share
    of the rest."""
    out = []
    for ci, params in enumerate(PARAM_CONFIGS):
        nreq = sum(1 for _, d in params if d is None)
        cfg = f"params-{len(params)}-required-{nreq}"
        shapes = call_shapes(params)
        for shape, args in shapes:
            sites = list(CALL_SITES) if not quick else rng.sample(list(CALL_SITES), 4)
            drawn = rng.choice(sites)
            for site in sites:
                call = "T" + ("" if args is None else f"({args})")
                body = CALL_SITES[site](call)
                target = [_hdr("T", params), "Target {n}."]
                caller = [":: Start", "~ n = 1"] + body
                other = [":: Other", "-> Start"]
                parts = rng.choice([[caller, target, other], [target, caller, other], [caller, other, target]])
                lines = [l for part in parts for l in part + [""]]
                if parts[0] is not caller:
                    lines = ["@start Start"] + lines
                cmp_ = (not quick) or site == drawn or rng.random() < 0.03
                out.append((f"call-shape:{cfg}:{shape.split(':')[0] if shape.startswith('malformed') else shape}:{site}", lines, cmp_))
    for name, mk in JOIN_CALLS:
        for args in (None, "", "1", "1, 2", "x=1", "1 2"):
            out.append((f"call-shape:@join:{name}:{'none' if args is None else 'args'}", [":: Start"] + mk(args) + ["after"], True))
    return out


# ------------------------------------------------------------------------------------------------
# run
# ------------------------------------------------------------------------------------------------

def pcase_term(lines, pr, oc):
    st = coq_list(f"({cs(k)}, {coq_bool(v)})" for k, v in pr.stmt.items())

    def shape(v):
        return coq_opt(v, lambda x: f"({coq_nat(x[0])}, {coq_list(cs(k) for k in x[1])})")
    ct = coq_list(f"({cs(k)}, ({shape(v[0])}, {coq_bool(v[1])}))" for k, v in pr.calls.items())
    return f"({coq_list(cs(l) for l in lines)}, {st}, {ct}, {robs(oc, story_term)})"


class SubCheck:
    """What harness/c11b.py sees as its Check: reports, disagreements, counts and samples go to the C11 Check,
    coverage numbers and notes are kept apart and merged under "part_b" afterwards."""

    def __init__(self, main, seed):
        import random
        self.main = main
        self.pid, self.tier, self.seed = main.pid, main.tier, seed
        self.rng = random.Random(seed)
        self.scratch = os.path.join(main.scratch, "part_b")
        os.makedirs(self.scratch, exist_ok=True)
        self.cov, self.notes, self.assumptions = {"samples": []}, {}, []
        self.finished = None

    def known_signatures(self):
        return self.main.known_signatures()

    def report(self, signature, what, replay):
        self.main.report(signature, what, replay)

    def disagree(self, label, what, replay):
        self.main.disagree("blocks:" + label, what, replay)

    def count(self, key, nontrivial):
        self.main.count(("b", key), nontrivial)

    def sample(self, s_):
        if len(self.cov["samples"]) < 2:
            self.cov["samples"].append(s_)

    def finish(self, props, trusted_base, checker_cmd):
        self.finished = {"trusted_base": trusted_base}
        return 0


def run_part_b(chk, tier, seed):
    """Part B's correspondence and direct oracle (harness/c11b.py) under this Check, and the theorems of
    Props/C11b.v.  Returns the props dict of C11b."""
    from . import c11b
    sub = SubCheck(chk, seed)
    box = {}

    def gate(_):
        box["props"] = C.check_props("C11b", chk.scratch)
        return box["props"]

    saved = (C.Check, C.coq_gate)
    C.Check, C.coq_gate = (lambda *a, **k: sub), gate
    try:
        c11b.run(tier, seed)
    finally:
        C.Check, C.coq_gate = saved
    chk.notes["part_b"] = {"coverage": {k: v for k, v in sub.cov.items()}, **sub.notes}
    chk.assumptions_b = sub.assumptions
    return box.get("props"), sub


def merge_props(pa, pb):
    if pb is None:
        return pa
    return {"obligations": pa["obligations"] + pb["obligations"], "discharged": pa["discharged"] + pb["discharged"],
            "theorems": list(pa["theorems"]) + [("C11b." + n, a) for n, a in pb["theorems"]],
            "ok": pa.get("ok", False) and pb.get("ok", False), "names": pa.get("names", []) + pb.get("names", [])}


def run(tier: str, seed: int) -> int:
    chk = C.Check("C11", tier, seed, "proof + correspondence + direct oracle")
    props = C.coq_gate(chk)
    # ---------------- part B: the block extractors (harness/c11b.py, Props/C11b.v) ----------------
    import time as _t
    _t0 = _t.time()
    def _tick(what):
        if os.environ.get("C11_TIMING"):
            print(f"[timing] {what}: {_t.time() - _t0:.1f}s", flush=True)
    props_b, sub = run_part_b(chk, tier, seed)
    _tick("part B done")
    if props_b is None or not props_b.get("ok"):
        chk.violations.append(("coq-props", "Props/C11b.v does not check or depends on axioms",
                               {"no_failing_input_found": True, "obligation": "Props/C11b.v",
                                "log": (props_b or {}).get("log", "")}))
    props = merge_props(props, props_b)
    C.use_repo()
    rng = chk.rng
    quick = tier == "quick"
    n_rand, n_shaped, n_harvest, n_multi, n_gen_plain, n_gen_blocks, n_mut_per_file = \
        (400, 1000, 400, 150, 400, 300, 5) if quick else (3000, 8000, 3000, 1500, 5000, 4000, 60)
    dist = {"line_functions": {}, "line_kinds": {}, "outcomes": {}, "mutations": {}, "constructs_used": {},
            "families": {}}

    # ---------------- (a) line-level correspondence ----------------
    harvested = []
    for path in repo_bard_files():
        t = read_ascii(path)
        if t:
            for l in t.split("\n"):
                if C.is_ascii(l):
                    harvested.append(l)
                    if l.startswith(":: "):
                        harvested.append(l[3:].strip())          # what the header functions see
    rng.shuffle(harvested)
    lines = gen_lines(rng, n_rand, n_shaped, harvested[:n_harvest])
    multi = gen_multi(rng, n_multi)
    lcases = line_cases(lines, multi, chk, dist["line_functions"])
    bad, shown, log = C.run_coq_cases(chk.scratch, HEADER, [t for t, _ in lcases], "lcase", "lcase_bad",
                                      show_fn="lcase_show", shard=1500)
    n_dis = 0
    for b in bad:
        n_dis += 1
        if isinstance(b, int):
            d = dict(lcases[b][1])
            d["model_says"] = shown.get(b)
            chk.disagree("line:" + d["function"], f"Compiler/ParseLine.v and {d['function']} differ on {d['input']!r}", d)
        else:
            chk.disagree("line-coqc", "a line-level case shard failed to evaluate", {"log": log})
    for t, d in lcases:
        chk.count(("l", d["function"], d["input"]), True)
    _tick("line-level correspondence done")

    # ---------------- inputs for (b), (c), (d) ----------------
    inputs = []          # (family, lines, compare with the model)
    for name, text in pinned_inputs():
        inputs.append(("pinned:" + name, text.split("\n"), True))
    for fam, ls in deep_inputs(rng, quick):
        # the model needs 0.3 - 1.5 s of vm_compute per deep case (its string accumulators are quadratic): the direct
        # oracle sees every probe, the model a drawn share of them (all of the shallow ones)
        d = int(fam.rsplit(":d", 1)[1])
        share = 1.0 if d <= 3 else (0.03 if quick else 0.2)
        inputs.append((fam, ls, rng.random() < share))
    inputs += call_matrix(rng, quick)
    inputs += bracket_statement_inputs(rng, 150 if quick else 1500)
    dist["include_graphs"] = include_family(chk, rng, 120 if quick else 1200)
    for _ in range(n_gen_plain):
        inputs.append(("generated-plain", gen_story_lines(rng, blocks=False), True))
    for _ in range(n_gen_blocks):
        inputs.append(("generated-blocks", gen_story_lines(rng, blocks=True), True))
    files = repo_bard_files()
    n_files = 0
    for path in files:
        text = read_ascii(path)
        if text is None:
            continue
        n_files += 1
        rel = os.path.relpath(path, C.REPO)
        base = text.split("\n")
        inputs.append(("repo-file", base, True))
        if not C.is_ascii(text):
            inputs.append(("repo-file-ascii", to_ascii(text).split("\n"), True))
        for _ in range(n_mut_per_file):
            src = base if rng.random() < 0.3 else to_ascii(text).split("\n")
            ls, ms = mutate(rng, src)
            for m in ms:
                dist["mutations"][m] = dist["mutations"].get(m, 0) + 1
            inputs.append(("repo-mutation", ls, True))
    dist["repo_files"] = n_files

    # ---------------- (c) totality oracle, (d) C12 validator, and the cases of (b) ----------------
    pterms, pmeta = [], []
    skipped = {"block-construct": 0, "non-ascii": 0, "framework-or-legacy": 0, "outside-the-model": 0, "line-too-long-for-vm_compute": 0,
               "too-many-lines-for-vm_compute": 0, "not-drawn-for-the-model": 0}
    n_timeouts = 0
    deep_ev = {"probes": 0, "compared_with_model": 0, "by_construct_and_position": {}, "by_host": {}, "by_depth_class": {}, "outcomes": {}}
    call_ev = {"stories": 0, "by_parameters": {}, "by_shape": {}, "by_site": {}, "outcomes_by_shape": {}, "compared_with_model": 0}

    def bump(d, k, n=1):
        d[k] = d.get(k, 0) + n

    for fam, ls, cmp_model in inputs:
        text = "\n".join(ls)
        ls = text.split("\n")                     # a generated line may itself contain a newline
        if n_timeouts >= MAX_TIMEOUTS:
            chk.notes["aborted_after_timeouts"] = f"{n_timeouts} inputs hung; the remaining inputs were not compiled"
            break
        # the far-above-cap probes are tens of kilobytes long and take up to a second or two on a busy machine
        limit = DEEP_ALARM_S if fam.startswith("deep:") and len(text) > 20000 else ALARM_S
        oc, pr = compile_real(text, limit)
        n_timeouts += oc[0] == "timeout"
        cls = oc[0] if oc[0] != "other" else "other:" + oc[1]
        shape_tag = fam.split(":", 1)[1] if fam.startswith("pinned:") else None
        if fam.startswith("deep:"):
            _, construct, position, host, *dc = fam.split(":")
            shape_tag = f"deep:{construct}:{position}:{host}"
            deep_ev["probes"] += 1
            bump(deep_ev["by_construct_and_position"], f"{construct}:{position}")
            bump(deep_ev["by_host"], f"{construct}:{host}")
            bump(deep_ev["by_depth_class"], f"{construct}:{dc[0] if len(dc) > 1 else dc[-1]}")
            bump(deep_ev["outcomes"].setdefault(construct, {}), cls)
            fam = "deep-nesting:" + construct
        elif fam.startswith("call-shape:"):
            _, cfg, shape, site = fam.split(":", 3)
            shape_tag = f"call-shape:{cfg}:{shape}:{site}"
            call_ev["stories"] += 1
            bump(call_ev["by_parameters"], cfg)
            bump(call_ev["by_shape"], shape)
            bump(call_ev["by_site"], site)
            bump(call_ev["outcomes_by_shape"].setdefault(shape, {}), cls)
            fam = "call-shape-matrix"
        dist["families"][fam] = dist["families"].get(fam, 0) + 1
        dist["outcomes"][cls] = dist["outcomes"].get(cls, 0) + 1
        in_p = False
        for l in ls:
            k = line_kind(l, in_p)
            in_p = in_p or k == "header"
            dist["line_kinds"][k] = dist["line_kinds"].get(k, 0) + 1
        for u in pr.used:
            dist["constructs_used"][u] = dist["constructs_used"].get(u, 0) + 1
        replay = {"kind": "compile", "family": fam, "source": text if len(text) < 4000 else text[:1500] + " ...[" + str(len(text)) + " chars]... " + text[-500:]}
        if shape_tag and not fam.startswith("pinned:"):
            replay["case"] = shape_tag
        if oc[0] == "timeout":
            chk.report(f"timeout:{shape_tag or fam}", f"compile_string did not return within {limit}s", replay)
        elif oc[0] == "other":
            chk.report(f"internal-error:{oc[1]}:{oc[2]}", f"compile_string raised {oc[1]} (in {oc[2]}) on a {fam} input", replay)
        for mode, exn in pr.gave_up:
            g = chk.notes.setdefault("ast_parse_gave_up", {})
            g[f"{mode}:{exn}"] = g.get(f"{mode}:{exn}", 0) + 1
        for mode, src, exn in pr.oracle_escapes:
            chk.notes.setdefault("oracle_assumption_escapes", {}).setdefault(f"ast.parse[{mode}]:{exn}", 0)
            chk.notes["oracle_assumption_escapes"][f"ast.parse[{mode}]:{exn}"] += 1
        if oc[0] == "val":
            for rule, what in c12_validate(oc[1], ls):
                chk.report(f"c12:{rule}", what, replay)
        chk.count(("p", text), oc[0] == "val" and len(oc[1].get("passages", {})) > 0)
        if len(chk.cov["samples"]) < 3 and fam.startswith("generated"):
            chk.sample({"kind": fam, "source": text[:600], "outcome": cls})
        # (b): only what the linked model covers
        if pr.used - ALLOWED_CONSTRUCTS:
            skipped["block-construct"] += 1
            continue
        if not C.is_ascii(text):
            skipped["non-ascii"] += 1
            continue
        if max(len(l) for l in ls) > MAX_MODEL_LINE:
            skipped["line-too-long-for-vm_compute"] += 1
            continue
        if len(ls) > MAX_MODEL_LINES:
            skipped["too-many-lines-for-vm_compute"] += 1
            continue
        if not cmp_model:
            skipped["not-drawn-for-the-model"] += 1
            continue
        call_ev["compared_with_model"] += fam == "call-shape-matrix"
        deep_ev["compared_with_model"] += fam.startswith("deep-nesting:")
        if oc[0] == "timeout" or (oc[0] == "other" and oc[1] == "RecursionError") or pr.oracle_escapes:
            skipped["outside-the-model"] += 1     # reported above; stack depth and hangs are not outcomes of the model
            continue
        try:
            pterms.append(pcase_term(ls, pr, oc))
        except S.Unsupported:
            skipped["framework-or-legacy"] += 1
            continue
        pmeta.append({"family": fam, "source": text, "implementation": cls, **({"case": shape_tag} if shape_tag else {})})
    _tick(f"compile loop done ({len(inputs)} inputs, {len(pterms)} model cases)")
    if LINK_BLOCKS:
        bad, shown, log = C.run_coq_cases(chk.scratch, HEADER + LINK_HEADER, pterms, "pcase", "pcase_bad_l",
                                          show_fn="pcase_show_l", shard=120)
    else:
        bad, shown, log = C.run_coq_cases(chk.scratch, HEADER, pterms, "pcase", "pcase_bad", show_fn="pcase_show", shard=120)
    for b in bad:
        n_dis += 1
        if isinstance(b, int):
            d = dict(pmeta[b])
            d["model_says"] = shown.get(b)
            chk.disagree("parse", f"Compiler/ParseMain.v and parse() differ on a {d['family']} input "
                                  f"(implementation: {d['implementation']})", d)
        else:
            chk.disagree("parse-coqc", "a whole-parse case shard failed to evaluate", {"log": log[-3000:]})
    _tick("whole-parse correspondence done")
    b_cov = sub.cov
    chk.cov["programs"] = len(lcases) + len(inputs) + b_cov.get("programs", 0)
    chk.cov["disagreements_checked"] = len(lcases) + len(pterms) + b_cov.get("disagreements_checked", 0)
    chk.cov["disagreements_found"] = n_dis + b_cov.get("disagreements_found", 0)
    chk.cov["rule"] = ("line cases: one per (function, distinct line). whole inputs: distinct by source text; non-trivial = the "
                       "real compiler accepted it with at least one passage")
    dist["deep_nesting"] = dict(deep_ev, caps={"inline conditionals": INLINE_CAP, "blocks": BLOCK_CAP}, family=(
        "every recursive construct through every recursive position in every host: inline conditionals (then / else / "
        "alternating / both sides / among text / empty sides) in content lines, glue lines, choice texts, @if/@elif/@else/"
        "@for bodies, join blocks; @if/@elif/@else/@for/<<if>>/<<for>> nesting (closed, unclosed, half closed; flush left and "
        "indented) in a passage body, first in a passage, in a join block, before the first passage; both at once; Python "
        "expression nesting (13 kinds) in 17 hosts; braces, brackets, multi-line statements, join sections, tags; depths "
        "below / at / above the caps and far above (600, 1500, 3000)"))
    dist["call_shapes"] = dict(call_ev, family=(
        "target with 0..3 parameters (10 signatures, with and without defaults) x argument shapes (no parentheses, empty, "
        "1..n+2 positional, keywords: all / reversed / partial / unknown / repeated (refused since fix F07e) / clashing with a positional / before a "
        "positional, *args, **kwargs, 20 malformed texts) x 18 call sites (choice, jump, in @if/@elif/@else/@for/<<if>>, "
        "nested two deep, beside a join choice, after @join; a `->` line inside a join block, which is text) in an otherwise "
        "valid story; plus calls to @join"))
    dist["whole_parse_cases_compared"] = len(pterms)
    dist["whole_parse_cases_skipped"] = skipped
    chk.notes["input_distribution"] = dist
    chk.notes["constructs_covered_by_model"] = {
        "compared_in_the_whole_parse_correspondence": sorted(ALLOWED_CONSTRUCTS),
        "block_extractors_linked": LINK_BLOCKS,
        "not_linked_in_this_run": sorted(BLOCK_CONSTRUCTS - ALLOWED_CONSTRUCTS)}
    chk.assumptions = [
        "model domain: ASCII lines without newline characters; non-ASCII inputs are covered by the totality oracle only",
        "Python's own parser is an oracle with two outcomes (accepts / does not parse); RecursionError, MemoryError and "
        "ValueError out of ast.parse count as 'does not parse', which is what the compiler does with them",
        "the interpreter's recursion limit is outside the model; the compiler's own recursion is capped (blocks 100, inline "
        "conditionals 50)",
    ] + list(getattr(chk, "assumptions_b", []))
    return chk.finish(props, C.BASE_TRUST + [
        "modelled: bardic/compiler/parsing/{core,content,directives,validation,blocks}.py",
        "the instrumentation of one compile (ast.parse and the four extractor names in core's namespace are wrapped to "
        "record what was asked / used)"],
        "make -C /verif/coq && coqc -Q /verif/coq Bardic /verif/coq/Props/C11.v && coqc -Q /verif/coq Bardic /verif/coq/Props/C11b.v")
