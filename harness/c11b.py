"""C11 part B — block extractors (bardic/compiler/parsing/blocks.py): correspondence with
Compiler/ParseBlocks.v and the direct totality/progress oracle on the real extractor functions.

Every case is one direct call of extract_python_block / extract_conditional_block /
extract_loop_block / extract_join_choice_block on generated (valid and broken) block texts and on
windows, truncations and line mutations of the block sections of every .bard file under the
repository.  The line-level functions the Gallina model is parameterised by (`linefns`) are
instantiated, per case, by finite tables recorded from the REAL functions during that very call
(fail closed on a missing entry), so the check is independent of Compiler/ParseLine.v.

Model version (Compiler/ParseBlocks.v carries the parameters `fixed`, `cap`): BARDIC_C11B_VARIANT = auto
(default: read off the tree under test), fixed (/repo as of 19fd338: legacy headers without `>>` diagnosed,
glue honoured by every text flush of an @if branch, leading comment lines of a loop body dropped before
dedenting, blank @py: body lines emptied, ~ continuation lines dedented in branches, nesting cap 100 - what the unsuffixed names of
ParseBlocks.v stand for), `a` (the same without the cap) or `current` (45ce265, before those commits).
Whatever the version, the direct oracle reports every escape with an internal error.
"""
from __future__ import annotations

import glob
import os
import re

from . import common as C
from .common import coq_str, coq_list, coq_bool, coq_opt, coq_nat, is_ascii
from .story2coq import attrs, check_ascii
from .pymini import Unsupported

HEADER = ("From Coq Require Import List String Arith.\n"
          "From Bardic Require Import PyStr Value Compiled Lex ParseBase ParseBlocks ParseBlocksCheck.")

# ------------------------------------------------------------------------------------------------
# printing tokens (as harness/story2coq.py `token`/`choice` do, without the expression tables, and
# keeping a framework hint, which story2coq refuses because the engine adds uuid keys for it)
# ------------------------------------------------------------------------------------------------

def s(x):
    return coq_str(check_ascii(x))


def tokens(ts) -> str:
    if isinstance(ts, str):
        return coq_list([f"(TText {s(ts)})"]) if ts else "[]"
    return coq_list(token(t) for t in ts)


def choice(c) -> str:
    args = c.get("args", "") or ""
    return "(Choice %s %s %s %s %s %s %s %s)" % (
        tokens(c["text"]), s(c["target"]), s(args), coq_opt(c.get("condition"), s),
        coq_bool(c.get("sticky", True)), coq_nat(c.get("section", 0)),
        coq_list(s(t) for t in c.get("tags", []) or []), tokens(c.get("block_content", [])))


def token(t) -> str:
    ty = t["type"]
    if ty == "text":
        return f"(TText {s(t['value'])})"
    if ty == "expression":
        return f"(TExpr {s(t['code'])})"
    if ty == "inline_conditional":
        return f"(TInlineCond {s(t['condition'])} {tokens(t['truthy'])} {tokens(t['falsy'])})"
    if ty == "conditional":
        brs = [f"(Branch {s(b['condition'])} {tokens(b['content'])} {coq_list(choice(c) for c in b.get('choices', []))})"
               for b in t["branches"]]
        return f"(TCond {coq_list(brs)})"
    if ty == "for_loop":
        return (f"(TLoop {s(t.get('variable') or '')} {s(t.get('collection') or '')} {tokens(t['content'])} "
                f"{coq_list(choice(c) for c in t.get('choices', []))})")
    if ty == "jump":
        return f"(TJump {s(t['target'])} {s(t.get('args', '') or '')})"
    if ty == "python_statement":
        return f"(TPyStmt {s(t['code'])})"
    if ty == "python_block":
        return f"(TPyBlock {s(t['code'])})"
    if ty == "hook":
        return f"(THook {coq_bool(t['action'] == 'add')} {s(t['event'])} {s(t['target'])})"
    if ty == "render_directive":
        return f"(TRender {s(t['name'])} {s(t.get('args', '') or '')} {coq_opt(t.get('framework_hint'), s)})"
    if ty == "input":
        return f"(TInput {attrs(t)})"
    raise Unsupported(f"token kind {ty}")


def tree_size(t) -> int:
    if isinstance(t, list):
        return sum(tree_size(x) for x in t)
    if not isinstance(t, dict):
        return 0
    n = 1
    for k in ("branches", "content", "truthy", "falsy", "choices"):
        if isinstance(t.get(k), list):
            n += tree_size(t[k])
    return n


def tree_depth(t) -> int:
    if isinstance(t, list):
        return max([tree_depth(x) for x in t] or [0])
    if not isinstance(t, dict):
        return 0
    sub = 0
    for k in ("branches", "content"):
        if isinstance(t.get(k), list):
            sub = max(sub, tree_depth(t[k]))
    return sub + (1 if t.get("type") in ("conditional", "for_loop") else 0)


# ------------------------------------------------------------------------------------------------
# recording the line-level functions while the real extractor runs
# ------------------------------------------------------------------------------------------------
INTERNAL_CTOR = {"UnboundLocalError": "IUnboundLocal", "IndexError": "IIndex", "AttributeError": "INoneAttr",
                 "KeyError": "IKey", "TypeError": "IType", "RecursionError": '(IRecursion "")'}


class Recorder:
    def __init__(self):
        self.reset(None)

    def reset(self, main):
        self.main = main
        self.content, self.choice, self.render, self.input, self.eta = {}, {}, {}, {}, {}
        self.emx = []

    def outcome(self, fn, conv):
        """run fn; returns (python result or raises) and the Coq `pres` term"""
        try:
            r = fn()
        except SyntaxError as e:
            return e, f'(PDiag (DSyntax "content:braces" 0))'
        except C.Timeout:
            raise
        except Exception as e:  # internal error inside a line-level function
            k = INTERNAL_CTOR.get(type(e).__name__)
            if k is None:
                raise
            return e, f"(PInternal {k})"
        return None, f"(POk {conv(r)})"


REC = Recorder()


def install(blocks):
    orig = {n: getattr(blocks, n) for n in ("parse_content_line", "parse_choice_line", "parse_render_line",
                                            "parse_input_line", "extract_multiline_expression",
                                            "extract_target_and_args")}

    def wrap_pres(name, table, conv):
        f = orig[name]

        def g(line, *a, **k):
            box = {}

            def call():
                box["r"] = f(line, *a, **k)
                return box["r"]
            exc, term = REC.outcome(call, conv)
            getattr(REC, table)[line] = term
            if exc is not None:
                raise exc
            return box["r"]
        return g

    blocks.parse_content_line = wrap_pres("parse_content_line", "content", tokens)
    blocks.parse_choice_line = wrap_pres("parse_choice_line", "choice",
                                         lambda c: "None" if c is None else f"(Some {choice(c)})")
    blocks.parse_render_line = wrap_pres("parse_render_line", "render",
                                         lambda d: "None" if not d else f"(Some {token(d)})")
    blocks.parse_input_line = wrap_pres("parse_input_line", "input",
                                        lambda d: "None" if not d else f"(Some {token(d)})")

    def emx(lines, i, code):
        r = orig["extract_multiline_expression"](lines, i, code)
        suf = f"(SMain {i + 1})" if lines is REC.main else f"(SList {coq_list(s(x) for x in lines[i + 1:])})"
        REC.emx.append(f"({s(code)}, {suf}, ({s(r[0])}, {coq_nat(r[1])}))")
        return r

    def eta(x):
        r = orig["extract_target_and_args"](x)
        REC.eta[x] = f"({s(r[0])}, {s(r[1])})"
        return r

    blocks.extract_multiline_expression = emx
    blocks.extract_target_and_args = eta


# ------------------------------------------------------------------------------------------------
# running one case on the implementation
# ------------------------------------------------------------------------------------------------
SITES = [
    ("@py statement missing colon", "py-missing-colon"),
    ("@py block not closed", "py-unclosed"),
    ("<<py block not closed", "py-unclosed"),
    ("@if statement missing colon", "if-missing-colon"),
    ("@endif should not have a colon", "endif-colon"),
    ("@elif statement missing colon", "elif-missing-colon"),
    ("@else statement missing colon", "else-missing-colon"),
    ("@if block never closed", "if-unclosed"),
    ("@for statement missing colon", "for-missing-colon"),
    ("Invalid for loop syntax", "for-invalid"),
    ("@endfor should not have a colon", "endfor-colon"),
    ("@for block never closed", "for-unclosed"),
    ("<<if statement missing >>", "if-missing-close"),
    ("<<elif statement missing >>", "elif-missing-close"),
    ("blocks nested more than", "nesting-too-deep"),
    ("Found '}' without matching", "content:braces"),
    ("Unclosed expression in", "content:braces"),
]


def site_of(msg: str):
    """format_error joins its header parts with newlines: '✗ <type>' / [' in <file>'] / ' on line N:' / '  <message>'"""
    ls = msg.split("\n")
    idx = None
    text = ls[0]
    if ls[0].startswith("✗"):
        for k in range(1, min(4, len(ls))):
            m = re.match(r" on line (\d+):$", ls[k])
            if m:
                idx = int(m.group(1)) - 1
                text = ls[k + 1].strip() if k + 1 < len(ls) else ""
                break
    for pat, site in SITES:
        if text.startswith(pat):
            return site, idx
    return "?unknown-site", idx


def run_impl(blocks, case):
    """-> (expect term, outcome class, python result)"""
    kind, lines, start = case["kind"], case["lines"], case["start"]
    REC.reset(lines)
    try:
        with C.alarm(5):
            if kind == "py":
                code, n = blocks.extract_python_block(lines, start)
                return f"(EOkPy {s(code)} {coq_nat(n)})", "value", (code, n)
            if kind == "cond":
                t, n = blocks.extract_conditional_block(lines, start)
                return f"(EOkTok {token(t)} {coq_nat(n)})", "value", (t, n)
            if kind == "loop":
                t, n = blocks.extract_loop_block(lines, start)
                return f"(EOkTok {token(t)} {coq_nat(n)})", "value", (t, n)
            ct, ex, n = blocks.extract_join_choice_block(lines, start, case["indent"])
            return f"(EOkJoin {tokens(ct)} {tokens(ex)} {coq_nat(n)})", "value", ((ct, ex), n)
    except SyntaxError as e:
        site, idx = site_of(str(e))
        return f"(ESyntax {coq_str(site)} {coq_opt(idx, coq_nat)})", "SyntaxError", site
    except ValueError as e:
        return "EValue", "ValueError", str(e)
    except C.Timeout:
        return '(EInternal "Timeout")', "Timeout", None
    except Unsupported:
        raise
    except Exception as e:  # noqa: the property forbids every one of these
        return f"(EInternal {coq_str(type(e).__name__)})", type(e).__name__, repr(e)[:200]


def case_term(case, expect):
    def tab(d):
        return coq_list(f"({s(k)}, {v})" for k, v in d.items())
    kind = {"py": "KPy", "cond": "KCond", "loop": "KLoop", "join": "KJoin"}[case["kind"]]
    return "(mkCase %s %s %s %s %s %s %s %s %s %s %s)" % (
        kind, coq_list(s(x) for x in case["lines"]), coq_nat(case["start"]), coq_nat(case.get("indent", 0)),
        tab(REC.content), tab(REC.choice), tab(REC.render), tab(REC.input), coq_list(REC.emx), tab(REC.eta), expect)


# ------------------------------------------------------------------------------------------------
# generators
# ------------------------------------------------------------------------------------------------
CONDS = ["hp > 3", "x", "not done", "a and b", "x[0:1]", "d['k'] == 1", "f(x, y)", "n >= 2 // 1"]
TEXTS = ["You see a door.", "HP: {hp}", "{a ? yes | no}", "It is {d['k']} o'clock", "{x:>4} coins",
         "Mixed {a} and {b ? {c} | none} end", "text with tag ^mood", "a // trailing note", "path \\// kept",
         "x //= 2 stays", "<> leading", "~not a statement", "@ sign text", ": colon line", "#hash later"]
BROKEN_TEXTS = ["Oops {x", "x} y", "{a {b}", "}{"]
GLUE = ["glued<>", "glued {x} <>  ", "<>", "a<> // c"]
STMTS = ["~ x = 1", "~ x += 1 // bump", "~ items.append('k')", "~ y = (", "~ z = [1,", "~ d = {", "~  spaced = 2",
         "~ q = f(x)[", "~x = 1", "~ "]
CONT = ["  1,", "  2]", ")", "}", "  'a': [1, 2],", "]"]
DIRECTIVES = ["@render card(x)", "@render:react card(x, pos=1)", "@render", "@render: bad", "@render show",
              "@renderx y", '@input name="n"', '@input name="n" placeholder="p" label="L"', "@input",
              '@input label="only"', "@hook turn_end Tick", "@hook turn_end", "@hook a b c", "@unhook turn_end Tick",
              "@unhook x", "@hook  spaced   Target "]
JUMPS = ["-> Target", "-> T(1, 2)", "->", "->   ", "-> T(1 // c", "->NoSpace", "-> T(a(b), c) // go", "-> T("]
CHOICES = ["+ [Go] -> T", "* [Go] -> T(x)", "+ {c} [Go] -> T", "+ [Go {x}] -> T ^tag", "+ broken", "+ [Go {x] -> T",
           "*", "+", "* {a > 1} [Take {n}] -> Take(n, 2) // c", "+ [Stay] -> @join", "*[tight] -> T"]
IF_OPEN = ["@if {c}:", "@if {c}:", "@if {c}:", "<<if {c}>>", "<<if {c}>>", "@if  {c} :  ", "@if {c}: // note",
           "<<if {c}>> tail", "@if\t{c}:"]
IF_OPEN_BAD = ["@if {c}", "<<if {c}", "@if  :", "@if :", "<<if  >>", "<<if >>", "<<if >>>", "@if {c}:x", "<<if {c}>",
               "<<if // c>>", "@if // c:"]
ELIF = ["@elif {c}:", "@elif {c}:", "<<elif {c}>>", "@elif  {c}:  // n"]
ELIF_BAD = ["@elif {c}", "<<elif {c}", "@elif :", "<<elif  >>", "<<elif >>", "@elif"]
ELSE = ["@else:", "@else:", "<<else>>", "@else: // c", "<<else>> x"]
ELSE_BAD = ["@else", "@elsewhere", "@else :", "@else:x", "<<else>"]
ENDIF = ["@endif", "@endif", "<<endif>>", "<<endif>> x", "  @endif  "]
ENDIF_BAD = ["@endif:", "@end if", "@endif x", "<<endif>", "@endfor"]
FOR_OPEN = ["@for {v} in {xs}:", "@for {v} in {xs}:", "<<for {v} in {xs}>>", "@for  {v}  in  {xs} :  ",
            "@for {v} in {xs}: // c", "<<for {v} in {xs}>> tail", "@for a, b in d.items():", "@for i in range(3)[0:2]:"]
FOR_OPEN_BAD = ["@for {v} in {xs}", "<<for {v} {xs}>>", "@for    in y:", "@for x in  :", "@for x in :", "<<for x in  >>",
                "<<for x in >>", "@for in in in:", "@for x inn y:", "<<for  in y>>", "<<for {v} in {xs}", "@for x:",
                "@for  x  in\tin  y in z:"]
ENDFOR = ["@endfor", "@endfor", "<<endfor>>", "<<endfor>> t", "\t@endfor "]
ENDFOR_BAD = ["@endfor:", "@end for", "@endfor x", "@endif"]
VARS = ["x", "item", "k, v"]
COLLS = ["xs", "items[1:]", "d.items()", "range(3)"]
INDENTS = ["", "  ", "    ", "\t", " "]


def pick_fmt(rng, pool):
    return rng.choice(pool).replace("{c}", rng.choice(CONDS)).replace("{v}", rng.choice(VARS)).replace(
        "{xs}", rng.choice(COLLS))


def gen_py(rng, broken):
    body = rng.sample(["x = 1", "if x:", "    y = 2", "", "   ", "def f():", "\treturn 1", "# c", "z = 3 // 1", ">> no"],
                      rng.randint(0, 5))
    ind = rng.choice(INDENTS)
    body = [(ind + b if b.strip() else b) for b in body]
    if body and rng.random() < 0.2:
        k = rng.randrange(len(body))
        body[k] = body[k].lstrip()
    if rng.random() < 0.5:
        op, cl = "@py:", "@endpy"
        if broken and rng.random() < 0.5:
            op = rng.choice(["@py", "@py :", "@python:", "@py: x"])
    else:
        op, cl = rng.choice(["<<py", "<<py ", "<<python"]), rng.choice([">>", "  >> "])
    if broken and rng.random() < 0.5:
        cl = rng.choice([None, "@endpy:", "> >", "@end"])
    return [op] + body + ([cl] if cl is not None else [])


def gen_items(rng, depth, n, broken, feats):
    out = []
    for _ in range(n):
        k = rng.random()
        if k < 0.30:
            feats.add("text")
            out.append(rng.choice(TEXTS))
        elif k < 0.36:
            feats.add("glue")
            out.append(rng.choice(GLUE))
        elif k < 0.40:
            out.append(rng.choice(["", "   ", "# a comment", "  # indented comment"]))
            feats.add("blank/comment")
        elif k < 0.43 and broken:
            feats.add("broken-braces")
            out.append(rng.choice(BROKEN_TEXTS))
        elif k < 0.52:
            feats.add("statement")
            st = rng.choice(STMTS)
            out.append(st)
            if st.rstrip()[-1:] in "([{" and rng.random() < 0.8:
                out.extend(rng.sample(CONT, rng.randint(1, 3)))
                feats.add("multiline-statement")
        elif k < 0.62:
            feats.add("directive")
            out.append(rng.choice(DIRECTIVES))
        elif k < 0.70:
            feats.add("jump")
            out.append(rng.choice(JUMPS))
        elif k < 0.78:
            feats.add("choice")
            out.append(rng.choice(CHOICES))
        elif k < 0.84:
            feats.add("py-block")
            out.extend(gen_py(rng, broken and rng.random() < 0.3))
        elif depth > 0 and k < 0.93:
            out.extend(gen_if(rng, depth - 1, broken, feats))
        elif depth > 0:
            out.extend(gen_for(rng, depth - 1, broken, feats))
        else:
            out.append(rng.choice(TEXTS))
    if depth > 0 and rng.random() < 0.6:       # keep the requested nesting depth likely
        nested = gen_if(rng, depth - 1, broken, feats) if rng.random() < 0.6 else gen_for(rng, depth - 1, broken, feats)
        pos = rng.randint(0, len(out))
        out[pos:pos] = nested
    return out


def indent_body(rng, body, feats):
    ind = rng.choice(INDENTS)
    if ind:
        feats.add("indented")
    res = [(ind + b if b.strip() or rng.random() < 0.3 else b) for b in body]
    if res and rng.random() < 0.1:
        k = rng.randrange(len(res))
        res[k] = res[k].lstrip()
        feats.add("ragged-indent")
    return res


def gen_if(rng, depth, broken, feats):
    b = broken and rng.random() < 0.35
    op = pick_fmt(rng, IF_OPEN_BAD if b and rng.random() < 0.5 else IF_OPEN)
    feats.add("legacy-if" if op.startswith("<<") else "at-if")
    out = [op] + indent_body(rng, gen_items(rng, depth, rng.randint(0, 4), broken, feats), feats)
    for _ in range(rng.choice([0, 0, 1, 1, 2])):
        out.append(pick_fmt(rng, ELIF_BAD if b and rng.random() < 0.4 else ELIF))
        feats.add("elif")
        out += indent_body(rng, gen_items(rng, depth, rng.randint(0, 3), broken, feats), feats)
    if rng.random() < 0.5:
        out.append(rng.choice(ELSE_BAD if b and rng.random() < 0.6 else ELSE))
        feats.add("else")
        out += indent_body(rng, gen_items(rng, depth, rng.randint(0, 3), broken, feats), feats)
    if b and rng.random() < 0.5:
        if rng.random() < 0.6:
            out.append(rng.choice(ENDIF_BAD))
    else:
        out.append(rng.choice(ENDIF))
    return out


def gen_for(rng, depth, broken, feats):
    b = broken and rng.random() < 0.35
    op = pick_fmt(rng, FOR_OPEN_BAD if b and rng.random() < 0.5 else FOR_OPEN)
    feats.add("legacy-for" if op.startswith("<<") else "at-for")
    out = [op] + indent_body(rng, gen_items(rng, depth, rng.randint(0, 5), broken, feats), feats)
    if b and rng.random() < 0.4:
        if rng.random() < 0.5:
            out.append(rng.choice(ENDFOR_BAD))
    else:
        out.append(rng.choice(ENDFOR))
    return out


VOCAB = (IF_OPEN + IF_OPEN_BAD + ELIF + ELIF_BAD + ELSE + ELSE_BAD + ENDIF + ENDIF_BAD + FOR_OPEN + FOR_OPEN_BAD +
         ENDFOR + ENDFOR_BAD + ["@py:", "@endpy", "<<py", ">>", "@join", ":: Next", "+ [x] -> y", "# c", "", "~ a = ("])


def mutate(rng, lines, feats):
    lines = list(lines)
    for _ in range(rng.choice([1, 1, 2, 3])):
        if not lines:
            break
        k = rng.random()
        i = rng.randrange(len(lines))
        if k < 0.2:
            del lines[i]
            feats.add("mut-delete")
        elif k < 0.3:
            lines.insert(i, lines[i])
            feats.add("mut-duplicate")
        elif k < 0.4:
            j = rng.randrange(len(lines))
            lines[i], lines[j] = lines[j], lines[i]
            feats.add("mut-swap")
        elif k < 0.55:
            lines = lines[:max(1, i)]
            feats.add("mut-truncate")
        elif k < 0.8:
            lines.insert(i, rng.choice(INDENTS) + pick_fmt(rng, VOCAB))
            feats.add("mut-insert-vocab")
        elif k < 0.9:
            lines[i] = rng.choice(INDENTS) + lines[i].lstrip()
            feats.add("mut-reindent")
        else:
            ln = lines[i]
            if ln:
                c = rng.randrange(len(ln))
                lines[i] = ln[:c] + ln[c + 1:]
                feats.add("mut-drop-char")
    return lines


def is_opener(line, kind):
    st = line.strip()
    if kind == "py":
        return st.startswith("<<py") or st.startswith("@py")
    if kind == "cond":
        return st.startswith("<<if ") or st.startswith("@if ")
    if kind == "loop":
        return st.startswith("<<for ") or st.startswith("@for ")
    return False


def openers(lines):
    for i, ln in enumerate(lines):
        for kind in ("py", "cond", "loop"):
            if is_opener(ln, kind):
                yield kind, i


def gen_block_cases(rng, n, maxdepth):
    """generated block texts, called at the outer opener and at inner openers"""
    for _ in range(n):
        feats = set()
        broken = rng.random() < 0.45
        depth = rng.randint(0, maxdepth)
        top = rng.random()
        block = gen_if(rng, depth, broken, feats) if top < 0.55 else (
            gen_for(rng, depth, broken, feats) if top < 0.9 else gen_py(rng, broken))
        if broken and rng.random() < 0.5:
            block = mutate(rng, block, feats)
        pre = rng.sample(["Intro text", "", "+ [a] -> b", "# c"], rng.randint(0, 2))
        post = rng.sample(["after", "", "+ [a] -> b", ":: Next", "@endif", "@endfor"], rng.randint(0, 2))
        lines = pre + block + post
        ops = list(openers(lines))
        outer = [(k, i) for k, i in ops if i == len(pre)]
        inner = [(k, i) for k, i in ops if i != len(pre)]
        rng.shuffle(inner)
        for kind, i in outer + inner[:2]:
            yield {"kind": kind, "lines": lines, "start": i, "src": "generated", "broken": broken,
                   "feats": sorted(feats), "gen_depth": depth}


JOIN_BODY = ["You take it.", "HP: {hp}", "", "   ", "# note", "  # note2", "~ x = 1", "~x=2", "~ y = 3 // c", "@hook turn_end T",
             "@hook bad", "@unhook turn_end T", "@unhook", "Oops {x", "glue<>", "text ^tag", "~", "-> Elsewhere",
             "@render card(x)", "@input name=\"n\""]
JOIN_TERM = ["+ [Next] -> T", "* {c} [N] -> T", "@join", ":: Passage", "@if x:", "@elif y:", "@else:", "@else", "@endif",
             "@for x in y:", "@endfor", "@py:", "@py", "@endpy", "+ {c} [x] -> y", "plain dedented text", "@iffy"]


def gen_join_cases(rng, n):
    for _ in range(n):
        ci = rng.choice([0, 0, 2, 4])
        pre = rng.sample(["Intro", "", "@join"], rng.randint(0, 1)) + [" " * ci + "+ [Pick] -> @join"]
        body = []
        for _ in range(rng.randint(0, 6)):
            ind = ci + rng.choice([2, 2, 4, 1, 0]) if rng.random() < 0.9 else rng.choice([0, ci])
            b = rng.choice(JOIN_BODY)
            body.append((" " * ind + b) if b.strip() else b)
        term = []
        if rng.random() < 0.8:
            term = [" " * rng.choice([0, ci, ci + 2]) + rng.choice(JOIN_TERM)] + rng.sample(["more", ""], rng.randint(0, 1))
        lines = pre + body + term
        yield {"kind": "join", "lines": lines, "start": len(pre), "indent": rng.choice([ci, ci, ci, 0, 3]),
               "src": "generated", "broken": False, "feats": ["join"], "gen_depth": 0}


def gen_misuse_cases(rng, n):
    """calls the parser never makes (start line is not an opener, start == len(lines)): compared with
    the model, excluded from the oracle"""
    for _ in range(n):
        feats = set()
        block = gen_if(rng, 1, False, feats) + gen_for(rng, 1, False, feats)
        kind = rng.choice(["py", "cond", "loop"])
        start = rng.choice([len(block), rng.randrange(len(block))])
        yield {"kind": kind, "lines": block, "start": start, "src": "misuse", "broken": False,
               "feats": ["misuse"], "gen_depth": 1, "misuse": True}


def repo_files():
    fs = sorted(glob.glob(os.path.join(C.REPO, "**", "*.bard"), recursive=True))
    return [f for f in fs if "/pyodide/" not in f and "/.git/" not in f and "/node_modules/" not in f]


def gen_repo_cases(rng, core, budget, mutated_share):
    """windows of the block sections of every .bard file: as is, truncated, line-mutated"""
    files = repo_files()
    per_file = max(2, budget // max(1, len(files)))
    for path in files:
        try:
            text = open(path, encoding="utf-8").read()
        except Exception:
            continue
        text = "".join(ch if ord(ch) < 128 else "?" for ch in text)
        lines = core._strip_comments_outside_python(text.split("\n"))
        ops = list(openers(lines))
        joins = [i for i, ln in enumerate(lines) if ln.lstrip().startswith(("+ ", "* ")) and ln.rstrip().endswith("-> @join")]
        rng.shuffle(ops)
        picked = ops[:per_file] + [("join", i + 1) for i in joins[:2]]
        for kind, i in picked:
            lo = max(0, i - rng.randint(0, 2))
            win = lines[lo:i + rng.choice([12, 25, 60])]
            start = i - lo
            feats = {"repo-file"}
            mode = "as-is"
            if rng.random() < mutated_share:
                if rng.random() < 0.4:
                    cut = rng.randint(start + 1, max(start + 1, len(win)))
                    win = win[:cut]
                    mode = "truncated"
                else:
                    head, tail = win[:start + 1], mutate(rng, win[start + 1:], feats)
                    win = head + tail
                    mode = "mutated"
            case = {"kind": kind, "lines": win, "start": start, "src": "repo:" + os.path.relpath(path, C.REPO) + ":" + mode,
                    "broken": mode != "as-is", "feats": sorted(feats | {mode}), "gen_depth": None}
            if kind == "join":
                choice_line = win[start - 1] if start >= 1 else ""
                case["indent"] = len(choice_line) - len(choice_line.lstrip())
            yield case


# regression/corner inputs always run first (each was a question while reading blocks.py)
CORPUS = [
    ("cond", ["<<if x", "a", "<<endif>>"], 0),                       # F11a
    ("cond", ["<<if x>>", "a", "<<elif y", "b", "<<endif>>"], 0),   # stale `condition`
    ("cond", ["@if x:", "a", "<<elif y", "b", "@endif"], 0),
    ("cond", ["<<if  >>", "a", "<<endif>>"], 0),
    ("cond", ["<<if >>", "a", "<<endif>>"], 0),
    ("cond", ["<<if >>>", "a", "<<endif>>"], 0),
    ("cond", ["@if  :", "a", "@endif"], 0),
    ("cond", ["@if :", "a", "@endif"], 0),
    ("cond", ["@if x:", "text", "-> T(1)", "more<>", "@else:", "g<>", "@endif"], 0),
    ("cond", ["@if x:", "  ~ y = [", "  1,", "  ]", "  t", "@endif"], 0),
    ("cond", ["@if x:", "<<py", "  a = 1"], 0),
    ("cond", ["@if x:", "@if y:", "a", "@endif"], 0),
    ("cond", ["@if x:", "# @endif", "a", "@endif:", "@endif"], 0),
    ("cond", ["pre", "  @if x: // c", "    a", "  @elif y[0:1]:", "    b", "  @else:", "    c", "  @endif", "post"], 1),
    ("loop", ["@for    in y:", "a", "@endfor"], 0),
    ("loop", ["@for x in  :", "a", "@endfor"], 0),
    ("loop", ["<<for x in  >>", "a", "<<endfor>>"], 0),
    ("loop", ["<<for x in >>", "a", "<<endfor>>"], 0),
    ("loop", ["@for  x  in\tin  y in z:", "a", "@endfor"], 0),
    ("loop", ["@for x in xs:", "  @for y in ys:", "    {x}{y}<>", "  @endfor", "  ~ n = (", "  1)", "@endfor", "z"], 0),
    ("loop", ["@for x in xs:", "  <<if a", "  t", "  <<endif>>", "@endfor"], 0),
    ("loop", ["@for x in xs:", "a", "@endfor:", "@endfor"], 0),
    ("loop", ["@for x in xs:", "Oops {", "no closer"], 0),
    ("loop", ["@for x in xs:", " ~ indented tilde", "~ top = 1", "@endfor"], 0),
    ("py", ["<<py", "  a = 1", "", " b = 2"], 0),
    ("py", ["@py:", "  a = 1", "   b", "@endpy"], 0),
    ("py", ["@py", "@endpy"], 0),
    # glue on the text line before each kind of directive / block / jump / choice (b0767bb)
    ("cond", ["@if a:", "  one<>", "  ~ n = 1", "  two<>  ", "  -> T", "@endif"], 0),
    ("cond", ["@if a:", "one <>", "@render card(x)", "two<>", "@input name=\"n\"", "three<>", "@hook turn_end T", "4<>",
              "@unhook turn_end T", "5<>", "+ [c] -> T", "6<>", "@py:", "x = 1", "@endpy", "7<>", "@if b:", "8<>", "@endif",
              "9<>", "@for i in xs:", "10<>", "@endfor", "11<>", "@endif"], 0),
    ("loop", ["@for i in xs:", "  @if a:", "    x<>", "    ~ n = 1", "    y<> // c", "  @else:", "    z<>", "  @endif", "@endfor"], 0),
    # whitespace-only lines in @py: bodies (3dd8bdc); multi-line ~ statements in branches (19fd338)
    ("py", ["@py:", "  a = 1", "   ", "", "\t", "  b = 2", "@endpy"], 0),
    ("cond", ["@if a:", "  @py:", "    a = 1", "  ", "    b = 2", "  @endpy", "@endif"], 0),
    ("cond", ["@if a:", "    ~ x = [", "      1,", "  2,", "", "    ]", "    after", "@endif"], 0),
    ("cond", ["  @if a:", "\t~ d = {", "\t  'k': (1,", "   2)}", "  @endif"], 0),
    ("cond", ["@if a:", "  ~ x = (", "  1"], 0),
    ("loop", ["@for i in xs:", "  @if a:", "      ~ x = [", "        1]", "  @endif", "  ~ y = (", "    2)", "@endfor"], 0),
    # comment / blank lines at the head of a loop body (623c615)
    ("loop", ["@for x in xs:", "# note", "", "    item", "  # later comment", "    more", "@endfor"], 0),
    ("loop", ["@for x in xs:", "  ", "#a", "   #b", "", "      deep", "  shallow", "@endfor"], 0),
    ("loop", ["@for x in xs:", "# only a comment", "@endfor"], 0),
    ("loop", ["@for x in xs:", "# c", "  @for y in ys:", "  # inner", "      t", "  @endfor", "@endfor"], 0),
    ("cond", ["@if a:", "x", "@else", "y", "@endif"], 0),
    ("cond", ["@if a:", "x", "@elsewhere:", "y", "@endif"], 0),
    ("cond", ["@if a:", "x", "@else: // c", "y<>", "<<endif>> tail"], 0),
    ("cond", ["@if a:", "x", "<<else>> tail", "y", "@endif:"], 0),
    ("cond", ["@if a:", "+ [c] -> T", "+ bad", "* {k} [d {x}] -> U(1) ^t", "text", "@endif"], 0),
    # nesting at the cap of F11b (100 levels allowed, the 101st rejected)
    ("cond", ["@if x:"] * 100 + ["t"] + ["@endif"] * 100, 0),
    ("cond", ["@if x:"] * 101 + ["t"] + ["@endif"] * 101, 0),
    ("loop", ["@for a in b:"] * 100 + ["t"] + ["@endfor"] * 100, 0),
    ("loop", ["@for a in b:"] * 101 + ["t"] + ["@endfor"] * 101, 0),
    ("cond", ["@if x:", "@for a in b:"] * 51 + ["t"] + ["@endfor", "@endif"] * 51, 0),
]


# ------------------------------------------------------------------------------------------------
# the check
# ------------------------------------------------------------------------------------------------
def opener_shape(case):
    """mechanism tag of a failing case, from its structure: which header shapes occur from the start line on"""
    tags = set()
    for ln in case["lines"][case["start"]:]:
        st = ln.strip()
        cut = st.split("//")[0] if "//" in st and "\\//" not in st and "//=" not in st else st
        for p, rx in (("<<if ", r"<<if\s+(.+?)>>"), ("<<elif ", r"<<elif\s+(.+?)>>")):
            if st.startswith(p) and not re.match(rx, cut):
                tags.add(p.strip("< ") + "-header-without-close")
    return "+".join(sorted(tags)) or "other"


def run(tier: str, seed: int) -> int:
    chk = C.Check("C11b", tier, seed, "proof")
    props = C.coq_gate(chk)
    C.use_repo()
    import bardic.compiler.parsing.blocks as blocks
    import bardic.compiler.parsing.core as core
    install(blocks)
    rng = chk.rng
    # which documented version of blocks.py is under test (see the header of Compiler/ParseBlocks.v);
    # `auto` reads it off the tree: each fix is recognisable by a name or a diagnostic it introduced
    variant = os.environ.get("BARDIC_C11B_VARIANT", "auto")
    if variant == "auto":
        import inspect
        has_a = "<<if statement missing >>" in inspect.getsource(blocks.extract_conditional_block)   # 2da11ec
        has_glue = hasattr(blocks, "_append_text_lines")                                            # b0767bb
        has_b = hasattr(blocks, "MAX_BLOCK_DEPTH")                                                  # 179a3c4
        has_lc = "del loop_raw_lines[first]" in inspect.getsource(blocks.extract_loop_block)        # 623c615
        has_pb = "if code_line.strip() else" in inspect.getsource(blocks._extract_py_new_syntax)    # 3dd8bdc
        has_ct = "continuation" in inspect.getsource(blocks.extract_conditional_block)              # 19fd338
    else:
        has_a, has_glue, has_b = {"fixed": (True, True, True), "a": (True, True, False),
                                  "current": (False, False, False)}[variant]
        has_lc = has_pb = has_ct = has_a
    marks = {"2da11ec": has_a, "b0767bb": has_glue, "623c615": has_lc, "3dd8bdc": has_pb, "19fd338": has_ct}
    if len(set(marks.values())) != 1:
        # the model's `fixed` flag stands for these fixes together
        chk.disagree("version", "blocks.py has some but not all of the fixes " + " / ".join(marks) +
                     ": no version of Compiler/ParseBlocks.v corresponds to this tree", marks)
    has_lc = all(marks.values())
    has_glue = has_glue and has_lc
    variant = {(True, True): "fixed", (True, False): "a", (False, False): "current"}.get((has_a and has_glue, has_b), "cap-only")
    vargs = f"{coq_bool(has_a and has_glue)} {'(Some max_block_depth)' if has_b else 'None'}"
    bad_fn, show_fn = f"(case_bad_v {vargs})", f"case_show_v {vargs}"
    n_blocks, n_join, n_mis, n_repo, maxdepth = (380, 90, 30, 260, 4) if tier == "quick" else (5000, 900, 200, 4000, 5)

    cases = [{"kind": k, "lines": ls, "start": st, "src": "corpus", "broken": True, "feats": ["corpus"], "gen_depth": None}
             for k, ls, st in CORPUS]
    cases += list(gen_block_cases(rng, n_blocks, maxdepth))
    cases += list(gen_join_cases(rng, n_join))
    cases += list(gen_misuse_cases(rng, n_mis))
    cases += list(gen_repo_cases(rng, core, n_repo, 0.6))

    dist = {"kind": {}, "source": {}, "outcome": {}, "depth": {}, "features": {}, "sites": {}, "lines": {}}

    def bump(d, k):
        d[str(k)] = d.get(str(k), 0) + 1

    terms, kept, skipped = [], [], 0
    with C.quiet():
        for case in cases:
            if not all(is_ascii(x) and "\n" not in x for x in case["lines"]):
                skipped += 1
                continue
            try:
                expect, cls, res = run_impl(blocks, case)
                term = case_term(case, expect)
            except Unsupported:
                skipped += 1
                continue
            terms.append(term)
            kept.append(case)
            case["outcome"] = cls
            misuse = case.get("misuse", False)
            # ---- direct oracle (model independent) ----
            replay = {"kind": case["kind"], "lines": case["lines"], "start": case["start"],
                      "indent": case.get("indent"), "source": case["src"], "observed": cls, "detail": res if cls != "value" else None}
            if not misuse:
                if cls not in ("value", "SyntaxError", "ValueError"):
                    chk.report(f"blocks.py:{cls}:{opener_shape(case)}",
                               f"extract_{case['kind']} escaped with {cls} (allowed: a value, SyntaxError, ValueError) "
                               f"on {case['lines'][case['start']:case['start'] + 3]!r}...", replay)
                if cls == "value":
                    n = res[1]
                    room = len(case["lines"]) - case["start"]
                    lo = 0 if case["kind"] == "join" else 1
                    hi = room + 1 if case["kind"] == "py" else room
                    if not (lo <= n <= hi):
                        chk.report(f"blocks.py:{case['kind']}:consumed-out-of-range",
                                   f"extract_{case['kind']} reported {n} consumed lines with {room} available", replay)
                    if case["kind"] in ("cond",) and not res[0]["branches"]:
                        chk.report("blocks.py:cond:no-branch", "a conditional without branches was returned", replay)
            # ---- evidence ----
            bump(dist["kind"], case["kind"])
            bump(dist["source"], case["src"].split(":")[0] + (":" + case["src"].split(":")[-1] if case["src"].startswith("repo") else ""))
            bump(dist["outcome"], f"{case['kind']}:{cls}")
            if cls == "SyntaxError":
                bump(dist["sites"], res)
            if cls == "value" and case["kind"] in ("cond", "loop"):
                bump(dist["depth"], tree_depth(res[0]))
            for f in case["feats"]:
                bump(dist["features"], f)
            bump(dist["lines"], min(60, 10 * (len(case["lines"]) // 10)))
            size = tree_size(res[0]) if cls == "value" and case["kind"] in ("cond", "loop") else 0
            chk.count((case["kind"], tuple(case["lines"]), case["start"], case.get("indent")),
                      cls != "value" or size >= 4 or case["kind"] in ("py", "join"))
            if case["src"] != "corpus" and len(case["lines"]) < 14:
                chk.sample({"kind": case["kind"], "lines": case["lines"], "start": case["start"], "outcome": cls})

    # ---- oracle only: nesting far beyond the interpreter's recursion limit (too large for a Coq term) ----
    with C.quiet():
        for op, cl, kind in (("@if x:", "@endif", "cond"), ("@for a in b:", "@endfor", "loop")):
            deep = {"kind": kind, "lines": [op] * 1500 + ["t"] + [cl] * 1500, "start": 0}
            _, cls, res = run_impl(blocks, deep)
            bump(dist["outcome"], f"{kind}:deep-nesting-1500:{cls}")
            chk.count((kind, "deep", 1500), True)
            if cls not in ("value", "SyntaxError", "ValueError"):
                chk.report(f"blocks.py:{cls}:nesting-beyond-recursion-limit",
                           f"extract_{kind} escaped with {cls} on 1500 nested '{op}' blocks",
                           {"kind": kind, "lines": f"['{op}'] * 1500 + ['t'] + ['{cl}'] * 1500", "start": 0, "observed": cls})

    bad, shown, log = C.run_coq_cases(chk.scratch, HEADER, terms, "ccase", bad_fn, shard=60, show_fn=show_fn, timeout=900)
    disagreements = 0
    for b in bad:
        disagreements += 1
        if isinstance(b, int):
            case = kept[b]
            chk.disagree(f"{case['kind']}", f"Compiler/ParseBlocks.v ({variant}) and blocks.py differ on an extract_{case['kind']} call",
                         {"case": {k: case[k] for k in ("kind", "lines", "start", "src") if k in case},
                          "indent": case.get("indent"), "implementation": case.get("outcome"), "term_expect": terms[b][-400:],
                          "model_says": shown.get(b)})
        else:
            chk.disagree("coqc", "case shard failed to evaluate", {"log": log[-3000:]})
    # ---- second pass (only with the final model version): part A's ParseLine.v functions instead of the tables ----
    real_bad = None
    if variant == "fixed" and os.path.exists(os.path.join(C.COQ, "Compiler", "ParseBlocksInst.vo")):
        hdr = HEADER[:-1] + " ParseLine ParseBlocksInst."
        rb, rshown, rlog = C.run_coq_cases(chk.scratch, hdr, terms, "ccase", "case_bad_real", shard=60,
                                           show_fn="case_show_real", timeout=900)
        real_bad = len(rb)
        for b_ in rb:
            disagreements += 1
            if isinstance(b_, int):
                case = kept[b_]
                chk.disagree("real-linefns", "ParseBlocks.v instantiated with ParseLine.v and blocks.py differ on an "
                             f"extract_{case['kind']} call (tables agree: look at ParseLine.v)",
                             {"case": {k: case[k] for k in ("kind", "lines", "start", "src") if k in case},
                              "indent": case.get("indent"), "implementation": case.get("outcome"), "model_says": rshown.get(b_)})
            else:
                chk.disagree("real-linefns-coqc", "case shard failed to evaluate", {"log": rlog[-3000:]})
    chk.notes["second_pass_with_ParseLine"] = "not run" if real_bad is None else f"{len(terms)} cases, {real_bad} mismatches"
    chk.cov["programs"] = len(terms)
    chk.cov["disagreements_checked"] = len(terms)
    chk.cov["disagreements_found"] = disagreements
    chk.cov["rule"] = ("one case = one direct call of an extractor of blocks.py; non-trivial = the call raised a diagnostic, or "
                       "returned a conditional/loop whose token tree has >= 4 nodes, or is a python/join block call; "
                       "distinct = by (extractor, lines, start index, indent)")
    chk.notes["input_distribution"] = dist
    chk.notes["skipped_unsupported"] = skipped
    chk.notes["model_variant"] = variant
    chk.assumptions = [
        "ASCII text without newline characters inside a line (lines come from text.split('\\n')); non-ASCII characters of "
        "repository files are replaced by '?' before use",
        "the interpreter's recursion limit is outside the model (generated nesting depth <= 4)",
        "line-level functions are the real ones, recorded per case; tags attached to content tokens are not compared "
        "(Story/Compiled.v tokens carry no tags)",
    ]
    return chk.finish(props, C.BASE_TRUST + ["modelled: bardic/compiler/parsing/blocks.py (all four extractors); "
                                              "line-level functions enter the model as per-case tables"],
                      "make -C /verif/coq && coqc -Q /verif/coq Bardic /verif/coq/Props/C11b.v")
