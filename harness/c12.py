"""C12 - every compiled story is well-formed JSON data and is navigation-safe.

Three parts (see coq/Props/C12.v for what is a theorem and what is not):
  (a) the structural validator, in Python, over every story the real compiler accepts from generated
      sources, mutated repository files and the repository's own files: JSON round trip identity, the
      initial passage exists and follows @start > Start > first, key = id, only documented token kinds,
      every choice/jump target at any depth is a defined passage (or @join for choices), and the
      argument shape of every call site binds to the target's parameters (checked with Python's own
      `ast`, independently of the compiler's validator);
  (b) navigation safety by play: every accepted generated story (harness/enginegen.py stories and the
      accepted line-sequence stories) is played with the real BardEngine along ALL choice sequences up
      to a depth bound (breadth capped per story) and along random deeper walks, looking for the
      engine's structural navigation errors: unknown passage, argument binding, malformed spec,
      unparsable arguments.  Failures of author code (a statement or an argument expression that
      raises) are not navigation errors and are only counted;
  (c) the model tie: for accepted inputs the compiled dict is compared, inside Coq, with the story
      Compiler/ParseMain.v + ParseBlocks.v produce for the same lines (the C12 theorems are about that
      model).

Signatures (from the structure of the case, never from message text beyond the engine's fixed
error-site prefixes):
  c12:json-roundtrip  c12:initial-missing  c12:initial-priority  c12:key-id  c12:token-kind
  c12:target-undefined[:nested]  c12:jump-to-@join[:nested]  c12:args-shape:<rule>
  c12:initial-requires-arguments
  c12:nav:unknown-passage:<jump-to-@join|other>  c12:nav:binding:<required-missing[:initial]|duplicate|default-eval>
  c12:nav:malformed-spec  c12:nav:args-syntax  c12:nav:engine-construction:<ExceptionName>
  (binding:default-eval: the default of a parameter that refers only to EARLIER parameters of the same passage and to
   literals - the documented `:: Calc(x, y=x*2)` - could not be evaluated because such an earlier parameter was not in
   scope; by then the engine has bound it, so this is the engine's binding, not author code)
"""
from __future__ import annotations

import ast
import copy
import json
import os
import random
import re

from . import common as C
from . import c11 as P
from . import story2coq as S
from . import enginegen as G

MAX_DEPTH_QUICK, MAX_DEPTH_THOROUGH = 4, 5
PLAY_ALARM_S = 5


# ------------------------------------------------------------------------------------------------
# (a) structural validator (independent of the compiler's own validator)
# ------------------------------------------------------------------------------------------------

def call_sites(st):
    """[(where, kind, nested, target, args)] for every choice and jump at any depth."""
    out = []

    def toks(ts, where, nested):
        if isinstance(ts, str):
            return
        for t in ts:
            if not isinstance(t, dict):
                continue
            ty = t.get("type")
            if ty == "jump":
                out.append((where, "jump", nested, t.get("target"), t.get("args", "") or ""))
            elif ty == "conditional":
                for b in t.get("branches", []):
                    toks(b.get("content", []), where, True)
                    chs(b.get("choices", []), where, True)
            elif ty == "for_loop":
                toks(t.get("content", []), where, True)
                chs(t.get("choices", []), where, True)
            elif ty == "inline_conditional":
                toks(t.get("truthy", []), where, True)
                toks(t.get("falsy", []), where, True)

    def chs(cs_, where, nested):
        for c in cs_:
            out.append((where, "choice", nested, c.get("target"), c.get("args", "") or ""))
            toks(c.get("block_content", []), where, True)

    for k, p in st.get("passages", {}).items():
        toks(p.get("content", []), k, False)
        chs(p.get("choices", []), k, False)
    return out


def args_shape_problem(args, params):
    """None when `args` binds to `params` by shape; else the rule it breaks."""
    if not params:
        return "arguments-to-parameterless" if args.strip() else None
    try:
        tree = ast.parse(f"_f({args})", mode="eval")
    except (SyntaxError, ValueError, RecursionError, MemoryError):
        return "unparsable"
    call = tree.body
    if not isinstance(call, ast.Call):
        return "not-an-argument-list"
    names = [p["name"] for p in params]
    npos = len(call.args)
    kws = [k.arg for k in call.keywords]
    if any(isinstance(a, ast.Starred) for a in call.args) or None in kws:
        return None                                  # *a / **k: shape not decidable statically
    if npos > len(params):
        return "too-many-positional"
    if any(k not in names for k in kws):
        return "unknown-keyword"
    given = set(names[:npos]) | set(kws)
    if any(k in names[:npos] for k in kws):
        return "positional-and-keyword"
    if any(p.get("default") is None and p["name"] not in given for p in params):
        return "required-missing"
    return None


def validate_structure(st, lines):
    """[(signature suffix, what)] - the C12 structural rules an accepted story violates."""
    bad = [(r, w) for r, w in P.c12_validate(st, lines) if not r.startswith("target-undefined")]
    ps = st.get("passages", {})
    init = st.get("initial_passage")
    if init in ps:
        req = [p["name"] for p in ps[init].get("params", []) or [] if p.get("default") is None]
        if req:
            bad.append(("initial-requires-arguments", f"the initial passage {init!r} has required parameter(s) {req}; the engine "
                        "enters it without arguments"))
    for where, kind, nested, target, args in call_sites(st):
        n = ":nested" if nested else ""
        if target == "@join":
            if kind == "jump":
                bad.append(("jump-to-@join" + n, f"{where}: a jump targets the reserved name @join, which is not a passage"))
            continue
        if target not in ps:
            bad.append(("target-undefined" + n, f"{where}: {kind} target {target!r} is not a passage"))
            continue
        rule = args_shape_problem(args, ps[target].get("params", []) or [])
        if rule:
            bad.append((f"args-shape:{rule}", f"{where}: {kind} -> {target}({args}) does not bind to "
                        f"{[p['name'] for p in ps[target].get('params', [])]}"))
    return bad


# ------------------------------------------------------------------------------------------------
# (b) navigation safety by play
# ------------------------------------------------------------------------------------------------

def has_join_jump(st):
    return any(kind == "jump" and target == "@join" for _, kind, _, target, _ in call_sites(st))


DEFAULT_EVAL_SITE = re.compile(r"Error calling passage '(.+?)': Could not evaluate default for parameter '(.+?)': ")
PURE_NODES = (ast.Expression, ast.BinOp, ast.UnaryOp, ast.BoolOp, ast.Compare, ast.IfExp, ast.Constant, ast.Name, ast.Tuple,
              ast.List, ast.Set, ast.Dict, ast.Subscript, ast.Slice, ast.operator, ast.unaryop, ast.boolop, ast.cmpop,
              ast.expr_context)


def earlier_parameters_only(params, name):
    """The names of the parameters before `name` when the default of `name` is built from those names and literals only
    (operators, displays, subscripts, conditional expressions; no calls, attributes, other names); else None."""
    names = [p["name"] for p in params]
    if name not in names:
        return None
    k = names.index(name)
    default = params[k].get("default")
    if default is None:
        return None
    try:
        tree = ast.parse(default.strip(), mode="eval")
    except (SyntaxError, ValueError, RecursionError, MemoryError):
        return None
    earlier = set(names[:k])
    for node in ast.walk(tree):
        if not isinstance(node, PURE_NODES):
            return None
        if isinstance(node, ast.Name) and node.id not in earlier:
            return None
    return earlier


def root_cause(e):
    seen = 0
    while (e.__cause__ or e.__context__) is not None and seen < 12:
        e = e.__cause__ or e.__context__
        seen += 1
    return e


def nav_signature(e, st, at_construction=False):
    """The C12 signature of an engine exception, or None when it is not a navigation error."""
    if not isinstance(e, ValueError):
        return None
    m = str(e)
    if m.startswith("Cannot navigate to unknown passage"):
        return "nav:unknown-passage:" + ("jump-to-@join" if "'@join'" in m and has_join_jump(st) else "other")
    if m.startswith("Error calling passage"):
        if "provided multiple times" in m:
            return "nav:binding:duplicate"
        if "Required parameter" in m:
            init = st.get("initial_passage")
            at_start = at_construction and any(p.get("default") is None for p in st["passages"].get(init, {}).get("params", []) or [])
            return "nav:binding:required-missing" + (":initial" if at_start else "")
        site = DEFAULT_EVAL_SITE.match(m)
        if site:
            # a default built from earlier parameters and literals only, failing because such a parameter is not in
            # scope: the engine did not bind what it had already bound (any other failure of a default is author code)
            params = st.get("passages", {}).get(site.group(1), {}).get("params", []) or []
            earlier = earlier_parameters_only(params, site.group(2))
            root = root_cause(e)
            if earlier and isinstance(root, NameError) and getattr(root, "name", None) in earlier:
                return "nav:binding:default-eval"
        return None                                  # a default expression failed: author code
    if m.startswith("Unclosed parenthesis in passage spec"):
        return "nav:malformed-spec"
    if m.startswith("Could not parse directive arguments"):
        return "nav:args-syntax" if isinstance(e.__cause__, SyntaxError) else None
    if m.startswith("Initial passage") or m.startswith("Story has no initial passage"):
        return "nav:initial"
    return None


class Player:
    def __init__(self, st, stats):
        from bardic.runtime.engine import BardEngine
        self.cls, self.st, self.stats = BardEngine, st, stats
        self.found = {}          # signature -> (path, message)

    def replay(self, path):
        """The engine after choosing along `path`, or None when a step failed (recorded)."""
        built = False
        try:
            with C.quiet(), C.alarm(PLAY_ALARM_S):
                eng = self.cls(copy.deepcopy(self.st))
                built = True
                self.stats["engine_steps"] += 1
                for k, i in enumerate(path):
                    eng.choose(i)
                    self.stats["engine_steps"] += 1
            return eng
        except C.Timeout:
            self.stats["timeouts"] += 1
            return None
        except Exception as e:  # noqa
            sig = nav_signature(e, self.st, at_construction=not built)
            if sig:
                self.found.setdefault(sig, (list(path), f"{type(e).__name__}: {e}"[:300]))
            else:
                k = "author-code:" + type(e).__name__
                self.stats["other_exceptions"][k] = self.stats["other_exceptions"].get(k, 0) + 1
            return None

    def n_choices(self, eng):
        try:
            with C.quiet():
                return len(eng.current().choices)
        except Exception:  # noqa
            return 0

    def exhaustive(self, depth, cap):
        frontier, visited = [()], 0
        for _ in range(depth + 1):
            nxt = []
            for path in frontier:
                if visited >= cap:
                    self.stats["capped_stories"] += 1
                    return visited
                eng = self.replay(path)
                visited += 1
                if eng is None:
                    continue
                for i in range(self.n_choices(eng)):
                    nxt.append(path + (i,))
            frontier = nxt
            if not frontier:
                break
        return visited

    def random_walks(self, rng, n, length):
        for _ in range(n):
            path = ()
            for _ in range(length):
                eng = self.replay(path)
                if eng is None:
                    break
                k = self.n_choices(eng)
                if not k:
                    break
                path = path + (rng.randrange(k),)


# ------------------------------------------------------------------------------------------------
# generator: passages whose defaults refer to earlier parameters, called in every accepted shape
# ------------------------------------------------------------------------------------------------

PARAM_NAMES = ["p", "q", "r", "s", "amount", "qty"]          # never the name of a global of the story
DEFAULT_TEMPLATES = ["{a} * 2", "{a} + 1", "{a}+{b}", "[{a}, {b}]", "({a}, 1)", "{a} if {a} > 2 else 0", "-{a}", "{a} > 1",
                     "{{'k': {a}}}", "{b} - {a}", "[{a}][0]", "{a}", "not {a}"]
LITERAL_DEFAULTS = ["5", "0", "[1, 2]", "'s'", "None", "(2, 3)"]


def gen_signature(rng, name):
    """(name, [(param, default|None)]): some required parameters, then optional ones whose defaults mostly refer to
    earlier parameters (one earlier, the previous one = a chain, or two earlier ones)."""
    n = rng.randint(1, 4)
    req = rng.randint(0, n - 1) if rng.random() < 0.85 else n
    names = rng.sample(PARAM_NAMES, n)
    params = []
    for k, a in enumerate(names):
        if k < req:
            params.append((a, None))
        elif k == 0 or rng.random() < 0.2:
            params.append((a, rng.choice(LITERAL_DEFAULTS)))
        else:
            prev = names[k - 1] if rng.random() < 0.6 else rng.choice(names[:k])       # chained more often than not
            other = rng.choice(names[:k])
            params.append((a, rng.choice(DEFAULT_TEMPLATES).format(a=prev, b=other)))
    return name, params


def gen_call(rng, sig, exprs):
    """An argument text the target accepts: k positional arguments, the remaining required parameters and a drawn subset
    of the optional ones by keyword (in any order)."""
    name, params = sig
    n = len(params)
    req = sum(1 for _, d in params if d is None)
    k = rng.choice([0, req, req, rng.randint(0, n), n])
    k = min(k, n)
    pos = [rng.choice(exprs) for _ in range(k)]
    kws = []
    for a, d in params[k:]:
        if d is None or rng.random() < 0.3:
            kws.append(f"{a}={rng.choice(exprs)}")
    rng.shuffle(kws)
    args = ", ".join(pos + kws)
    how = ("no-arguments" if not args else "positional" if not kws else "keyword" if not pos else "mixed") + \
        ("+defaults-used" if k + len(kws) < n else "")
    if args and rng.random() < 0.06:
        # a blank between the name and the argument list: the compiler may refuse it, but must not accept it half-way
        return f"{name} ({args})", how + "+blank-before-paren"
    return (name + (f"({args})" if args or rng.random() < 0.5 else "")), how


SITES = ["choice", "choice", "conditional-choice", "choice-in-if", "choice-in-for", "jump", "jump-in-if", "jump-in-for",
         "choice-in-join-section", "choice-from-parameterised-passage", "jump-from-parameterised-passage"]


def gen_default_chain_story(rng, stats):
    sigs = [gen_signature(rng, nm) for nm in rng.sample(["Calc", "Chain", "Shop", "Mix", "Deep"], rng.randint(2, 4))]
    ints = ["1", "3", "7", "base", "base + 1", "2 * 3"]
    out = [":: Start", "~ base = 3", "The hub."]
    hubs = []
    n_sites = rng.randint(4, 8)
    for k in range(n_sites):
        site = rng.choice(SITES)
        sig = rng.choice(sigs)
        call, how = gen_call(rng, sig, ints)
        stats["sites"][site] = stats["sites"].get(site, 0) + 1
        stats["call_forms"][how] = stats["call_forms"].get(how, 0) + 1
        for a, d in sig[1]:
            if d is not None and any(x in d for x, _ in sig[1] if x != a):
                stats["defaults_referring_to_earlier_parameters"] += 1
        if site == "choice":
            out.append(f"+ [Call {k}] -> {call}")
        elif site == "conditional-choice":
            out.append(f"* {{base > 1}} [Call {k}] -> {call}")
        elif site == "choice-in-if":
            out += ["@if base:", f"    + [Call {k}] -> {call}", "@endif"]
        elif site == "choice-in-for":
            out += ["@for i in [1]:", f"+ [Call {k} {{i}}] -> {call}", "@endfor"]
        else:
            hub = f"Hub{k}"
            out.append(f"+ [Via {hub}] -> {hub}")
            if site == "jump":
                hubs.append([f":: {hub}", "Passing through.", f"-> {call}"])
            elif site == "jump-in-if":
                hubs.append([f":: {hub}", "@if base > 1:", f"-> {call}", "@else:", "-> Start", "@endif"])
            elif site == "jump-in-for":
                hubs.append([f":: {hub}", "@for i in [1, 2]:", f"  -> {call}", "@endfor"])
            elif site == "choice-in-join-section":
                hubs.append([f":: {hub}", "+ [Wait] -> @join", "    Waiting.", f"+ [Call] -> {call}", "@join", "Joined.",
                             f"+ [Again] -> {call}", "+ [Back] -> Start"])
            else:
                # the caller has parameters of its own and passes them on (arguments evaluated in its local scope)
                csig = gen_signature(rng, hub)
                locs = [a for a, _ in csig[1]] + ["1"]
                call2, how2 = gen_call(rng, sig, locs)
                stats["call_forms"][how2 + ":from-parameters"] = stats["call_forms"].get(how2 + ":from-parameters", 0) + 1
                ccall, _ = gen_call(rng, csig, ints)
                out[-1] = f"+ [Via {hub}] -> {ccall}"
                hdr = ":: " + hub + "(" + ", ".join(a if d is None else f"{a}={d}" for a, d in csig[1]) + ")"
                if site.startswith("choice"):
                    hubs.append([hdr, "Here.", f"+ [On] -> {call2}", "+ [Back] -> Start"])
                else:
                    hubs.append([hdr, "Here.", f"-> {call2}"])
    for h in hubs:
        out += [""] + h
    for name, params in sigs:
        out += ["", ":: " + name + "(" + ", ".join(a if d is None else f"{a}={d}" for a, d in params) + ")",
                "In " + name + ": " + " ".join("{" + a + "}" for a, _ in params), "+ [Back] -> Start"]
    return out


# ------------------------------------------------------------------------------------------------
# pinned probes (shapes expected to break C12; re-run on every check)
# ------------------------------------------------------------------------------------------------

PINNED = [
    ("jump-to-@join", ":: Start\nhi\n-> @join"),
    ("initial-requires-arguments", ":: Start(x)\nhi"),
    ("jump-to-@join-nested", ":: Start\n@if True:\n-> @join\n@endif"),
    ("input-type-attribute-in-block", ":: Start\n@if True:\n@input type=\"x\" name=\"n\"\n@endif"),
    ("call-body-not-a-call", ":: A\n-> T(\"(\") + (\")\")\n:: T(x)\nhi"),
    ("nested-dangling-target", ":: Start\n@for i in [1]:\n  @if i:\n    -> Nowhere\n  @endif\n@endfor"),
    ("nested-bad-arity", ":: Start\n@if True:\n+ [go] -> T(1, 2, 3)\n@endif\n:: T(x)\nhi"),
    ("default-refers-to-earlier-parameter", ":: Start\n+ [Pos] -> Calc(3)\n+ [Kw] -> Calc(x=3)\n+ [Chain] -> Chain(1)\n"
     "+ [Own default] -> All\n+ [Jump] -> Hub\n:: Hub\n-> Calc(4)\n:: Calc(x, y=x*2)\n{x} {y}\n:: Chain(a, b=a+1, c=b*2)\n"
     "{a} {b} {c}\n:: All(u=1, v=u+1)\n{u} {v}"),
]


# ------------------------------------------------------------------------------------------------
# run
# ------------------------------------------------------------------------------------------------

def run(tier: str, seed: int) -> int:
    chk = C.Check("C12", tier, seed, "proof")
    props = C.coq_gate(chk)
    C.use_repo()
    rng = chk.rng
    quick = tier == "quick"
    n_lines, n_engine, n_mut_per_file, depth, cap, n_walks, walk_len = \
        (450, 90, 3, MAX_DEPTH_QUICK, 60, 4, 12) if quick else (2500, 300, 12, MAX_DEPTH_THOROUGH, 150, 10, 30)
    n_defaults, matrix_share = (80, 0.2) if quick else (400, 0.5)
    dist = {"families": {}, "outcomes": {}, "accepted": {}, "call_sites": {"choice": 0, "jump": 0, "nested": 0, "with-args": 0,
                                                                           "to-@join": 0},
            "play": {"stories": 0, "paths": 0, "engine_steps": 0, "timeouts": 0, "capped_stories": 0, "other_exceptions": {}}}

    inputs = [("pinned:" + n, t.split("\n")) for n, t in PINNED]
    dstats = {"stories": n_defaults, "sites": {}, "call_forms": {}, "defaults_referring_to_earlier_parameters": 0}
    for _ in range(n_defaults):
        inputs.append(("generated-default-chains", gen_default_chain_story(rng, dstats)))
    # the call-shape matrix of C11 (parameters x argument shapes x call sites): what the compiler accepts of it must
    # bind at play time
    for fam, ls, _cmp in P.call_matrix(rng, quick):
        if rng.random() < matrix_share:
            inputs.append(("call-shape-matrix", ls))
    # @metadata values are text: whatever is written there, the compiled story stays plain (strict) JSON data
    for _ in range(6 if quick else 40):
        vals = [rng.choice(["Infinity", "-inf", "nan", "NaN", "1e999", "3", "2.50", "true", "null", "[1, 2]", "A: B", "\"q\"", "0x10", "1_000"])
                for _ in range(rng.randint(1, 4))]
        inputs.append(("metadata-values", ["@metadata"] + [f"  k{j}: {v}" for j, v in enumerate(vals)] +
                       [":: Start", "Text", "+ [Go] -> Start"]))
    for _ in range(n_lines):
        inputs.append(("generated-lines", P.gen_story_lines(rng, blocks=True)))
    prof = G.Profile(faults=0.0)
    for _ in range(n_engine):
        inputs.append(("generated-playable", G.Gen(rng, prof).source().split("\n")))
    for path in P.repo_bard_files():
        text = P.read_ascii(path)
        if text is None:
            continue
        inputs.append(("repo-file", text.split("\n")))
        for _ in range(n_mut_per_file):
            ls, _ms = P.mutate(rng, P.to_ascii(text).split("\n"))
            inputs.append(("repo-mutation", ls))

    pterms, pmeta = [], []
    n_valid = 0
    import time
    secs = {}
    t_prev, fam_prev = time.time(), None
    for fam, ls in inputs:
        now = time.time()
        if fam_prev is not None:
            secs[fam_prev] = secs.get(fam_prev, 0.0) + now - t_prev
        t_prev, fam_prev = now, fam.split(":")[0]
        text = "\n".join(ls)
        ls = text.split("\n")
        oc, pr = P.compile_real(text)
        dist["families"][fam] = dist["families"].get(fam, 0) + 1
        cls = oc[0] if oc[0] != "other" else "other:" + oc[1]
        dist["outcomes"][cls] = dist["outcomes"].get(cls, 0) + 1
        chk.count(("s", text), oc[0] == "val")
        if oc[0] != "val":
            continue                                  # rejected inputs are C11's subject
        st = oc[1]
        dist["accepted"][fam] = dist["accepted"].get(fam, 0) + 1
        replay = {"kind": "story", "family": fam, "source": text if len(text) < 4000 else text[:2000] + " ..."}
        # ---- (a) ----
        n_valid += 1
        for site in call_sites(st):
            dist["call_sites"][site[1]] += 1
            dist["call_sites"]["nested"] += site[2]
            dist["call_sites"]["with-args"] += bool(site[4])
            dist["call_sites"]["to-@join"] += site[3] == "@join"
        seen = set()
        for rule, what in validate_structure(st, ls):
            if rule not in seen:
                seen.add(rule)
                chk.report(f"c12:{rule}", what, replay)
        # ---- (b) ----
        if fam in ("generated-playable", "generated-lines", "generated-default-chains", "call-shape-matrix") or \
                fam.startswith("pinned:") or fam == "repo-file":
            pl = Player(st, dist["play"])
            dist["play"]["stories"] += 1
            dist["play"]["paths"] += pl.exhaustive(depth if fam != "repo-file" else min(depth, 3), cap)
            if fam not in ("generated-default-chains", "call-shape-matrix"):
                # (every call site of these two families lies within the exhaustive depth: hub -> caller -> target)
                pl.random_walks(rng, n_walks, walk_len)
            for sig, (path, msg) in pl.found.items():
                chk.report(f"c12:{sig}", f"playing the compiled story along choices {path}: {msg}", dict(replay, path=path, error=msg))
        if len(chk.cov["samples"]) < 3 and fam == "generated-playable":
            chk.sample({"kind": fam, "source": text[:500], "passages": list(st["passages"])})
        # ---- (c) ----
        if pr.used - P.ALLOWED_CONSTRUCTS or not C.is_ascii(text) or max(len(l) for l in ls) > P.MAX_MODEL_LINE:
            continue
        if fam == "call-shape-matrix":
            continue                                  # compared with the model by C11 (same generator)
        try:
            pterms.append(P.pcase_term(ls, pr, oc))
            pmeta.append({"family": fam, "source": text})
        except S.Unsupported:
            pass
    header = P.HEADER + (P.LINK_HEADER if P.LINK_BLOCKS else "")
    bad_fn, show_fn = ("pcase_bad_l", "pcase_show_l") if P.LINK_BLOCKS else ("pcase_bad", "pcase_show")
    bad, shown, log = C.run_coq_cases(chk.scratch, header, pterms, "pcase", bad_fn, show_fn=show_fn, shard=100)
    n_dis = 0
    for b in bad:
        n_dis += 1
        if isinstance(b, int):
            d = dict(pmeta[b])
            d["model_says"] = shown.get(b)
            chk.disagree("story", "the compiled story differs from the story of the parser model (the C12 theorems are "
                         f"about the model) on a {d['family']} input", d)
        else:
            chk.disagree("story-coqc", "a case shard failed to evaluate", {"log": log[-3000:]})
    # ---- the compiled dict as JSON data / JSON text: the real dict against Story/StoryJson.v (exact writer, strict reader,
    # distinct keys, engine view = the story2coq term, file text read back), evaluated inside Coq ----
    from . import storyjson_tie
    chk.notes["story_json"] = storyjson_tie.phase(chk, random.Random(rng.randrange(10 ** 9)), 15 if tier == "quick" else 150,
                                                  repo_files=True)
    chk.cov["programs"] = n_valid
    chk.cov["disagreements_checked"] = len(pterms)
    chk.cov["disagreements_found"] = n_dis
    chk.cov["rule"] = ("one case = one source text; non-trivial = the real compiler accepted it (only accepted stories are "
                       "subject to C12); distinct = by source text")
    dist["seconds_by_family_compile_validate_play"] = {k: round(v, 1) for k, v in secs.items()}
    dist["default_chains"] = dict(dstats, family=(
        "passages with 1-4 parameters whose defaults refer to earlier parameters (the previous one = chains, any earlier "
        "one, two of them; arithmetic, displays, conditional expressions) or are literals, called with k positional "
        "arguments, by keyword, mixed, relying on defaults, from choices (plain, conditional, in @if/@for), jumps (plain, in "
        "@if/@for), choices beside a join choice and after @join, and from passages that pass their own parameters on"))
    chk.notes["input_distribution"] = dist
    chk.notes["play_bounds"] = {"exhaustive_depth": depth, "paths_per_story_cap": cap, "random_walks": n_walks,
                                "walk_length": walk_len}
    chk.assumptions = [
        "argument VALUES are author code: an argument or default expression that raises at run time is not a C12 violation; "
        "shapes (count, names, required) are - and so is a default built from earlier parameters and literals only that "
        "fails with a NameError for such a parameter (the engine has bound it by then)",
        "call sites with *args / **kwargs are not shape-checked statically",
        "model tie restricted to ASCII sources; play restricted to generated stories and the repository's own files",
    ]
    return chk.finish(props, C.BASE_TRUST + [
        "modelled: bardic/compiler/parsing/* (parser model of C11) and runtime/engine.py goto chain (Engine/Engine.v)",
        "the structural validator and the play driver of harness/c12.py (model independent)"],
        "make -C /verif/coq && coqc -Q /verif/coq Bardic /verif/coq/Props/C12.v")
