"""C13 — @include is textual substitution with exact line provenance; cycles are rejected.

(a) correspondence: generated include graphs on disk -> real resolve_includes -> compared inside Coq with
    Compiler/Include.v (resolve_includes over the same finite file system, rel = rel_posix); plus two small
    streams for the string-level pieces (directive classification, path resolution);
(b) direct oracles on the implementation, independent of the model: an independent textual substitution,
    provenance of every output line, expected outcome computed on the generator's abstract graph
    (cycle -> ValueError, missing -> FileNotFoundError, malformed -> SyntaxError, diamond -> accepted);
(c) the entry-point clause: compile_file vs compile_string of the substituted text, and
    `bardic compile` / `bardic play` / `bardic bundle` through click's CliRunner on the same entry file;
(d) provenance as the author sees it: a diagnosable construct (the table of harness/c14.py) is put on the first line
    of every file, right after every @include line, on a drawn inner line and at the end of every file of an include
    graph - in particular graphs whose entry file BEGINS with an @include, nested 1-3 levels, every included file
    beginning with an @include too, so that line 0 of the combined text comes from the innermost file - and the file
    and line NAMED by the diagnostic of compile_file / `bardic compile` / `bardic play` / `bardic bundle` are compared
    with where the construct was put.  Only diagnostics that carry a location are judged (which constructs carry one
    is C14's subject); signatures: diagnostic-provenance:<wrong-file|wrong-line>:<position class>:<entry point>,
    entry-point-<cmd>-diagnostic-differs.
"""
from __future__ import annotations

import json
import os
import posixpath
import random
import re
import shutil
import tempfile

from . import common as C
from .common import coq_str, coq_nat, coq_list, coq_opt

HEADER = ("From Coq Require Import String Ascii List.\n"
          "From Bardic Require Import PyStr.\nFrom Bardic Require Import Include IncludeCheck.")

DIRS = ["", "", "d1", "d2", "d1/e", "d2/deep/er"]
SHAPES = ["single", "tree", "tree", "diamond", "diamond", "dag", "cycle", "cycle", "self", "missing",
          "malformed", "mixed", "mixed"]
PLAY_SIG = "entry-point-play-ignores-include"


# ------------------------------------------------------------------------------------------------
# generator: an abstract include graph, then its files
# ------------------------------------------------------------------------------------------------
# file = {"path": "w/d1/f2.bard", "kind": "passages"|"fragment", "items": [...], "nl": bool}
# item = ("line", text) | ("inc", target_fid, directive_text) | ("missing", directive_text)
#        | ("bad", directive_text) | ("choice", label, target_fid)

def spell(rng, from_path, to_path):
    """A relative spelling of to_path as seen from the directory of from_path (both relative to the root)."""
    d = posixpath.dirname(from_path)
    rel = posixpath.relpath(to_path, d or ".")
    k = rng.random()
    if k < 0.45:
        return rel
    if k < 0.6:
        return "./" + rel
    if k < 0.75 and d:
        return "../" + posixpath.basename(d) + "/" + rel          # up and down again
    if k < 0.85:
        return "ghost/../" + rel                                   # through a directory that does not exist
    if k < 0.92 and "/" in rel:
        return rel.replace("/", "//", 1)
    if k < 0.96:
        return "././" + rel
    return rel


def directive(rng, arg):
    k = rng.random()
    if k < 0.5:
        return "@include " + arg
    if k < 0.65:
        return "  @include " + arg
    if k < 0.75:
        return "\t@include " + arg + "  "
    if k < 0.85:
        return "@include    " + arg
    if k < 0.92:
        return "    @include\t" + arg + "\t"
    return "@include" + arg                                        # `strip()[8:]`: no blank needed


TEXTS = ["The road bends here.", "You hear water.", "", "   An indented remark.", "See the @include manual.",
         "Nothing else happens.", "", "A door, half open.",
         # characters that str.splitlines() treats as line boundaries but that are ordinary characters of a .bard line
         # (lines end at "\n" only): a form feed / vertical tab / file separator pasted into the prose
         "Page\x0cbreak inside a line.", "Tab\x0bstop and sep\x1carator."]


def gen_graph(rng, max_files):
    shape = rng.choice(SHAPES)
    lo = {"single": 1, "tree": 2, "diamond": 3, "dag": 3, "cycle": 2, "self": 1, "missing": 1,
          "malformed": 1, "mixed": 2}[shape]
    n = rng.randint(lo, max(lo, max_files))
    if shape == "single":
        n = 1
    wild = rng.random() < 0.2          # includes anywhere, kinds ignored (text need not be a valid story)
    files = []
    for i in range(n):
        d = rng.choice(DIRS)
        name = "main.bard" if i == 0 else f"f{i}.bard"
        if i > 0 and rng.random() < 0.2 and posixpath.join("w", d, "main.bard") not in [x["path"] for x in files]:
            name = "main.bard"        # an included file with the entry file's base name, in another directory
        kind = "passages" if i == 0 or rng.random() < 0.55 else "fragment"
        files.append({"path": posixpath.join("w", d, name), "kind": kind, "nl": rng.random() < 0.7,
                      "children": [], "extra": []})
    if shape == "diamond" and rng.random() < 0.7:
        files[-1]["kind"] = "fragment"

    def compat(parent, child):
        return wild or files[parent]["kind"] == "passages" or files[child]["kind"] == "fragment"

    parent_of = {}
    for i in range(1, n):
        cands = [j for j in range(i) if compat(j, i)]
        p = rng.choice(cands)
        parent_of[i] = p
        files[p]["children"].append(i)

    def ancestors(x):
        out = []
        while x in parent_of:
            x = parent_of[x]
            out.append(x)
        return out

    tags = set()
    if shape in ("diamond", "dag", "mixed") and n >= 3:
        rounds = 1 if shape == "diamond" else rng.randint(1, 3)
        for _ in range(rounds):
            c = n - 1 if shape == "diamond" else rng.randrange(2, n)
            cands = [j for j in range(c) if compat(j, c) and c not in files[j]["children"]]
            if cands:
                files[rng.choice(cands)]["children"].append(c)
                tags.add("diamond")
            elif shape == "diamond":
                files[parent_of[c]]["children"].append(c)       # the same file twice from one parent
                tags.add("diamond")
    if shape == "cycle" or (shape == "mixed" and rng.random() < 0.3):
        x = rng.randrange(1, n)
        y = rng.choice(ancestors(x))
        files[x]["extra"].append(("inc", y))
        tags.add("cycle")
    if shape == "self" or (shape == "mixed" and rng.random() < 0.15):
        x = rng.randrange(n)
        files[x]["extra"].append(("inc", x))
        tags.add("self")
    if shape == "missing" or (shape == "mixed" and rng.random() < 0.3):
        x = rng.randrange(n)
        files[x]["extra"].append(("missing", rng.choice(["nope.bard", "../nope.bard", "d1/ghost.bard",
                                                           "./gone/away.bard", "f99.bard"])))
        tags.add("missing")
    if shape == "malformed" or (shape == "mixed" and rng.random() < 0.25):
        x = rng.randrange(n)
        files[x]["extra"].append(("bad", rng.choice(["@include", "  @include   ", "@include a.bard b.bard",
                                                       "@includes f1.bard", "\t@include\t", "@include x y z"])))
        tags.add("malformed")

    # reachable passage files (for choice targets)
    reach, todo = set(), [0]
    while todo:
        x = todo.pop()
        if x in reach:
            continue
        reach.add(x)
        todo.extend(files[x]["children"])
        todo.extend(t for k, t in files[x]["extra"] if k == "inc")
    targets = [f for f in sorted(reach) if files[f]["kind"] == "passages"]

    for i, f in enumerate(files):
        items = []
        kids = list(f["children"])
        rng.shuffle(kids)
        frag_kids = [k for k in kids if files[k]["kind"] == "fragment"]
        pass_kids = [k for k in kids if files[k]["kind"] == "passages"]

        def inc(k):
            return ("inc", k, directive(rng, spell(rng, f["path"], files[k]["path"])))

        if f["kind"] == "passages":
            top = [k for k in pass_kids if rng.random() < 0.6]
            bottom = [k for k in pass_kids if k not in top]
            items += [inc(k) for k in top]
            if top and rng.random() < 0.5:
                items.append(("line", ""))
            items.append(("line", ":: Start" if i == 0 else f":: P{i}"))
            body = [("line", rng.choice(TEXTS)) for _ in range(rng.randint(1, 3))] + [inc(k) for k in frag_kids]
            rng.shuffle(body)
            items += body
            items.append(("line", ""))
            for _ in range(rng.randint(0, 2)):
                items.append(("choice", rng.choice(["Go on", "Look", "Wait"]), rng.choice(targets)))
            if rng.random() < 0.3:
                items += [("line", ""), ("line", f":: P{i}b"), ("line", rng.choice(TEXTS) or "More."),
                          ("choice", "Back", rng.choice(targets))]
            items += [inc(k) for k in bottom]
        else:
            if not kids and not f["extra"] and rng.random() < 0.3:
                items = []                                  # an empty file
                f["nl"] = rng.random() < 0.3
            else:
                body = [("line", rng.choice(TEXTS)) for _ in range(rng.randint(0, 3))] + [inc(k) for k in kids]
                rng.shuffle(body)
                items = body
        for ex in f["extra"]:
            if ex[0] == "inc":
                it = inc(ex[1])
            elif ex[0] == "missing":
                it = ("missing", directive(rng, ex[1]))
            else:
                it = ("bad", ex[1])
            items.insert(rng.randint(0, len(items)), it)
        if wild:
            rng.shuffle(items)
        f["items"] = items
    return {"shape": shape, "tags": sorted(tags), "wild": wild, "files": files}


def file_lines(g, f):
    out = []
    for it in f["items"]:
        if it[0] == "line":
            out.append(it[1])
        elif it[0] == "inc":
            out.append(it[2])
        elif it[0] in ("missing", "bad"):
            out.append(it[1])
        else:
            tgt = "Start" if it[2] == 0 else f"P{it[2]}"
            out.append(f"+ [{it[1]}] -> {tgt}")
    return out


def file_text(g, f):
    return "\n".join(file_lines(g, f)) + ("\n" if f["nl"] else "")


def write_graph(g, root):
    for f in g["files"]:
        p = os.path.join(root, f["path"])
        os.makedirs(os.path.dirname(p), exist_ok=True)
        with open(p, "w", encoding="utf-8", newline="") as fh:
            fh.write(file_text(g, f))


def expected_kind(g):
    """First event in traversal order on the abstract graph (never looks at file text)."""
    depth = [0]

    def go(fid, stack):
        if fid in stack:
            return "cycle"
        depth[0] = max(depth[0], len(stack))
        for it in g["files"][fid]["items"]:
            if it[0] == "bad":
                return "bad"
            if it[0] == "missing":
                return "missing"
            if it[0] == "inc":
                r = go(it[1], stack + [fid])
                if r != "ok":
                    return r
        return "ok"

    return go(0, []), depth[0]


# ------------------------------------------------------------------------------------------------
# the implementation
# ------------------------------------------------------------------------------------------------

def model_path(root, p):
    p = str(p)
    if p == root:
        return "/"
    return p[len(root):] if p.startswith(root + "/") else p


def run_resolve(root, entry_abs):
    """parse_file's first half on the real code.  Returns a tuple describing what happened."""
    from bardic.compiler.parsing.preprocessing import resolve_includes
    try:
        with open(entry_abs, "r", encoding="utf-8") as fh:
            source = fh.read()
        with C.alarm(20):
            text, lm = resolve_includes(source, entry_abs)
        return ("ok", text, [(loc.file_path, loc.line_num) for loc in lm])
    except ValueError as e:
        m = re.match(r"Circular include detected: (.*)\Z", str(e), re.S)
        return ("cycle", model_path(root, m.group(1)) if m else None)
    except FileNotFoundError as e:
        m = re.search(r"Looking for: (.*)\n", str(e))
        return ("missing", model_path(root, m.group(1)) if m else None)
    except SyntaxError as e:
        s = str(e)
        return ("bad", "MissingPath" if "missing file path" in s else
                "MultipleFiles" if "one file at a time" in s else None)
    except C.Timeout:
        return ("other", "Timeout")
    except BaseException as e:  # noqa
        if isinstance(e, KeyboardInterrupt):
            raise
        return ("other", type(e).__name__)


def independent_subst(path, depth=0):
    """The oracle: plain textual substitution, written without looking at the implementation's data flow."""
    if depth > 60:
        raise RecursionError("include depth")
    out = []
    with open(path, "r", encoding="utf-8") as fh:
        for line in fh.read().split("\n"):
            s = line.strip()
            if s.startswith("@include"):
                target = os.path.normpath(os.path.join(os.path.dirname(path), s[len("@include"):].strip()))
                out.extend(independent_subst(target, depth + 1))
            else:
                out.append(line)
    return out


def expect_term(root, res):
    k = res[0]
    if k == "ok":
        lines = res[1].split("\n")
        lm = coq_list("(%s, %s)" % (coq_str(model_path(root, f)), coq_nat(n)) for f, n in res[2])
        return "(EOk %s %s)" % (coq_list(coq_str(x) for x in lines), lm)
    if k == "cycle":
        return "(ECycle %s)" % coq_opt(res[1], coq_str)
    if k == "missing":
        return "(EMissing %s)" % coq_opt(res[1], coq_str)
    if k == "bad":
        return "(EBad %s)" % coq_opt(res[1], lambda x: x)
    return "EOther"


def case_term(root, g, res):
    fs = coq_list("(%s, %s)" % (coq_str("/" + f["path"]), coq_list(coq_str(x) for x in file_text(g, f).split("\n")))
                  for f in g["files"])
    return "(%s, %s, %s)" % (fs, coq_str("/" + g["files"][0]["path"]), expect_term(root, res))


def replay_of(g, sub_seed, res=None):
    r = {"sub_seed": sub_seed, "shape": g["shape"], "tags": g["tags"], "entry": g["files"][0]["path"],
         "files": {f["path"]: file_text(g, f) for f in g["files"]}}
    if res is not None:
        r["implementation"] = res if res[0] != "ok" else ("ok", res[1], [(f, n) for f, n in res[2]])
    return r


# ------------------------------------------------------------------------------------------------
# (b) direct oracles
# ------------------------------------------------------------------------------------------------

def oracles(chk, root, g, res, exp, sub_seed):
    entry_abs = os.path.join(root, g["files"][0]["path"])
    tagstr = "+".join(g["tags"]) or "plain"

    def fail(sig, what):
        rp = replay_of(g, sub_seed, res)
        rp["root_relative"] = True
        chk.report(sig, what, rp)

    got = res[0]
    if got != exp:
        fail(f"outcome-expected-{exp}-got-{got}[{tagstr}]",
             f"include graph ({g['shape']}, {tagstr}) should give {exp} but resolve_includes gave {got}"
             + (f" ({res[1]})" if got == "other" else ""))
    if got != "ok":
        return
    text, lm = res[1], res[2]
    lines = text.split("\n")
    # substitution
    try:
        want = independent_subst(entry_abs)
    except (RecursionError, OSError) as e:
        want = None
        if exp == "ok":
            fail("substitution-oracle-failed", f"independent substitution raised {type(e).__name__}")
    if want is not None and want != lines:
        fail(f"substitution-differs[{tagstr}]",
             f"resolved text differs from the plain substitution: {len(lines)} vs {len(want)} lines")
    # provenance
    if len(lm) != len(lines):
        fail(f"line-map-length[{tagstr}]", f"line_map has {len(lm)} entries for {len(lines)} lines")
    cache = {}
    for i, (fp, ln) in enumerate(lm[:len(lines)]):
        if fp not in cache:
            try:
                with open(fp, "r", encoding="utf-8") as fh:
                    cache[fp] = fh.read().split("\n")
            except OSError:
                cache[fp] = None
        src = cache[fp]
        if src is None or not (0 <= ln < len(src)) or src[ln] != lines[i]:
            at_boundary = any(lm[j][0] != fp for j in (i - 1, i + 1) if 0 <= j < len(lm))
            fail("provenance-wrong-line" + ("-at-file-boundary" if at_boundary else ""),
                 f"combined line {i} ({lines[i]!r}) is attributed to {model_path(root, fp)}:{ln}, which is "
                 + (repr(src[ln]) if src is not None and 0 <= ln < len(src) else "out of range"))
            break
        if src[ln].strip().startswith("@include"):
            fail("provenance-names-directive", f"combined line {i} is attributed to a directive line")
            break


# ------------------------------------------------------------------------------------------------
# (c) entry points
# ------------------------------------------------------------------------------------------------

class _CopySkipper:
    """While active, shutil.copy/copytree skip the 17 MB pyodide runtime (not part of what is compared)."""

    def __enter__(self):
        self.copy, self.copytree = shutil.copy, shutil.copytree

        def copy(src, dst, *a, **k):
            if "pyodide" in str(src):
                return str(dst)
            return self.copy(src, dst, *a, **k)

        def copytree(src, dst, *a, **k):
            if "pyodide" in str(src):
                return str(dst)
            return self.copytree(src, dst, *a, **k)

        shutil.copy, shutil.copytree = copy, copytree
        return self

    def __exit__(self, *exc):
        shutil.copy, shutil.copytree = self.copy, self.copytree


def norm_json(d):
    return json.loads(json.dumps(d))


def entry_points(chk, root, g, res, sub_seed, stats, play_known):
    from click.testing import CliRunner
    import bardic.cli.main as M
    from bardic.compiler.compiler import BardCompiler

    entry_abs = os.path.join(root, g["files"][0]["path"])
    out = os.path.join(root, "out")
    os.makedirs(out, exist_ok=True)
    n_inc = sum(1 for f in g["files"] for it in f["items"] if it[0] in ("inc", "missing", "bad"))
    entry_has_directive = any(it[0] in ("inc", "missing", "bad") for it in g["files"][0]["items"])

    def fail(sig, what, extra=None):
        rp = replay_of(g, sub_seed)
        rp.update(extra or {})
        chk.report(sig, what, rp)

    # compile_file: the reference for the three commands
    ref, ref_exc = None, None
    try:
        with C.quiet(), C.alarm(30):
            p = BardCompiler().compile_file(entry_abs, os.path.join(out, "ref.json"))
        with open(p) as fh:
            ref = json.load(fh)
    except Exception as e:  # noqa
        ref_exc = type(e).__name__
    # resolve errors must come out of compile_file as the same kind
    want_exc = {"cycle": "ValueError", "missing": "FileNotFoundError", "bad": "SyntaxError"}.get(res[0])
    if want_exc and ref_exc != want_exc:
        fail(f"compile-file-hides-{res[0]}", f"resolve_includes raises {want_exc} but compile_file gave "
             f"{ref_exc or 'a story'}")
    # compile_string of the substituted text
    if res[0] == "ok":
        try:
            text = "\n".join(independent_subst(entry_abs))
        except (RecursionError, OSError):
            text = None
        if text is not None:
            one, one_exc = None, None
            try:
                with C.quiet(), C.alarm(30):
                    one = norm_json(BardCompiler().compile_string(text))
            except Exception as e:  # noqa
                one_exc = type(e).__name__
            if (one_exc or ref_exc) and one_exc != ref_exc:
                fail("compile-file-vs-single-text-outcome",
                     f"compile_file: {ref_exc or 'ok'}, compile_string(substituted text): {one_exc or 'ok'}")
            elif one is not None and one != ref:
                fail("compile-file-vs-single-text", "compile_file and compile_string of the substituted text "
                     "give different stories", {"substituted": text})
            if one is not None and ref is not None:
                stats["compiled_ok"] += 1
                if n_inc:
                    stats["compiled_ok_with_includes"] += 1
    runner = CliRunner()
    # bardic compile
    cj = os.path.join(out, "cli.json")
    with C.alarm(60):
        r = runner.invoke(M.cli, ["compile", entry_abs, "-o", cj])
    got = None
    if r.exit_code == 0 and os.path.exists(cj):
        with open(cj) as fh:
            got = json.load(fh)
    if got != ref:
        fail("entry-point-compile-differs", f"`bardic compile` (exit {r.exit_code}) does not give compile_file's "
             f"story ({'story' if ref is not None else ref_exc})")
    stats["cli_compile"] += 1
    # bardic bundle
    bdir = os.path.join(out, "bundle")
    with _CopySkipper(), C.alarm(60):
        r = runner.invoke(M.cli, ["bundle", entry_abs, "-o", bdir, "--minimal"])
    got = None
    gj = os.path.join(bdir, "game.json")
    if r.exit_code == 0 and os.path.exists(gj):
        with open(gj) as fh:
            got = json.load(fh)
    if got != ref:
        fail("entry-point-bundle-differs", f"`bardic bundle` (exit {r.exit_code}) does not bundle compile_file's "
             f"story ({'story' if ref is not None else ref_exc})")
    stats["cli_bundle"] += 1
    # bardic play: record the story handed to the engine, then let the prompt hit end of input
    if play_known and n_inc:
        stats["cli_play_skipped_known"] += 1
    else:
        played = []
        real_engine = M.BardEngine

        def recording_engine(story, *a, **k):
            played.append(norm_json(story))
            return real_engine(story, *a, **k)

        M.BardEngine = recording_engine
        try:
            with C.alarm(60):
                r = runner.invoke(M.cli, ["play", entry_abs], input="")
        finally:
            M.BardEngine = real_engine
        got = played[0] if played else None
        stats["cli_play"] += 1
        if got != ref:
            what = (f"`bardic play` on an entry file "
                    f"{'with' if entry_has_directive else 'without'} @include lines: "
                    + ("plays a different story than compile_file gives" if got is not None and ref is not None
                       else f"fails to compile (exit {r.exit_code}) a story that compile_file accepts"
                       if ref is not None else
                       f"plays a story although compile_file raises {ref_exc}"))
            sig = PLAY_SIG if n_inc else "entry-point-play-differs"
            fail(sig, what, {"play_output_tail": r.output[-400:]})
    shutil.rmtree(out, ignore_errors=True)


PINNED_PLAY = {
    "w/main.bard": "@include sub/a.bard\n\n:: Start\nHello.\n\n+ [Go] -> A\n",
    "w/sub/a.bard": ":: A\nIn A.\n\n+ [Back] -> Start\n",
}


def pinned_play(chk):
    """F13a: the minimal witness — a choice into an included passage."""
    from click.testing import CliRunner
    import bardic.cli.main as M
    from bardic.compiler.compiler import BardCompiler
    root = os.path.realpath(tempfile.mkdtemp(prefix="bardic_c13_pin_"))
    try:
        for p, t in PINNED_PLAY.items():
            os.makedirs(os.path.dirname(os.path.join(root, p)), exist_ok=True)
            with open(os.path.join(root, p), "w") as fh:
                fh.write(t)
        entry = os.path.join(root, "w/main.bard")
        with C.quiet():
            BardCompiler().compile_file(entry, os.path.join(root, "ref.json"))
        with open(os.path.join(root, "ref.json")) as fh:
            ref = json.load(fh)
        played = []
        real_engine = M.BardEngine

        def recording_engine(story, *a, **k):
            played.append(norm_json(story))
            return real_engine(story, *a, **k)

        M.BardEngine = recording_engine
        try:
            r = CliRunner().invoke(M.cli, ["play", entry], input="1\n")
        finally:
            M.BardEngine = real_engine
        if not played or played[0] != ref:
            chk.report(PLAY_SIG,
                       "`bardic play main.bard` compiles with compile_string, which does not resolve @include: "
                       f"compile_file gives passages {sorted(ref['passages'])}, play "
                       + (f"plays passages {sorted(played[0]['passages'])}" if played else
                          f"exits {r.exit_code}: {r.output.strip().splitlines()[-1][:160] if r.output.strip() else ''}"),
                       {"files": PINNED_PLAY, "entry": "w/main.bard", "command": "bardic play w/main.bard",
                        "proposed_fix": "proposed_fixes/F13a-play-include.diff"})
            return True
        return False
    finally:
        shutil.rmtree(root, ignore_errors=True)


# ------------------------------------------------------------------------------------------------
# (d) provenance through the diagnostics
# ------------------------------------------------------------------------------------------------

FIRST_DIRS = ["", "lib", "lib/inner", "d1", "d2/deep/er"]


def gen_first_chain(rng, depth):
    """An include graph whose entry file BEGINS with an @include and in which every included file but the innermost
    begins with an @include of the next one (depth = number of included files on that chain, 1..3); further includes
    (a sibling passage file later in a file, a text fragment inside a passage body) are drawn on top.  Same format as
    gen_graph.  The entry file defines Start, End and Shop(item, count=1), the names the construct table refers to."""
    n = depth + 1
    files = []
    for i in range(n):
        d = rng.choice(FIRST_DIRS)
        files.append({"path": posixpath.join("w", d, "main.bard" if i == 0 else f"f{i}.bard"), "kind": "passages",
                      "nl": rng.random() < 0.7, "children": [i + 1] if i + 1 < n else [], "extra": []})
    extras = []          # (parent, fid, kind)
    for i in range(n):
        r = rng.random()
        if r < 0.3:
            fid = len(files)
            files.append({"path": posixpath.join("w", rng.choice(FIRST_DIRS), f"side{fid}.bard"), "kind": "passages",
                          "nl": rng.random() < 0.7, "children": [], "extra": []})
            extras.append((i, fid, "passages"))
        elif r < 0.5:
            fid = len(files)
            files.append({"path": posixpath.join("w", rng.choice(FIRST_DIRS), f"frag{fid}.bard"), "kind": "fragment",
                          "nl": rng.random() < 0.7, "children": [], "extra": []})
            extras.append((i, fid, "fragment"))
    names = {i: ("Start" if i == 0 else f"P{i}") for i in range(len(files)) if files[i]["kind"] == "passages"}
    targets = sorted(names)

    def inc(f, k):
        return ("inc", k, directive(rng, spell(rng, f["path"], files[k]["path"])))

    for i, f in enumerate(files):
        items = []
        if f["kind"] == "fragment":
            f["items"] = [("line", rng.choice([t for t in TEXTS if t.strip()])) for _ in range(rng.randint(1, 2))]
            continue
        if i + 1 < n:
            items.append(inc(f, i + 1))                       # the FIRST line of the file
        items.append(("line", ":: " + names[i]))
        body = [("line", rng.choice([t for t in TEXTS if t.strip()])) for _ in range(rng.randint(1, 3))]
        body += [inc(f, fid) for p, fid, kind in extras if p == i and kind == "fragment"]
        rng.shuffle(body)
        items += body
        items.append(("line", ""))
        for _ in range(rng.randint(0, 2)):
            items.append(("choice", rng.choice(["Go on", "Look", "Wait"]), rng.choice(targets)))
        if i == 0:
            items += [("line", "+ [Buy] -> Shop(1)"), ("line", "+ [Leave] -> End"), ("line", ""),
                      ("line", ":: Shop(item, count=1)"), ("line", "A shop with {item}."), ("line", "-> End"),
                      ("line", ""), ("line", ":: End"), ("line", "Fin.")]
        items += [inc(f, fid) for p, fid, kind in extras if p == i and kind == "passages"]
        f["items"] = items
    return {"shape": "include-first", "tags": [f"first-chain-{depth}"], "wild": False, "files": files}


def _cli_message(output):
    """The text of the exception as a CLI command printed it (after its own '✗ Error: ' / '✗ Compile Error: ' label)."""
    for label in ("✗ Compile Error: ", "✗ Error: "):
        k = output.find(label)
        if k >= 0:
            return output[k + len(label):]
    return None


# constructs that are diagnosed with a line inside an @if branch (the others are C14's no-line findings there)
NESTABLE = ["elif-no-colon", "else-no-colon", "if-no-colon", "endif-colon", "for-no-colon", "py-no-colon",
            "tilde-syntax", "hook-arity", "render-missing-parens", "input-missing-params"]


def diagnostic_provenance(chk, root, g, sub_seed, rng, stats, kinds_per_position=None):
    """(d): constructs on the first line / after every include / on an inner line / at the end of every file."""
    from click.testing import CliRunner
    import bardic.cli.main as M
    from bardic.compiler.compiler import BardCompiler
    from . import c14 as D

    entry_abs = os.path.join(root, g["files"][0]["path"])
    out = os.path.join(root, "out_d")
    os.makedirs(out, exist_ok=True)
    runner = CliRunner()

    def compile_file_msg():
        try:
            with C.quiet(), C.alarm(30):
                BardCompiler().compile_file(entry_abs, os.path.join(out, "d.json"))
            return None
        except (SyntaxError, ValueError, FileNotFoundError) as e:
            return str(e)
        except C.Timeout:
            return "crash:Timeout"
        except Exception as e:  # noqa
            return "crash:" + type(e).__name__

    if compile_file_msg() is not None:
        stats["hosts_not_compiling"] += 1
        shutil.rmtree(out, ignore_errors=True)
        return
    stats["graphs"] += 1
    res0 = run_resolve(root, entry_abs)
    # the files whose first line becomes line 0 of the combined text when a construct is put there: the entry file and,
    # as long as a file BEGINS with an @include, the file it includes
    chain0, cur = [], 0
    while cur not in chain0:
        chain0.append(cur)
        its = g["files"][cur]["items"]
        if not its or its[0][0] != "inc":
            break
        cur = its[0][1]

    for f in g["files"]:
        lines = file_lines(g, f)
        if not lines:
            continue
        fabs = os.path.join(root, f["path"])
        # a file that enters the combined text twice (diamond) would carry the construct twice, the second copy inside
        # whatever block the first one opens: not "one construct at top level" any more
        times = sum(1 for fp, ln in res0[2] if ln == 0 and os.path.realpath(fp) == os.path.realpath(fabs))
        if times != 1:
            stats["files_skipped_included_twice_or_never"] += 1
            continue
        is_inc = [it[0] == "inc" for it in f["items"]]
        positions = {0: "first-line", len(lines): "end-of-file"}
        for k, inc_ in enumerate(is_inc):
            if inc_ and k + 1 <= len(lines):
                positions.setdefault(k + 1, "after-include")
        if len(lines) > 2:
            positions.setdefault(rng.randrange(1, len(lines)), "inner-line")
        host = [("body", t) for t in lines] + [("body", None)]
        for pos, pclass in sorted(positions.items()):
            kinds = list(D.CONSTRUCTS)
            if kinds_per_position is not None and pclass != "first-line":
                kinds = rng.sample(kinds, kinds_per_position)
            nested_kinds = [k_ for k_ in NESTABLE if k_ in D.CONSTRUCTS] if pclass in ("inner-line", "after-include") else []
            for kind in kinds + [("nested", k_) for k_ in nested_kinds]:
                if isinstance(kind, tuple):
                    # the same construct two @if levels deep (the recursive extractor must hand the line map down)
                    kind = kind[1]
                    ins = D.CONSTRUCTS[kind][0]
                    base = D.host_text(host)
                    new = base[:pos] + ["@if True:", "    @if True:"] + ["        " + l for l in ins] + ["    @endif", "@endif"] + base[pos:]
                    idx = pos + 2 + (D.CONSTRUCTS[kind][1] or 0)
                    pclass_k = "nested-if:" + pclass
                elif kind == "passage-duplicate" and f is not g["files"][0] and any(l.strip() == ":: Start" for l in file_lines(g, g["files"][0])):
                    # a second definition of the entry file's `:: Start`, standing in an included file
                    base = D.host_text(host)
                    new, idx, pclass_k = base[:pos] + [":: Start", "Again."] + base[pos:], pos, pclass
                else:
                    new, idx, _ctx, _alt = D.place(host, pos, kind, f["path"])
                    pclass_k = pclass
                with open(fabs, "w", encoding="utf-8", newline="") as fh:
                    fh.write("\n".join(new) + ("\n" if f["nl"] else ""))
                try:
                    msg = compile_file_msg()
                    pc = pclass_k
                    if pclass == "first-line" and f is not g["files"][0] and g["files"].index(f) in chain0:
                        pc = "combined-line-0"
                    stats["placements"] += 1
                    frag = D.CONSTRUCTS[kind][2]
                    if msg is None or frag not in msg:
                        stats["outcomes"]["accepted" if msg is None else "other-diagnostic"] += 1
                        chk.count(("dp", sub_seed, f["path"], pos, kind), False)
                        continue
                    how, locs = D.parse_location(msg, entry_abs)
                    if how == "none" or not locs:
                        stats["outcomes"]["no-location"] += 1          # C14's subject (F14b), not judged here
                        chk.count(("dp", sub_seed, f["path"], pos, kind), False)
                        continue
                    chk.count(("dp", sub_seed, f["path"], pos, kind), True)
                    stats["located_by_position"][pc] = stats["located_by_position"].get(pc, 0) + 1
                    true_line = idx + 1
                    msgs = {"compile_file": msg}
                    for cmd, argv in (("compile", ["compile", entry_abs, "-o", os.path.join(out, "c.json")]),
                                      ("play", ["play", entry_abs]),
                                      ("bundle", ["bundle", entry_abs, "-o", os.path.join(out, "b"), "--minimal"])):
                        with _CopySkipper(), C.alarm(60):
                            r = runner.invoke(M.cli, argv, input="")
                        m = _cli_message(r.output) if r.exit_code != 0 else None
                        msgs[cmd] = m
                        stats["entry_points"][cmd] = stats["entry_points"].get(cmd, 0) + 1
                    for ep, m in msgs.items():
                        rp = {**replay_of(g, sub_seed), "construct": kind, "placed_in": f["path"], "placed_at_line": true_line,
                              "position_class": pc, "entry_point": ep, "changed_file_text": "\n".join(new),
                              "message": (m or "")[:800]}
                        if m is None or m.rstrip("\n") != msg.rstrip("\n"):
                            if ep != "compile_file":
                                stats["outcomes"]["entry-point-differs"] += 1
                                chk.report(f"entry-point-{ep}-diagnostic-differs",
                                           f"`bardic {ep}` does not print compile_file's diagnostic for {kind} in "
                                           f"{f['path']} line {true_line}: " +
                                           ("no error" if m is None else repr(m.splitlines()[:3])), rp)
                            if m is None:
                                continue
                        how_m, locs_m = D.parse_location(m, entry_abs)
                        if any(l == true_line and D.same_file(fl, fabs) for fl, l in locs_m):
                            stats["outcomes"]["correct"] += 1
                            continue
                        f0, l0 = (locs_m[-1] if how_m == "dup" else locs_m[0]) if locs_m else (None, None)
                        cls = "wrong-file" if not D.same_file(f0, fabs) else "wrong-line"
                        stats["outcomes"][cls] += 1
                        chk.report(f"diagnostic-provenance:{cls}:{pc}:{ep}",
                                   f"{kind} put in {f['path']} line {true_line} ({pc}; graph {g['shape']} "
                                   f"{'+'.join(g['tags'])}): {ep} names {model_path(root, f0) if f0 else f0} line {l0}", rp)
                finally:
                    with open(fabs, "w", encoding="utf-8", newline="") as fh:
                        fh.write(file_text(g, f))
    shutil.rmtree(out, ignore_errors=True)


# ------------------------------------------------------------------------------------------------
# string-level streams
# ------------------------------------------------------------------------------------------------

PIECES = ["@include", "@include", "@includes", "@includ", " ", " ", "\t", "a.bard", "b", "d/a.bard", "x y",
          "@", "include", "\x0c", "\x1f", "#", "..", "./q.bard", "  ", "-> A", ":: P", "\x0b"]


def gen_directive_line(rng):
    if rng.random() < 0.6:
        tail = "".join(rng.choice(PIECES) for _ in range(rng.randint(0, 4)))
        return (rng.choice(["", "", " ", "\t", "  ", "\x0c "]) +
                rng.choice(["@include", "@include ", "@include ", "@includes ", "@include\t"]) + tail)
    return "".join(rng.choice(PIECES) for _ in range(rng.randint(1, 5)))


def run_directive(root, probe, line):
    from bardic.compiler.parsing.preprocessing import resolve_includes
    try:
        text, lm = resolve_includes(line, probe)
        ok = text == line and [(loc.file_path, loc.line_num) for loc in lm] == [(probe, 0)]
        return (0 if ok else 8, None)      # 8: kept but altered / wrongly mapped: no model class matches
    except FileNotFoundError as e:
        m = re.match(r"Include file not found: (.*)\n  Looking for: ", str(e), re.S)
        return (1, m.group(1) if m else None)
    except SyntaxError as e:
        s = str(e)
        return (2 if "missing file path" in s else 3 if "one file at a time" in s else 4, None)
    except Exception:  # noqa  (a directory, a path through a file, ...: outside the model's domain)
        return (9, None)


def gen_path_case(rng, root):
    from pathlib import Path
    base_dir = "/".join(rng.choice(["a", "b", "c"]) for _ in range(rng.randint(1, 3)))
    base = f"{root}/w/{base_dir}/f.bard"
    depth = base_dir.count("/") + 2
    comps, ups = [], 0
    for _ in range(rng.randint(1, 6)):
        c = rng.choice(["a", "b", "x.bard", "..", "..", ".", "", "c.d"])
        if c == "..":
            ups += 1
            if ups > depth:
                continue
        comps.append(c)
    arg = "/".join(comps)
    if arg.startswith("/"):
        arg = "." + arg
    got = str((Path(base).parent / arg).resolve())
    if not (got == root or got.startswith(root + "/")):
        return None
    return (model_path(root, base), arg, model_path(root, got))


# ------------------------------------------------------------------------------------------------

def run(tier: str, seed: int) -> int:
    chk = C.Check("C13", tier, seed, "proof")
    props = C.coq_gate(chk)
    C.use_repo()
    rng = chk.rng
    n_graphs, max_files, n_cli, n_dir, n_path = ((220, 6, 70, 300, 200) if tier == "quick"
                                                 else (3000, 8, 500, 3000, 2000))
    # (d): include-first chains per depth 1..3 (every construct on every drawn position), and generated graphs that
    # compile (every construct on the first line of every file, a drawn subset elsewhere)
    n_first_per_depth, n_diag_generic, kinds_generic = (2, 10, 6) if tier == "quick" else (12, 120, 12)
    dist = {"shape": {}, "tags": {}, "outcome": {}, "expected": {}, "files": {}, "depth": {}, "wild": 0,
            "output_lines": {}, "includes_per_graph": {}}
    stats = {"compiled_ok": 0, "compiled_ok_with_includes": 0, "cli_compile": 0, "cli_bundle": 0, "cli_play": 0,
             "cli_play_skipped_known": 0}
    dstats = {"graphs": 0, "hosts_not_compiling": 0, "files_skipped_included_twice_or_never": 0, "placements": 0, "entry_points": {}, "located_by_position": {},
              "outcomes": {"accepted": 0, "other-diagnostic": 0, "no-location": 0, "correct": 0, "wrong-file": 0,
                           "wrong-line": 0, "entry-point-differs": 0}}

    def bump(d, k):
        d[str(k)] = d.get(str(k), 0) + 1

    # ---- entry-point table, re-extracted from the source (every .bard file reaches the parser through parse_file) ----
    from . import c13_entrypoints
    chk.notes["entry_point_table"] = c13_entrypoints.phase(chk, C.REPO)

    # ---- F13a pinned witness ----
    play_known = PLAY_SIG in chk.known_signatures()
    play_broken = pinned_play(chk)

    scratch_root = os.path.realpath(tempfile.mkdtemp(prefix="bardic_c13_"))
    terms, cases = [], []
    cli_done = 0
    try:
        n_first = 3 * n_first_per_depth
        diag_generic_done = 0
        for gi in range(n_graphs + n_first):
            sub_seed = rng.getrandbits(32)
            if gi < n_graphs:
                g = gen_graph(random.Random(sub_seed), max_files)
            else:
                g = gen_first_chain(random.Random(sub_seed), 1 + (gi - n_graphs) % 3)
            root = os.path.join(scratch_root, f"g{gi}")
            os.makedirs(root)
            write_graph(g, root)
            entry_abs = os.path.join(root, g["files"][0]["path"])
            exp, depth = expected_kind(g)
            res = run_resolve(root, entry_abs)
            oracles(chk, root, g, res, exp, sub_seed)
            terms.append(case_term(root, g, res))
            cases.append((g, sub_seed, res))
            n_inc = sum(1 for f in g["files"] for it in f["items"] if it[0] == "inc")
            bump(dist["shape"], g["shape"])
            bump(dist["tags"], "+".join(g["tags"]) or "none")
            bump(dist["outcome"], res[0])
            bump(dist["expected"], exp)
            bump(dist["files"], len(g["files"]))
            bump(dist["depth"], depth)
            bump(dist["includes_per_graph"], min(n_inc, 9))
            dist["wild"] += int(g["wild"])
            if res[0] == "ok":
                bump(dist["output_lines"], min(len(res[1].split("\n")) // 5 * 5, 40))
            chk.count(("g", sorted((f["path"], file_text(g, f)) for f in g["files"])),
                      n_inc >= 1 and res[0] in ("ok", "cycle", "missing"))
            if gi < 3:
                chk.sample({"kind": "graph", **replay_of(g, sub_seed), "expected": exp, "implementation": res[0]})
            # (c): every graph until the budget is used; wild graphs included (both sides must then fail alike)
            if cli_done < n_cli:
                entry_points(chk, root, g, res, sub_seed, stats, play_known or (play_broken and cli_done >= 6))
                cli_done += 1
            elif g["shape"] == "include-first":
                entry_points(chk, root, g, res, sub_seed, stats, play_known)
            # (d)
            if g["shape"] == "include-first":
                diagnostic_provenance(chk, root, g, sub_seed, random.Random(sub_seed ^ 0x5EED), dstats)
            elif res[0] == "ok" and not g["wild"] and n_inc >= 1 and diag_generic_done < n_diag_generic:
                before = dstats["graphs"]
                diagnostic_provenance(chk, root, g, sub_seed, random.Random(sub_seed ^ 0x5EED), dstats, kinds_generic)
                diag_generic_done += dstats["graphs"] - before
            # (e) the files are read again on every compilation: after an included file was edited, and after it was
            # deleted, a second resolution in the same process gives the substitution of the files AS THEY ARE NOW
            if res[0] == "ok" and not g["wild"] and n_inc >= 1 and stats.get("recompiled", 0) < (40 if tier == "quick" else 400):
                incs = [f for f in g["files"][1:] if os.path.exists(os.path.join(root, f["path"]))]
                if incs:
                    stats["recompiled"] = stats.get("recompiled", 0) + 1
                    victim = os.path.join(root, random.Random(sub_seed).choice(incs)["path"])
                    with open(victim, "a", encoding="utf-8", newline="") as fh:
                        fh.write("\nEdited after the first compilation.\nSecond new line.")
                    res2 = run_resolve(root, entry_abs)
                    try:
                        want = independent_subst(entry_abs)
                    except Exception:  # noqa
                        want = None
                    if want is not None and (res2[0] != "ok" or res2[1].split("\n") != want):
                        chk.report("recompile-after-edit-uses-stale-text",
                                   "after an included file was edited, resolving the same entry file again in the same process "
                                   f"does not give the substitution of the files on disk (outcome {res2[0]})",
                                   dict(replay_of(g, sub_seed), edited=os.path.relpath(victim, root)))
                    elif want is not None and len(res2[2]) != len(want):
                        chk.report("recompile-after-edit-line-map-length", "the line map of the second resolution has "
                                   f"{len(res2[2])} entries for {len(want)} lines", dict(replay_of(g, sub_seed)))
                    os.remove(victim)
                    res3 = run_resolve(root, entry_abs)
                    if res3[0] != "missing":
                        chk.report("recompile-after-delete-not-missing",
                                   f"after an included file was deleted, resolving again gives {res3[0]} instead of FileNotFoundError",
                                   dict(replay_of(g, sub_seed), deleted=os.path.relpath(victim, root)))
            shutil.rmtree(root, ignore_errors=True)

        # ---- string-level streams ----
        droot = os.path.join(scratch_root, "dprobe", "w")
        os.makedirs(droot)
        probe = os.path.join(droot, "probe.bard")
        dterms, dcases = [], []
        dclasses = {}
        for _ in range(n_dir):
            line = gen_directive_line(rng)
            code, arg = run_directive(scratch_root, probe, line)
            if code == 9:
                bump(dclasses, "outside-domain")
                continue
            bump(dclasses, code)
            dterms.append("(%s, %s, %s)" % (coq_str(line), coq_nat(code), coq_opt(arg, coq_str)))
            dcases.append(line)
            chk.count(("d", line), code in (1, 2, 3))
        pterms, pcases = [], []
        for _ in range(n_path):
            pc = gen_path_case(rng, scratch_root)
            if pc is None:
                continue
            pterms.append("(%s, %s, %s)" % tuple(coq_str(x) for x in pc))
            pcases.append(pc)
            chk.count(("p", pc), ".." in pc[1])
    finally:
        shutil.rmtree(scratch_root, ignore_errors=True)

    # ---- (a) the model on the same cases ----
    disagreements = 0
    for terms_, cases_, ctype, bad_fn, show_fn, label in [
            (terms, cases, "icase", "icase_bad", "icase_show", "resolve"),
            (dterms, dcases, "dcase", "dcase_bad", "dcase_show", "directive"),
            (pterms, pcases, "pcase", "pcase_bad", "pcase_show", "path")]:
        sub = os.path.join(chk.scratch, label)
        os.makedirs(sub, exist_ok=True)
        bad, shown, log = C.run_coq_cases(sub, HEADER, terms_, ctype, bad_fn, shard=100, show_fn=show_fn)
        for b in bad:
            disagreements += 1
            if not isinstance(b, int):
                chk.disagree(label + "-coqc", "case shard failed to evaluate", {"log": log})
            elif label == "resolve":
                g, sub_seed, res = cases_[b]
                chk.disagree(label + "[" + ("+".join(g["tags"]) or "plain") + "]",
                             f"model Compiler/Include.v and resolve_includes differ on a {g['shape']} graph "
                             f"(implementation: {res[0]})",
                             {**replay_of(g, sub_seed, res), "model_says": shown.get(b)})
            else:
                chk.disagree(label, f"model and implementation differ on a {label} case",
                             {"case": cases_[b], "model_says": shown.get(b)})
    chk.cov["programs"] = len(terms) + len(dterms) + len(pterms)
    chk.cov["disagreements_checked"] = chk.cov["programs"]
    chk.cov["disagreements_found"] = disagreements
    chk.cov["rule"] = ("include graphs written to disk (shapes: single, tree, diamond, dag, cycle, self-include, missing "
                       "leaf, malformed directive, mixed; nested directories, ./ and .. spellings, indented directives, "
                       "empty files, files without final newline); non-trivial = at least one include directive that is "
                       "followed and the outcome is ok, cycle or missing; directive-classification cases: non-trivial = "
                       "the line is a directive; path cases: non-trivial = the argument contains '..'; distinct = by "
                       "full content of the files / line / path pair; diagnostic-provenance cases: (graph, file, position, "
                       "construct), non-trivial = the diagnostic of that construct carries a location")
    dist["directive_classes"] = dclasses
    dist["entry_points"] = stats
    dist["diagnostic_provenance"] = dict(dstats, constructs="the table CONSTRUCTS of harness/c14.py", family=(
        "include-first chains (entry file and every included file but the innermost BEGIN with an @include; depth 1, 2, 3; "
        "random directories, directive spellings, extra sibling/fragment includes) with every construct on the first "
        "line, after every @include line, on a drawn inner line and at the end of every file; generated graphs that "
        "compile: every construct on the first line of every file, a drawn subset elsewhere; each located diagnostic "
        "read from compile_file, `bardic compile`, `bardic play`, `bardic bundle`"))
    chk.notes["input_distribution"] = dist
    chk.assumptions = [
        "paths are normalised absolute '/'-separated strings; no symlinks in the generated trees, so "
        "Path.resolve() is lexical normalisation (rel_posix)",
        "include arguments name regular files or nothing (a directory or a path through a regular file raises "
        "IsADirectoryError/NotADirectoryError in the implementation; outside the model, not generated)",
        "file contents are ASCII without carriage returns; lines are content.split('\\n')",
        "exception messages are compared by kind; the path named in a message is compared only when it can be read",
        "diagnostic provenance: only diagnostics that name a line are judged (constructs whose diagnostic has no location "
        "are C14's recorded finding F14b); constructs are put at top level only (block contexts are C14's subject)",
        "entry-point clause: the story `bardic play` hands to BardEngine is observed by wrapping BardEngine in "
        "bardic.cli.main; pyodide files are not copied while bundling",
    ]
    return chk.finish(props, C.BASE_TRUST + [
        "modelled: bardic/compiler/parsing/preprocessing.py:resolve_includes and the file read of io.py:parse_file; "
        "compile_file / CLI commands are exercised, not modelled"],
        "coqc -Q /verif/coq Bardic /verif/coq/Props/C13.v  (after make -C /verif/coq)")
