"""C13, 'whichever entry point compiles the file (compile, play, bundle)': a table re-extracted from the source on
every run (Python `ast`, fail closed), like C14's site table.  For every entry point that takes a .bard file the table
records which compile functions its body calls; the obligation is that source text read from a FILE reaches the parser
only through `parse_file` (= read + resolve_includes + parse with the line map - also re-checked here), never through
`compile_string` / `parse` on the raw text, which ignore @include.  What the entry points DO with includes is still
checked behaviourally (entry_points() in c13.py); this table sees an added or edited call even if no generated graph
reaches it."""
import ast
import os

COMPILEISH = {"compile_file", "compile_string", "parse_file", "parse", "resolve_includes"}
# entry point -> (file, function, allowed compile-ish calls)
ENTRY_POINTS = {
    "cli compile": ("bardic/cli/main.py", "compile", {"compile_file"}),
    "cli play": ("bardic/cli/main.py", "play", {"parse_file"}),
    "cli bundle": ("bardic/cli/main.py", "bundle", set()),                       # delegates to create_browser_bundle
    "create_browser_bundle": ("bardic/cli/bundler.py", "create_browser_bundle", {"compile_file"}),
    "BardCompiler.compile_file": ("bardic/compiler/compiler.py", "compile_file", {"parse_file"}),
    "parse_file": ("bardic/compiler/parsing/io.py", "parse_file", {"resolve_includes", "parse"}),
}


class ExtractionError(Exception):
    pass


def calls_of(repo, rel, fn_name):
    path = os.path.join(repo, rel)
    tree = ast.parse(open(path, encoding="utf-8").read())
    fns = [n for n in ast.walk(tree) if isinstance(n, (ast.FunctionDef, ast.AsyncFunctionDef)) and n.name == fn_name]
    if len(fns) != 1:
        raise ExtractionError(f"{rel}: expected exactly one function {fn_name}, found {len(fns)}")
    found = []
    for n in ast.walk(fns[0]):
        if isinstance(n, ast.Call):
            f = n.func
            name = f.attr if isinstance(f, ast.Attribute) else f.id if isinstance(f, ast.Name) else None
            if name in COMPILEISH:
                found.append((name, n.lineno))
    return found


def table(repo):
    rows = []
    for ep, (rel, fn, allowed) in ENTRY_POINTS.items():
        found = calls_of(repo, rel, fn)
        names = {c for c, _ in found}
        # required calls present; the include-blind functions (compile_string, parse on raw text) absent - other uses of
        # resolve_includes (cli compile measures the resolved size for its message) are harmless
        forbidden = {"compile_string", "parse"} - allowed
        rows.append({"entry_point": ep, "file": rel, "function": fn, "calls": found, "allowed": sorted(allowed),
                     "ok": allowed <= names and not (names & forbidden)})
    # parse_file must resolve includes BEFORE parsing and hand the line map on
    pf = calls_of(repo, "bardic/compiler/parsing/io.py", "parse_file")
    order_ok = [c for c, _ in sorted(pf, key=lambda x: x[1])] == ["resolve_includes", "parse"]
    rows.append({"entry_point": "parse_file order", "file": "bardic/compiler/parsing/io.py", "function": "parse_file",
                 "calls": pf, "allowed": ["resolve_includes then parse"], "ok": order_ok})
    return rows


def phase(chk, repo):
    try:
        rows = table(repo)
    except (ExtractionError, SyntaxError, OSError) as e:
        chk.disagree("entry-point-table", f"the entry-point table could not be extracted from the source: {e}",
                     {"obligation": "harness/c13_entrypoints.py table"})
        return []
    for r in rows:
        if not r["ok"]:
            chk.disagree("entry-point-table:" + r["entry_point"].replace(" ", "-"),
                         f"{r['entry_point']} ({r['file']}:{r['function']}) calls {r['calls']}; allowed: {r['allowed']} - a .bard file "
                         "would reach the parser without include resolution (or the table no longer describes the code)",
                         {"row": {k: (sorted(v) if isinstance(v, set) else v) for k, v in r.items()}})
    return [{k: v for k, v in r.items()} for r in rows]
