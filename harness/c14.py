"""C14 — a diagnostic names the file and the 1-based line where the malformed construct stands.

Three parts (see DESIGN.md §3 "Generated tables" (a) and §6 C14):
  1. the call-site table: harness/c14_sites.py re-reads the parser sources of the repository under check,
     emits `site_table` as a Coq file and the finite-domain obligation `forallb site_ok site_table = true`
     is re-checked by vm_compute (Props/C14.v turns it into "every site displays the true location");
  2. the behavioural oracle: every diagnosable construct kind on every line position of several valid host
     stories (single file, included file, after included content, nested include, entry file and included files
     that BEGIN with an @include nested 1-3 levels so that line 0 of the combined text is an included file's); the
     file and the line are parsed out of the message and compared with where the construct was put;
  3. the correspondence of Compiler/Diag.v with the real `format_error` on random inputs.
"""
from __future__ import annotations

import ast
import os
import random
import re
import shutil
import tempfile

from . import common as C
from . import c14_sites as S
from .common import coq_str, coq_Z, coq_list, coq_opt

HEADER = "From Coq Require Import ZArith List String.\nFrom Bardic Require Import Diag DiagCheck."

# ----------------------------------------------------------------------------------------------
# host stories.  Every line is (ctx, text): ctx is the context in which a line INSERTED BEFORE this
# line is parsed: pre (before the first passage), body (top level of a passage), py (inside @py),
# if (inside an @if branch), for (inside a @for body), join (inside the block of a `-> @join` choice),
# "-" (no insertion before this line: it continues a `~` statement that spans several lines).
# The last element gives the context of a line appended at the end.
# A scenario file may also be a plain `str`: the exact bytes of a file that is only ever *included* (empty,
# whitespace-only, no final newline, ...); such files stand before the construct, never carry it.
# ----------------------------------------------------------------------------------------------

HOST_PLAIN = [
    ("pre", ":: Start"),
    ("body", "Welcome to the story."),
    ("body", "~ gold = 10"),
    ("body", "You have {gold} coins."),
    ("body", ""),
    ("body", '+ [Go to the shop] -> Shop("sword")'),
    ("body", "+ [Leave] -> End"),
    ("body", ""),
    ("body", ":: Shop(item, count=1)"),
    ("body", "You look at the {item}."),
    ("body", "-> End"),
    ("body", ""),
    ("body", ":: End"),
    ("body", "The end."),
    ("body", None),
]

HOST_BLOCKS = [
    ("pre", ":: Start"),
    ("body", "@py:"),
    ("py", "hp = 5"),
    ("py", 'items = ["a", "b"]'),
    ("py", "@endpy"),
    ("body", "@if hp > 3:"),
    ("if", "    You feel strong."),
    ("if", "    ~ hp = hp - 1"),
    ("if", "@elif hp > 1:"),
    ("if", "    You feel weak."),
    ("if", "@else:"),
    ("if", "    You feel nothing."),
    ("if", "@endif"),
    ("body", "@for it in items:"),
    ("for", "    Item: {it}"),
    ("for", "    ~ hp = hp + 1"),
    ("for", "@endfor"),
    ("body", "Some text."),
    ("body", "+ [Choose] -> @join"),
    ("join", "    You chose."),
    ("join", "    ~ hp = 1"),
    ("join", "@join"),
    ("body", "After the join."),
    ("body", "+ [Again] -> Start"),
    ("body", "+ [Done] -> End"),
    ("body", ""),
    ("body", ":: Shop(item, count=1)"),
    ("body", "A shop with {item}."),
    ("body", ""),
    ("body", ":: End"),
    ("body", "Bye."),
    ("body", None),
]

# `-> @join` choice blocks whose indented bodies hold `#` comment lines, blank lines, `~` statements and
# text lines in every order (comment first / between content / after a blank / last; an empty block)
HOST_JOIN = [
    ("pre", ":: Start"),
    ("body", "~ gold = 3"),
    ("body", "Intro text."),
    ("body", "+ [First] -> @join"),
    ("join", "    # a comment opens the block"),
    ("join", "    You chose first."),
    ("join", "    # a comment between two content lines"),
    ("join", "    ~ gold = gold + 1"),
    ("join", ""),
    ("join", "    Gold is {gold}."),
    ("join", "    # a comment closes the block"),
    ("join", "+ {gold > 1} [Second] -> @join"),
    ("join", "    Second text."),
    ("join", ""),
    ("join", "    # a comment after a blank line"),
    ("join", "    # and another one"),
    ("join", "    ~ gold = 0"),
    ("join", "    More second text."),
    ("join", "* [Third] -> @join"),
    ("join", "@join"),
    ("body", "After the join."),
    ("body", "+ [Fourth] -> @join"),
    ("join", "    ~ gold = 9"),
    ("join", "    # a comment after a statement"),
    ("join", "    Fourth text."),
    ("join", "@join"),
    ("body", "Final text."),
    ("body", "+ [Done] -> End"),
    ("body", ""),
    ("body", ":: Shop(item, count=1)"),
    ("body", "A shop with {item}."),
    ("body", ""),
    ("body", ":: End"),
    ("body", "Bye."),
    ("body", None),
]

# structure BEFORE the construct: comment and blank lines (before the first passage, at top level, inside
# @if / @else / @for bodies), `~` statements spanning several lines, an @py block with comments and blanks
HOST_STRUCT = [
    ("pre", "# a comment before the first passage"),
    ("pre", ""),
    ("pre", ":: Start"),
    ("body", "# a comment at top level"),
    ("body", ""),
    ("body", "~ data = ["),
    ("-", "    1,"),
    ("-", "    2,"),
    ("-", "]"),
    ("body", "Text {data}"),
    ("body", "@py:"),
    ("py", "gold = 1"),
    ("py", "# a python comment"),
    ("py", ""),
    ("py", "other = 2"),
    ("py", "@endpy"),
    ("body", "@if gold:"),
    ("if", "    # a comment in a branch"),
    ("if", ""),
    ("if", "    Text in a branch."),
    ("if", "    ~ other = {"),
    ("-", '        "a": 1,'),
    ("-", "    }"),
    ("if", "    More text."),
    ("if", "@else:"),
    ("if", "    # a comment in the other branch"),
    ("if", "    Other."),
    ("if", "@endif"),
    ("body", "@for n in data:"),
    ("for", "    # a comment in a loop"),
    ("for", ""),
    ("for", "    Loop {n}"),
    ("for", "    ~ other = ["),
    ("-", "        n,"),
    ("-", "    ]"),
    ("for", "    Loop end."),
    ("for", "@endfor"),
    ("body", "# a comment before the choices"),
    ("body", "+ [Done] -> End"),
    ("body", ""),
    ("body", "# a comment between passages"),
    ("body", ":: Shop(item, count=1)"),
    ("body", "A shop with {item}."),
    ("body", ""),
    ("body", ":: End"),
    ("body", "Bye."),
    ("body", None),
]

MAIN_INC = [
    ("pre", ":: Start"),
    ("body", "Main text."),
    ("body", "+ [Inc] -> IncOne"),
    ("body", "+ [End] -> End"),
    ("body", ""),
    ("body", "@include inc.bard"),
    ("body", "Text after the included content."),
    ("body", ""),
    ("body", ":: Shop(item, count=1)"),
    ("body", "A shop with {item}."),
    ("body", ""),
    ("body", ":: End"),
    ("body", "Fin."),
    ("body", None),
]

INC = [
    ("body", ":: IncOne"),
    ("body", "Included text."),
    ("body", "+ [Back] -> Start"),
    ("body", ""),
    ("body", "@include sub/main.bard"),
    ("body", ""),
    ("body", ":: IncTwo"),
    ("body", "More text {1 + 1}."),
    ("body", "-> End"),
    ("body", None),
]

DEEP = [
    ("body", ":: Deep"),
    ("body", "Deep text."),
    ("body", "@if True:"),
    ("if", "    Deep branch."),
    ("if", "@endif"),
    ("body", "@for n in [1, 2]:"),
    ("for", "    Deep item {n}."),
    ("for", "@endfor"),
    ("body", "+ [Up] -> IncTwo"),
    ("body", None),
]


# files that contribute (almost) nothing, included BEFORE the file / line that carries the construct
HOLLOW_FILES = {
    "empty.bard": "",                                   # zero bytes
    "nl.bard": "\n",                                    # a single newline
    "blank.bard": "   \n\t\n  \n",                      # whitespace only
    "sub/hollow.bard": "@include ../empty.bard",        # only an @include of an empty file, no final newline
    "sub/hollow_nl.bard": "@include ../nl.bard\n",      # only an @include of a one-newline file
    "sub/hollow_blank.bard": "  @include ../blank.bard\n\n",
    "note.bard": "# nothing here yet\n",                # a comment only
    "tail.bard": "A line without a final newline.",     # content, but the file does not end in a newline
}
HOLLOW_KINDS = {"empty": "empty.bard", "newline": "nl.bard", "blank": "blank.bard", "include-only": "sub/hollow.bard",
                "include-only-nl": "sub/hollow_nl.bard", "include-only-blank": "sub/hollow_blank.bard",
                "comment-only": "note.bard", "no-final-newline": "tail.bard"}

MAIN_HOLLOW = [
    ("pre", "@include empty.bard"),
    ("pre", ":: Start"),
    ("body", "Main text."),
    ("body", "@include empty.bard"),
    ("body", "After the empty file."),
    ("body", "@include blank.bard"),
    ("body", "@include nl.bard"),
    ("body", "After the blank files."),
    ("body", "@include sub/hollow.bard"),
    ("body", "+ [Inc] -> Chapter"),
    ("body", "+ [End] -> End"),
    ("body", "@include sub/hollow_nl.bard"),
    ("body", "@include note.bard"),
    ("body", "@include chapter.bard"),
    ("body", "Text after the chapter."),
    ("body", "@include sub/hollow_blank.bard"),
    ("body", ""),
    ("body", ":: Shop(item, count=1)"),
    ("body", "A shop with {item}."),
    ("body", "@include tail.bard"),
    ("body", ""),
    ("body", ":: End"),
    ("body", "Fin."),
    ("body", None),
]

CHAPTER = [
    ("body", "@include sub/hollow.bard"),
    ("body", ":: Chapter"),
    ("body", "Chapter text."),
    ("body", "@include empty.bard"),
    ("body", "+ [Back] -> Start"),
    ("body", "@include blank.bard"),
    ("body", ":: ChapterTwo"),
    ("body", "More text {1 + 1}."),
    ("body", "-> End"),
    ("body", None),
]


# the entry file BEGINS with an @include, and so does every included file down to the innermost one: line 0 of the
# combined text comes from the innermost file, and the first line of every file stands at a file boundary
FIRST_MAIN = [
    ("pre", "@include {NEXT}"),
    ("pre", ":: Start"),
    ("body", "Main text."),
    ("body", "+ [Inc] -> Inc1"),
    ("body", "+ [End] -> End"),
    ("body", ""),
    ("body", ":: Shop(item, count=1)"),
    ("body", "A shop with {item}."),
    ("body", ""),
    ("body", ":: End"),
    ("body", "Fin."),
    ("body", None),
]
FIRST_PATHS = ["main.bard", "lib/one.bard", "lib/inner/two.bard", "lib/inner/three.bard"]


def include_first(depth):
    """main.bard -> lib/one.bard -> lib/inner/two.bard -> lib/inner/three.bard (the first `depth` of them), each file
    but the last starting with the @include of the next."""
    hosts = {}
    for k in range(depth + 1):
        rel = FIRST_PATHS[k]
        nxt = os.path.relpath(FIRST_PATHS[k + 1], os.path.dirname(rel) or ".") if k < depth else None
        if k == 0:
            host = [(c, t.replace("{NEXT}", nxt) if t else t) for c, t in FIRST_MAIN]
        else:
            host = ([("pre", "@include " + nxt)] if nxt else []) + [
                ("pre", f":: Inc{k}"), ("body", f"Text of file {k}."), ("body", "+ [Back] -> Start"),
                ("body", "-> End" if k % 2 else ""), ("body", None)]
        hosts[rel] = host
    return ("main.bard", hosts)


def hollow_one(kind):
    """One kind of hollow file included before the rest of the including file and before a later file."""
    f = HOLLOW_KINDS[kind]
    main = [("pre", ":: Start"), ("body", "Main text."), ("body", "@include " + f), ("body", "After it."),
            ("body", "+ [Inc] -> Chapter"), ("body", "+ [End] -> End"), ("body", "@include chapter.bard"),
            ("body", ""), ("body", ":: Shop(item, count=1)"), ("body", "A shop with {item}."), ("body", ""),
            ("body", ":: End"), ("body", "Fin."), ("body", None)]
    chapter = [("body", ":: Chapter"), ("body", "Chapter text."), ("body", "+ [Back] -> Start"), ("body", None)]
    return ("main.bard", dict({"main.bard": main, "chapter.bard": chapter}, **HOLLOW_FILES))

# scenario: name -> (entry file, {relative path: host or raw text})
SCENARIOS = {
    "plain": ("main.bard", {"main.bard": HOST_PLAIN}),
    "blocks": ("main.bard", {"main.bard": HOST_BLOCKS}),
    "include": ("main.bard", {"main.bard": MAIN_INC, "inc.bard": INC, "sub/main.bard": DEEP}),
    "join": ("main.bard", {"main.bard": HOST_JOIN}),
    "struct": ("main.bard", {"main.bard": HOST_STRUCT}),
    "hollow": ("main.bard", dict({"main.bard": MAIN_HOLLOW, "chapter.bard": CHAPTER}, **HOLLOW_FILES)),
    "include-first-1": include_first(1),
    "include-first-2": include_first(2),
    "include-first-3": include_first(3),
}
# the single-file scenarios added for what stands before the construct run in two entry modes in the quick tier
TWO_MODES_QUICK = ("join", "struct")

# ----------------------------------------------------------------------------------------------
# diagnosable constructs: kind -> (lines to insert, offset of the offending line among them, a fragment
# that identifies the diagnostic as the one of this construct (recognition only; signatures never use it))
# ----------------------------------------------------------------------------------------------

CONSTRUCTS = {
    # malformed choices
    "choice-missing-arrow": (["+ [Go] Start"], 0, "Missing arrow"),
    "choice-missing-open-bracket": (["+ Go] -> Start"], 0, "Missing opening bracket"),
    "choice-missing-close-bracket": (["+ [Go -> Start"], 0, "Missing closing bracket"),
    "choice-unclosed-condition": (["+ {gold [Go] -> Start"], 0, "Unclosed conditional"),
    "choice-empty-text": (["+ [] -> Start"], 0, "Empty choice text"),
    # passage headers
    "passage-bad-name": ([":: Bad-Name", "Text of it."], 0, "is not a valid passage name"),
    "passage-duplicate": ([":: End", "Again."], 0, "Duplicate Passage"),
    "param-required-after-optional": ([":: P2(a=1, b)", "Text."], 0, "cannot follow optional"),
    "param-invalid-name": ([":: P3(1x)", "Text."], 0, "is not a valid parameter name"),
    "param-duplicate": ([":: P4(a, a)", "Text."], 0, "is defined multiple times"),
    "param-keyword": ([":: P5(class)", "Text."], 0, "is a Python keyword"),
    # blocks
    "if-unclosed": (["@if gold > 1:", "    Rich."], 0, "@if block never closed"),
    "for-unclosed": (["@for q in [1]:", "    Q {q}"], 0, "@for block never closed"),
    "py-unclosed": (["@py:", "zz = 1"], 0, "@py block not closed"),
    "py-legacy-unclosed": (["<<py", "zz = 1"], 0, "<<py block not closed"),
    "endif-colon": (["@if gold > 1:", "    Rich.", "@endif:", "@endif"], 2, "@endif should not have a colon"),
    "endfor-colon": (["@for q in [1]:", "    Q {q}", "@endfor:", "@endfor"], 2, "@endfor should not have a colon"),
    "py-no-colon": (["@py", "zz = 1", "@endpy"], 0, "@py statement missing colon"),
    "if-no-colon": (["@if gold > 1", "    Rich.", "@endif"], 0, "@if statement missing colon"),
    "elif-no-colon": (["@if gold > 1:", "    Rich.", "@elif gold", "    Some.", "@endif"], 2, "@elif statement missing colon"),
    "else-no-colon": (["@if gold > 1:", "    Rich.", "@else", "    Poor.", "@endif"], 2, "@else statement missing colon"),
    "for-no-colon": (["@for q in [1]", "    Q {q}", "@endfor"], 0, "@for statement missing colon"),
    # content lines
    "brace-unclosed": (["Hello {gold and more"], 0, "Unclosed expression"),
    "brace-extra": (["Hello gold} and more"], 0, "without matching"),
    "brace-unclosed-glue": (["Hello {gold and more <>"], 0, "Unclosed expression"),
    # directives
    "render-missing-name": (["@render"], 0, "@render directive missing directive name"),
    "render-bad-framework": (["@render:react"], 0, "Invalid @render:framework syntax"),
    "input-missing-params": (["@input"], 0, "@input directive missing parameters"),
    "input-missing-name": (['@input placeholder="x"'], 0, "missing required 'name' attribute"),
    "hook-arity": (["@hook only_one"], 0, "@hook requires exactly 2 arguments"),
    "unhook-arity": (["@unhook a b c"], 0, "@unhook requires exactly 2 arguments"),
    # python statements
    "tilde-syntax": (["~ zz = = 1"], 0, "Python syntax error"),
    "tilde-syntax-multiline": (["~ zz = [", "    1 2,", "]"], None, "Python syntax error"),
    # comment lines, blank lines and correct lines inside the brackets, above the line that is wrong
    "tilde-syntax-multiline-after-comment": (["~ zz = [", "    # the first", "    1,", "    # the second", "", "    2 3,", "]"],
                                             None, "Python syntax error"),
    "tilde-syntax-multiline-late": (["~ zz = {", "    'a': 1,", "    'b': [", "        2,", "    ],", "    'c' 3,", "}"],
                                    None, "Python syntax error"),
    # includes (only diagnosed by compile_file)
    "include-no-path": (["@include"], 0, "@include directive missing file path"),
    "include-two-files": (["@include a.bard b.bard"], 0, "only include one file"),
    "include-missing-file": (["@include no_such_file.bard"], 0, "Include file not found"),
    "include-circular": (["@include {SELF}"], 0, "Circular include detected"),
    "start-unknown": (["@start Nowhere"], 0, "specified by @start directive not found"),
    "choice-text-brace": (["+ [Take {gold] -> End"], 0, "Unclosed expression"),
    # targets and argument shapes
    "choice-unknown-target": (["+ [Go] -> Nowhere"], 0, "Target passage 'Nowhere' does not exist"),
    "jump-unknown-target": (["-> Nowhere"], 0, "Target passage 'Nowhere' does not exist"),
    "args-to-parameterless": (["+ [Go] -> End(1)"], 0, "takes no parameters"),
    "args-missing-required": (["-> Shop()"], 0, "Missing required parameter"),
    "args-too-many": (["-> Shop(1, 2, 3)"], 0, "takes at most"),
    "args-unknown-keyword": (['-> Shop("a", zzz=1)'], 0, "has no parameter named"),
    "args-malformed": (["-> Shop(1 2)"], 0, "Malformed arguments"),
    "args-duplicate": (['-> Shop("a", item="b")'], 0, "both as positional and keyword"),
}


def tilde_multiline_offset(lines):
    """Where Python itself reports the syntax error of a `~` statement spanning several lines."""
    code = "\n".join([lines[0][2:].strip()] + lines[1:])
    try:
        ast.parse(code)
    except SyntaxError as e:
        return (e.lineno or 1) - 1
    raise AssertionError("the multi-line construct is not a syntax error")


INDENTED_CTX = {"if": "    ", "for": "    ", "join": "    "}


def host_text(host):
    """The lines of a scenario file (for a raw file: its lines, a final newline not counted as a line)."""
    if isinstance(host, str):
        return host[:-1].split("\n") if host.endswith("\n") else (host.split("\n") if host else [])
    return [t for _, t in host if t is not None]


def file_bytes(host):
    return host if isinstance(host, str) else "\n".join(host_text(host)) + "\n"


def place(host, pos, kind, rel="main.bard"):
    """Insert the construct before host line `pos`.
    Returns (new lines, 0-based index of the offending line, ctx, other acceptable indices)."""
    ins, off, _ = CONSTRUCTS[kind]
    ins = [l.replace("{SELF}", os.path.basename(rel)) for l in ins]
    if off is None:
        off = tilde_multiline_offset(ins)
    ctx = host[pos][0]
    ind = INDENTED_CTX.get(ctx, "")
    base = host_text(host)
    new = base[:pos] + [ind + l for l in ins] + base[pos:]
    alt = []
    # an unclosed @if inside an @if (or @for inside @for) leaves the file one closer short: blaming the
    # enclosing opener is as right as blaming the inner one
    if kind in ("if-unclosed", "for-unclosed") and ctx == kind.split("-")[0]:
        opener = "@" + ctx + " "
        for k in range(pos - 1, -1, -1):
            if base[k].strip().startswith(opener):
                alt.append(k)
                break
    return new, pos + off, ctx, alt


def concat(files, entry, depth=0):
    """Independent textual substitution of @include: list of (file, 0-based line, text) of the concatenation."""
    out = []
    here = os.path.dirname(entry)
    for k, line in enumerate(files[entry]):
        s = line.strip()
        if s.startswith("@include") and s[8:].strip() and " " not in s[8:].strip() and depth < 8:
            target = os.path.normpath(os.path.join(here, s[8:].strip()))
            if target in files:
                out.extend(concat(files, target, depth + 1))
                continue
        out.append((entry, k, line))
    return out


LOC_FILE = re.compile(r"^ in (.+)$", re.M)
LOC_LINE = re.compile(r"^ on line (-?\d+):$", re.M)
DUP_LINE = re.compile(r"^    Line\s+(-?\d+)(?: in (.+?))?: ", re.M)


def parse_location(msg, entry_path):
    """(kind, [(file or None, line)]) parsed out of a diagnostic."""
    if msg.startswith("✗ Duplicate Passage Error"):
        return "dup", [(m.group(2) or entry_path, int(m.group(1))) for m in DUP_LINE.finditer(msg)]
    head = msg.split("\n\n", 1)[0]
    ml = LOC_LINE.search(head)
    if not msg.startswith("✗ ") or not ml:
        return "none", []
    mf = LOC_FILE.search(head)
    return "fmt", [(mf.group(1) if mf else None, int(ml.group(1)))]


def same_file(a, b):
    if a is None or b is None:
        return a is b
    return os.path.realpath(a) == os.path.realpath(b)


class Oracle:
    """Runs the real compiler on a placed construct and classifies what the diagnostic says."""

    def __init__(self, chk: C.Check, scenarios):
        self.chk = chk
        self.scenarios = scenarios
        self.root = tempfile.mkdtemp(prefix="bardic_c14_files_")
        self.outcomes = {}          # (kind@ctx, outcome) -> count
        self.by_scn = {}
        self.tried = 0
        self.raw = {}
        self.hosts_rejected = []

    def close(self):
        shutil.rmtree(self.root, ignore_errors=True)

    def write(self, files):
        """files: relative path -> list of lines (written with a final newline) or raw text (written as is)."""
        for rel, lines in files.items():
            p = os.path.join(self.root, rel)
            os.makedirs(os.path.dirname(p), exist_ok=True)
            with open(p, "w", encoding="utf-8", newline="") as f:
                f.write(lines if isinstance(lines, str) else "\n".join(lines) + "\n")

    def compile(self, mode, files, entry):
        from bardic.compiler.compiler import BardCompiler
        from bardic.compiler.parser import parse
        try:
            with C.quiet():
                if mode == "string":
                    BardCompiler().compile_string("\n".join(files[entry]) + "\n")
                elif mode == "parse-named":
                    parse("\n".join(files[entry]) + "\n", filename=entry)
                else:
                    BardCompiler().compile_file(os.path.join(self.root, entry),
                                                os.path.join(self.root, "out.json"))
        except (SyntaxError, ValueError, FileNotFoundError) as e:
            return type(e).__name__, str(e)
        except Exception as e:  # noqa  anything else is not a diagnostic
            return "crash:" + type(e).__name__, str(e)
        return None, ""

    def one(self, scn, mode, rel, pos, kind):
        entry, hosts = self.scenarios[scn]
        files = {r: host_text(h) for r, h in hosts.items()}
        new, idx, ctx, alt = place(hosts[rel], pos, kind, rel)
        files[rel] = new
        if mode == "file":
            self.write({rel: new})
        try:
            exc, msg = self.compile(mode, files, entry)
        finally:
            if mode == "file":
                self.write({rel: host_text(hosts[rel])})
        self.raw = {r: h for r, h in hosts.items() if isinstance(h, str)}
        # the label names the mechanism: `pre` differs from `body` only in not being inside a passage, and
        # @include / @start lines are handled before (or regardless of) any block structure
        label = kind if ctx in ("body", "pre") or kind.startswith(("include-", "start-")) else f"{kind}@{ctx}"
        self.tried += 1
        frag = CONSTRUCTS[kind][2]
        if exc is None:
            return self.tally(scn, label, "accepted")
        if exc.startswith("crash:"):
            self.tally(scn, label, "crash")
            self.chk.report(f"construct:{label}:crash", f"{kind} in {rel} line {idx + 1} ({scn}/{mode}): the compiler "
                            f"raised {exc[6:]} instead of a diagnostic: {msg[:120]}",
                            self.replay(scn, mode, rel, pos, kind, files, msg))
            return
        if frag not in msg:
            return self.tally(scn, label, "other-diagnostic")
        # where does the construct truly stand?
        entry_path = os.path.join(self.root, entry) if mode == "file" else (entry if mode == "parse-named" else None)
        true_file = os.path.join(self.root, rel) if mode == "file" else entry_path
        true_line = idx + 1
        how, locs = parse_location(msg, entry_path)
        if how == "none" or not locs:
            self.tally(scn, label, "no-line")
            self.chk.report(f"construct:{label}:no-line",
                            f"{kind} placed in {rel} line {true_line} ({scn}/{mode}, context {ctx}): the diagnostic "
                            f"names no line: {msg.splitlines()[0][:140]!r}",
                            self.replay(scn, mode, rel, pos, kind, files, msg))
            return
        if any(l in [true_line] + [a + 1 for a in alt] and same_file(f, true_file) for f, l in locs):
            return self.tally(scn, label, "correct")
        # classify the error by structure: what would the NEXT line of the concatenation be?
        f0, l0 = locs[-1] if how == "dup" else locs[0]
        cat = concat({r: v for r, v in files.items()}, entry) if mode == "file" else \
            [(entry, k, t) for k, t in enumerate(files[entry])]
        at = [n for n, (fr, k, _) in enumerate(cat) if fr == rel and k == idx]
        cls = None
        if at:
            n = at[0]
            if n + 1 < len(cat):
                nf, nk, _ = cat[n + 1]
                nxt_file = os.path.join(self.root, nf) if mode == "file" else entry_path
                if l0 == nk + 1 and same_file(f0, nxt_file):
                    cls = "off-by-one"
            if cls is None and l0 == n + 2 and same_file(f0, entry_path):
                cls = "off-by-one"          # past the end of the line map: concatenated number + 1
        if cls is None and ctx == "for":
            cls = "sublist-index"
        if cls is None and not same_file(f0, true_file):
            cls = "wrong-file"
        if cls is None:
            cls = "off-by-one" if l0 == true_line + 1 else "wrong-line"
        self.tally(scn, label, cls + ("+wrong-file" if cls == "off-by-one" and not same_file(f0, true_file) else ""))
        shown = f"{os.path.relpath(f0, self.root) if f0 and mode == 'file' else f0} line {l0}"
        self.chk.report(f"construct:{label}:{cls}",
                        f"{kind} placed in {rel} line {true_line} ({scn}/{mode}, context {ctx}) is reported at {shown}",
                        self.replay(scn, mode, rel, pos, kind, files, msg))

    def tally(self, scn, label, outcome):
        self.outcomes[(label, outcome)] = self.outcomes.get((label, outcome), 0) + 1
        d = self.by_scn.setdefault(scn, {})
        d[outcome] = d.get(outcome, 0) + 1
        self.chk.count((scn, label, outcome, self.tried), outcome not in ("accepted", "other-diagnostic"))
        if outcome == "correct" and self.tried % 97 == 0:
            self.chk.sample({"kind": "construct", "scenario": scn, "construct@context": label, "outcome": outcome})

    def replay(self, scn, mode, rel, pos, kind, files, msg):
        out = {"kind": "construct", "scenario": scn, "mode": mode, "file": rel, "position": pos,
               "construct": kind, "files": files, "message": msg[:1500]}
        if self.raw:        # files that are not "lines + final newline": their exact text
            out["exact_text_of_included_only_files"] = self.raw
        return out

    def run_all(self):
        for scn, (entry, hosts) in self.scenarios.items():
            # the three entry modes on the single-file base scenarios; variants and include graphs by file
            modes = ["string", "parse-named", "file"] if len(hosts) == 1 and "~" not in scn else ["file"]
            if self.chk.tier == "quick" and scn in TWO_MODES_QUICK:
                modes = ["string", "file"]
            self.write({r: (h if isinstance(h, str) else host_text(h)) for r, h in hosts.items()})
            for mode in modes:
                # the host itself is a valid story: a diagnostic here would blind every placement on it
                exc, msg = self.compile(mode, {r: host_text(h) for r, h in hosts.items()}, entry)
                if exc is not None:
                    self.hosts_rejected.append(f"{scn}/{mode}")
                    self.chk.disagree("host-rejected", f"the valid host story of scenario {scn} ({mode}) is rejected: "
                                      f"{exc}: {msg[:300]}", {"scenario": scn, "mode": mode, "message": msg[:1500],
                                                              "files": {r: file_bytes(h) for r, h in hosts.items()}})
                    continue
                for rel, host in hosts.items():
                    if isinstance(host, str) or (mode != "file" and rel != entry):
                        continue
                    for pos in range(len(host)):
                        if host[pos][0] == "-":
                            continue
                        for kind in CONSTRUCTS:
                            if kind.startswith("include-") and mode != "file":  # only resolve_includes sees them
                                continue
                            self.one(scn, mode, rel, pos, kind)
            for rel in hosts:
                os.remove(os.path.join(self.root, rel))


FILLER = {"pre": ["", "# note"], "body": ["", "# note", "Plain filler text.", "~ filler = [\n    1,\n]"],
          "py": ["# note", "pass", ""],
          "if": ["", "    # note", "    Filler in a branch.", "    ~ filler = 1"],
          "for": ["", "    # note", "    Filler in a loop.", "    ~ filler = 1"],
          "join": ["", "    # note", "    Filler in a choice block.", "    ~ filler = 1"]}


def vary(host, rng, n):
    """A variant of an annotated host: n filler lines (blank, comment, plain text) put at random positions,
    each in the context of its position, so every construct position moves."""
    h = list(host)
    for _ in range(n):
        pos = rng.randrange(len(h))
        ctx = h[pos][0]
        if ctx == "-" or (ctx == "pre" and pos == 0 and rng.random() < 0.5):
            continue
        fill = rng.choice(FILLER[ctx]).split("\n")      # a filler of several lines is one `~` statement
        h[pos:pos] = [(ctx if k == 0 else "-", t) for k, t in enumerate(fill)]
    return h


def hollow_vary(hosts, rng, n):
    """The include graph with n @include lines of hollow files put at random top-level positions of its files."""
    out = {}
    for rel, host in hosts.items():
        h = list(host)
        up = "../" * rel.count("/")
        for _ in range(n):
            pos = rng.randrange(len(h))
            if h[pos][0] not in ("pre", "body"):
                continue
            h.insert(pos, (h[pos][0], "@include " + up + rng.choice(sorted(HOLLOW_FILES))))
        out[rel] = h
    return dict(out, **HOLLOW_FILES)


def scenarios_for(tier, rng):
    scns = dict(SCENARIOS)
    for v in range(1 if tier == "quick" else 10):
        for name, (entry, hosts) in SCENARIOS.items():
            if tier == "quick" and name == "plain":
                continue
            if tier == "quick" and (name in ("join", "struct", "hollow") or name.startswith("include-first")):
                continue
            scns[f"{name}~{v}"] = (entry, {r: (h if isinstance(h, str) else vary(h, rng, rng.randint(2, 6)))
                                           for r, h in hosts.items()})
    # one kind of hollow file at a time (the quick tier draws two kinds; `hollow` has all of them together)
    kinds = sorted(HOLLOW_KINDS)
    for kind in (rng.sample(kinds, 2) if tier == "quick" else kinds):
        scns[f"hollow-{kind}"] = hollow_one(kind)
    if tier != "quick":
        for v in range(6):
            entry, hosts = SCENARIOS["include"]
            scns[f"include+hollow~{v}"] = (entry, hollow_vary(hosts, rng, rng.randint(1, 3)))
    return scns


# ----------------------------------------------------------------------------------------------
# 1. the site table
# ----------------------------------------------------------------------------------------------

def site_table_step(chk: C.Check):
    rows, problems = S.extract(C.REPO)
    gen_dir = os.path.join(chk.scratch, "gen")
    os.makedirs(gen_dir, exist_ok=True)
    by_cls = {}
    for r in rows:
        by_cls[r["cls"]] = by_cls.get(r["cls"], 0) + 1
    chk.notes["site_table"] = {
        "rows": len(rows), "by_classification": by_cls,
        "distinct_raise_sites": len({(r["file"], r["line"]) for r in rows}),
        "format_error_sites": len({(r["file"], r["line"]) for r in rows if r["kind"] == "format_error"}),
        "exemptions": sorted({f"{r['file']}:{r['function']}:{r['key']} [{r['cls']}] {r['why']}"
                              for r in rows if r["cls"] in S.EXEMPT or r["cls"] == "SDead"}),
        "not_raised_contexts": sorted({f"{r['file']}:{r['function']}:{r['key']} via {'; '.join(r['via'][:2])}"
                                       for r in rows if r["cls"] == "SNotRaised"}),
    }
    for p in problems:
        chk.report("site-extractor:" + S.slug(p, 6), "the site extractor could not read the source: " + p,
                   {"kind": "site", "problem": p})
    if not rows:
        chk.report("site-extractor:empty", "no diagnostic site found in the parser sources", {"kind": "site"})
        return
    known = chk.known_signatures()
    py_bad = [k for k, r in enumerate(rows) if not S.site_ok_py(r)]
    known_idx = [k for k in py_bad if S.signature(rows[k]) in known]
    S.emit_coq(rows, os.path.join(gen_dir, "Gen_C14_sites.v"), known_idx)
    base = ["coqc", "-Q", C.COQ, "Bardic", "-Q", gen_dir, "C14Gen"]
    rc, out = C.sh(base + [os.path.join(gen_dir, "Gen_C14_sites.v")], timeout=600, cwd=gen_dir)
    m = re.search(r"=\s*\[(.*?)\]\s*:\s*list nat", out, re.S)
    mb = re.search(r"=\s*(true|false)\s*:\s*bool", out)
    if rc != 0 or not m or not mb:
        chk.disagree("site-table-coqc", "the generated site table does not compile", {"log": out[-3000:]})
        return
    coq_bad = [int(t) for t in re.findall(r"\d+", m.group(1))]
    if coq_bad != py_bad or (mb.group(1) == "true") != (not coq_bad):
        chk.disagree("site-ok", "Diag.site_ok and the extractor's own predicate differ",
                     {"coq": coq_bad, "python": py_bad})
    chk.notes["site_table"]["forallb_site_ok_site_table"] = mb.group(1)
    chk.notes["site_table"]["failing_rows"] = len(coq_bad)
    for k in coq_bad:
        r = rows[k]
        what = (f"site {r['file']}:{r['line']} in {r['function']} ({r['key']}) is classified {r['cls']}"
                f"{'%+d' % r['off'] if r['off'] and r['cls'] != 'SIndexPlus1' else ''}"
                f"{'' if r['lines_full'] or r['kind'] == 'bare' else ' [lines is not the full list]'}"
                f"{'' if r['has_file'] or r['kind'] == 'bare' else ' [no filename]'}"
                f"{': ' + r['why'] if r['why'] else ''}; reached via {' | '.join(r['via'][:2]) or '-'}")
        chk.report(S.signature(r), what, {"kind": "site", "row": {k2: v for k2, v in r.items()}})
    # the obligation itself, over the table minus the rows that are recorded known findings
    rc2, out2 = C.sh(base + [os.path.join(gen_dir, "Gen_C14_ok.v")], timeout=600, cwd=gen_dir)
    closed = "Closed under the global context" in out2
    chk.notes["site_table"]["obligation"] = {
        "statement": "forallb site_ok checked_table = true  (checked_table = site_table minus "
                     f"{len(known_idx)} row(s) recorded as known findings); finite domain: {len(rows)} rows",
        "discharged": rc2 == 0 and closed}
    unexplained = [k for k in coq_bad if k not in known_idx]
    if rc2 != 0 and not unexplained:
        chk.disagree("site-obligation", "the site-table obligation does not check although no failing row is left",
                     {"log": out2[-3000:]})
    if rc2 == 0 and (unexplained or not closed):
        chk.disagree("site-obligation", "the site-table obligation checked although failing rows are left, or it "
                     "depends on axioms", {"log": out2[-3000:]})
    return rows


# ----------------------------------------------------------------------------------------------
# 3. correspondence of Compiler/Diag.v with the real format_error
# ----------------------------------------------------------------------------------------------

TEXTS = ["", "text", ":: Start", "   3 | x", "^^^", "    --- from a ---", "  lead", "trail  ", "a | b", "{x",
         "         --- from inc.bard ---", "     ^^", "@if x:", "  12 | ", "Hint: no"]
FILES = ["main.bard", "inc.bard", "sub/deep.bard", "", "/abs/a.bard"]
CTX_LINE = re.compile(r"^  ( *-?\d+) \| (.*)$")


def gen_fcase(rng):
    n = rng.choice([0, 1, 2, 3, 4, 5, 6, 8])
    lines = [rng.choice(TEXTS) for _ in range(n)]
    ln = rng.randint(-n - 3, n + 3)
    k = rng.random()
    if k < 0.25:
        lm = None
    elif k < 0.32:
        lm = []
    else:
        m = max(0, n + rng.choice([0, 0, 0, 0, -1, 1, -2, 2]))
        lm, f, num = [], rng.choice(FILES), rng.randint(0, 3)
        for _ in range(m):
            if rng.random() < 0.3:
                f, num = rng.choice(FILES), rng.randint(0, 12)
            lm.append((f, num))
            num += 1
    fname = rng.choice([None, None, "", "main.bard", "dir/story.bard"])
    return {"line_num": ln, "lines": lines, "line_map": lm, "filename": fname,
            "pointer_col": rng.randint(0, 3), "pointer_length": rng.choice([None, 1, 4]),
            "suggestion": rng.choice([None, "a hint"])}


def run_fcase(case):
    """Real format_error -> (file, line, context) read back from the text; None for IndexError."""
    from bardic.compiler.parsing.errors import format_error, SourceLocation
    lm = None if case["line_map"] is None else [SourceLocation(f, n) for f, n in case["line_map"]]
    try:
        msg = format_error("E", case["line_num"], list(case["lines"]), "M", case["pointer_col"],
                           case["pointer_length"], case["suggestion"], case["filename"], lm)
    except IndexError:
        return None
    out = msg.split("\n")
    assert out[0] == "✗ E", out[:2]
    k, file = 1, None
    if out[k].startswith(" in "):
        file = out[k][4:]
        k += 1
    m = re.match(r"^ on line (-?\d+):$", out[k])
    assert m and out[k + 1] == "  M" and out[k + 2] == "", out[:6]
    line = int(m.group(1))
    k += 3
    ctx = []
    while out[k] != "":
        t = out[k]
        mc = CTX_LINE.match(t)
        if mc:
            ctx.append(["line", int(mc.group(1)), mc.group(2), False])
        elif t.startswith("         --- from ") and t.endswith(" ---"):
            ctx.append(["boundary", t[len("         --- from "):-4]])
        elif t.strip() and set(t.strip()) == {"^"} and ctx and ctx[-1][0] == "line":
            ctx[-1][3] = True
        else:
            raise AssertionError("unreadable context line: " + repr(t))
        k += 1
    return file, line, ctx


def fcase_term(case, res):
    def item(c):
        if c[0] == "line":
            return f"(CLine {coq_Z(c[1])} {coq_str(c[2])} {C.coq_bool(c[3])})"
        return f"(CBoundary {coq_str(c[1])})"

    lm = coq_opt(case["line_map"], lambda m: coq_list(f"({coq_str(f)}, {coq_Z(n)})" for f, n in m))
    exp = "None" if res is None else \
        f"(Some ({coq_opt(res[0], coq_str)}, {coq_Z(res[1])}, {coq_list(item(c) for c in res[2])}))"
    return (f"({coq_Z(case['line_num'])}, {coq_list(coq_str(l) for l in case['lines'])}, "
            f"{coq_opt(case['filename'], coq_str)}, {lm}, {exp})")


def run(tier: str, seed: int) -> int:
    chk = C.Check("C14", tier, seed, "proof")
    props = C.coq_gate(chk)
    C.use_repo()
    rng = chk.rng

    # ---- 1. site table ----
    site_table_step(chk)

    # ---- 2. behavioural oracle ----
    scns = scenarios_for(tier, rng)
    orc = Oracle(chk, scns)
    try:
        orc.run_all()
    finally:
        orc.close()
    per_kind = {}
    for (label, outcome), n in sorted(orc.outcomes.items()):
        per_kind.setdefault(label, {})[outcome] = n
    totals = {}
    for d in per_kind.values():
        for o, n in d.items():
            totals[o] = totals.get(o, 0) + n
    chk.notes["oracle"] = {
        "constructs": len(CONSTRUCTS),
        "scenarios": {k: {r: (repr(h) if isinstance(h, str) else len(h)) for r, h in v[1].items()} for k, v in scns.items()},
        "hosts_rejected": orc.hosts_rejected,
        "placements_tried": orc.tried, "outcomes": totals, "per_scenario": orc.by_scn,
        "per_construct_and_context": {k: v for k, v in per_kind.items()
                                      if set(v) - {"accepted", "other-diagnostic"}},
        "never_diagnosed_there": sorted(k for k, v in per_kind.items() if not set(v) - {"accepted", "other-diagnostic"}),
    }

    # ---- 3. correspondence ----
    n_cases = 600 if tier == "quick" else 6000
    terms, cases, dist = [], [], {"index_error": 0, "with_map": 0, "no_map": 0, "pointer_shown": 0, "boundary_shown": 0}
    for i in range(n_cases):
        case = gen_fcase(rng)
        try:
            res = run_fcase(case)
        except AssertionError as e:
            chk.disagree("format-error-text", f"the text returned by format_error could not be read back: {e}",
                         {"case": case})
            continue
        terms.append(fcase_term(case, res))
        cases.append(case)
        if res is None:
            dist["index_error"] += 1
        else:
            dist["with_map" if case["line_map"] else "no_map"] += 1
            dist["pointer_shown"] += any(c[0] == "line" and c[3] for c in res[2])
            dist["boundary_shown"] += any(c[0] == "boundary" for c in res[2])
        if i < 2:
            chk.sample({"kind": "format_error", "case": case, "read_back": res})
    bad, shown, log = C.run_coq_cases(chk.scratch, HEADER, terms, "fcase", "fcase_bad", show_fn="fcase_show")
    for b in bad:
        if isinstance(b, int):
            chk.disagree("format-error", "Compiler/Diag.v and errors.py:format_error differ on a case",
                         {"case": cases[b], "implementation": run_fcase(cases[b]), "model_says": shown.get(b)})
        else:
            chk.disagree("format-error-coqc", "case shard failed to evaluate", {"log": log})
    # ---- pinned witness of F14c (found while proving stmt_site_blamed): Python counts a bare carriage return inside a ~
    # statement as a line break, the compiler splits on "\n" only, and core.py adds Python's line offset without clamping
    # it to the statement: the diagnostic names a line past the statement (here past the end of the 4-line source)
    f14c_src = ":: Start\n~ a = 1" + "\r" * 9 + " b c\nhello\n"
    try:
        with C.quiet():
            from bardic.compiler.compiler import BardCompiler
            BardCompiler().compile_string(f14c_src)
        f14c_line = None
    except SyntaxError as e:
        _, locs = parse_location(str(e), None)
        f14c_line = locs[0][1] if locs else None
    except Exception:  # noqa
        f14c_line = None
    chk.notes["f14c_witness_line"] = f14c_line
    if f14c_line is not None and f14c_line != 2:
        chk.report("construct:stmt-error-line-outside-statement:lone-cr",
                   f"a ~ statement on line 2 holding bare carriage returns is diagnosed on line {f14c_line} (the source has 4 lines)",
                   {"kind": "pinned-witness", "source": f14c_src})

    # ---- the index a site passes IS the line the real compiler names: parser model (for which Props/C14.v proves that
    # the index of every located site is the construct's line) against the real message, inside Coq ----
    from . import diag_index_tie
    diag_index_tie.phase(chk, random.Random(rng.randrange(10 ** 9)), 120 if tier == "quick" else 1500)
    chk.cov["programs"] = orc.tried + len(terms)
    chk.cov["disagreements_checked"] = len(terms)
    chk.cov["disagreements_found"] = len(bad)
    chk.notes["format_error_cases"] = dist
    chk.cov["rule"] = ("oracle cases: (scenario, entry mode, file, insertion position, construct kind); non-trivial = the "
                       "compiler produced the diagnostic of that construct (accepted / other diagnostic are trivial); "
                       "every case is distinct. correspondence cases: random (line_num, lines, filename, line_map) "
                       "through the real format_error, location and context block compared inside Coq")
    chk.assumptions = [
        "line_map is a provenance map for lines (entry i = file and 0-based line of concatenated line i): "
        "C13's conclusion, a hypothesis of diag_names_the_authors_file_and_line",
        "that the index a site holds is the index of the malformed construct is carried by the behavioural "
        "oracle (construct kinds x positions x contexts listed in the evidence), not by a theorem",
        "SSliceIndex rows (base + offset in a block collected line by line from `base`) are index rows "
        "provided the block is contiguous; exercised by the constructs placed in `-> @join` choice blocks",
        "the site extractor's exemptions (listed with reasons under site_table.exemptions) and its reading of "
        "the guard `lines is not None and line_num > 0` are trusted",
    ]
    return chk.finish(props, C.BASE_TRUST + [
        "harness/c14_sites.py: the ast-based classification of every raise site (fail closed: unknown shapes "
        "fail site_ok); entry points parse / parse_file / resolve_includes",
        "modelled: bardic/compiler/parsing/errors.py:format_error (header file/line, context block, pointer line, "
        "boundary annotations); message/suggestion/pointer geometry are not modelled"],
        "make -C /verif/coq && coqc -Q /verif/coq Bardic /verif/coq/Props/C14.v && "
        "coqc -Q /verif/coq Bardic -Q <scratch>/gen C14Gen <scratch>/gen/Gen_C14_ok.v")
