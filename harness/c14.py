"""C14 — a diagnostic names the file and the 1-based line where the malformed construct stands.

Three parts (see DESIGN.md §3 "Generated tables" (a) and §6 C14):
  1. the call-site table: harness/c14_sites.py re-reads the parser sources of the repository under check,
     emits `site_table` as a Coq file and the finite-domain obligation `forallb site_ok site_table = true`
     is re-checked by vm_compute (Props/C14.v turns it into "every site displays the true location");
  2. the behavioural oracle: every diagnosable construct kind on every line position of several valid host
     stories (single file, included file, after included content, nested include); the file and the line are
     parsed out of the message and compared with where the construct was put;
  3. the correspondence of Compiler/Diag.v with the real `format_error` on random inputs.
"""
from __future__ import annotations

import ast
import os
import re
import shutil
import tempfile

from . import common as C
from . import c14_sites as S
from .common import coq_str, coq_Z, coq_list, coq_opt

HEADER = "From Coq Require Import ZArith List String.\nFrom Bardic Require Import Diag DiagCheck."

# ----------------------------------------------------------------------------------------------
# host stories.  Every line is (ctx, text): ctx is the context in which a line INSERTED BEFORE this
# line is parsed: pre (before the first passage), body (top level of a passage), py (inside @py),
# if (inside an @if branch), for (inside a @for body), join (inside the block of a `-> @join` choice).
# The last element gives the context of a line appended at the end.
# ----------------------------------------------------------------------------------------------

HOST_PLAIN = [
    ("pre", ":: Start"),
    ("body", "Welcome to the story."),
    ("body", "~ gold = 10"),
    ("body", "You have {gold} coins."),
    ("body", ""),
    ("body", '+ [Go to the shop] -> Shop("sword")'),
    ("body", "+ [Leave] -> End"),
    ("body", ""),
    ("body", ":: Shop(item, count=1)"),
    ("body", "You look at the {item}."),
    ("body", "-> End"),
    ("body", ""),
    ("body", ":: End"),
    ("body", "The end."),
    ("body", None),
]

HOST_BLOCKS = [
    ("pre", ":: Start"),
    ("body", "@py:"),
    ("py", "hp = 5"),
    ("py", 'items = ["a", "b"]'),
    ("py", "@endpy"),
    ("body", "@if hp > 3:"),
    ("if", "    You feel strong."),
    ("if", "    ~ hp = hp - 1"),
    ("if", "@elif hp > 1:"),
    ("if", "    You feel weak."),
    ("if", "@else:"),
    ("if", "    You feel nothing."),
    ("if", "@endif"),
    ("body", "@for it in items:"),
    ("for", "    Item: {it}"),
    ("for", "    ~ hp = hp + 1"),
    ("for", "@endfor"),
    ("body", "Some text."),
    ("body", "+ [Choose] -> @join"),
    ("join", "    You chose."),
    ("join", "    ~ hp = 1"),
    ("join", "@join"),
    ("body", "After the join."),
    ("body", "+ [Again] -> Start"),
    ("body", "+ [Done] -> End"),
    ("body", ""),
    ("body", ":: Shop(item, count=1)"),
    ("body", "A shop with {item}."),
    ("body", ""),
    ("body", ":: End"),
    ("body", "Bye."),
    ("body", None),
]

MAIN_INC = [
    ("pre", ":: Start"),
    ("body", "Main text."),
    ("body", "+ [Inc] -> IncOne"),
    ("body", "+ [End] -> End"),
    ("body", ""),
    ("body", "@include inc.bard"),
    ("body", "Text after the included content."),
    ("body", ""),
    ("body", ":: Shop(item, count=1)"),
    ("body", "A shop with {item}."),
    ("body", ""),
    ("body", ":: End"),
    ("body", "Fin."),
    ("body", None),
]

INC = [
    ("body", ":: IncOne"),
    ("body", "Included text."),
    ("body", "+ [Back] -> Start"),
    ("body", ""),
    ("body", "@include sub/deep.bard"),
    ("body", ""),
    ("body", ":: IncTwo"),
    ("body", "More text {1 + 1}."),
    ("body", "-> End"),
    ("body", None),
]

DEEP = [
    ("body", ":: Deep"),
    ("body", "Deep text."),
    ("body", "@if True:"),
    ("if", "    Deep branch."),
    ("if", "@endif"),
    ("body", "@for n in [1, 2]:"),
    ("for", "    Deep item {n}."),
    ("for", "@endfor"),
    ("body", "+ [Up] -> IncTwo"),
    ("body", None),
]

# scenario: name -> (entry file, {relative path: host})
SCENARIOS = {
    "plain": ("main.bard", {"main.bard": HOST_PLAIN}),
    "blocks": ("main.bard", {"main.bard": HOST_BLOCKS}),
    "include": ("main.bard", {"main.bard": MAIN_INC, "inc.bard": INC, "sub/deep.bard": DEEP}),
}

# ----------------------------------------------------------------------------------------------
# diagnosable constructs: kind -> (lines to insert, offset of the offending line among them, a fragment
# that identifies the diagnostic as the one of this construct (recognition only; signatures never use it))
# ----------------------------------------------------------------------------------------------

CONSTRUCTS = {
    # malformed choices
    "choice-missing-arrow": (["+ [Go] Start"], 0, "Missing arrow"),
    "choice-missing-open-bracket": (["+ Go] -> Start"], 0, "Missing opening bracket"),
    "choice-missing-close-bracket": (["+ [Go -> Start"], 0, "Missing closing bracket"),
    "choice-unclosed-condition": (["+ {gold [Go] -> Start"], 0, "Unclosed conditional"),
    "choice-empty-text": (["+ [] -> Start"], 0, "Empty choice text"),
    # passage headers
    "passage-bad-name": ([":: Bad-Name", "Text of it."], 0, "is not a valid passage name"),
    "passage-duplicate": ([":: End", "Again."], 0, "Duplicate Passage"),
    "param-required-after-optional": ([":: P2(a=1, b)", "Text."], 0, "cannot follow optional"),
    "param-invalid-name": ([":: P3(1x)", "Text."], 0, "is not a valid parameter name"),
    "param-duplicate": ([":: P4(a, a)", "Text."], 0, "is defined multiple times"),
    "param-keyword": ([":: P5(class)", "Text."], 0, "is a Python keyword"),
    # blocks
    "if-unclosed": (["@if gold > 1:", "    Rich."], 0, "@if block never closed"),
    "for-unclosed": (["@for q in [1]:", "    Q {q}"], 0, "@for block never closed"),
    "py-unclosed": (["@py:", "zz = 1"], 0, "@py block not closed"),
    "endif-colon": (["@if gold > 1:", "    Rich.", "@endif:", "@endif"], 2, "@endif should not have a colon"),
    "endfor-colon": (["@for q in [1]:", "    Q {q}", "@endfor:", "@endfor"], 2, "@endfor should not have a colon"),
    "py-no-colon": (["@py", "zz = 1", "@endpy"], 0, "@py statement missing colon"),
    "if-no-colon": (["@if gold > 1", "    Rich.", "@endif"], 0, "@if statement missing colon"),
    "elif-no-colon": (["@if gold > 1:", "    Rich.", "@elif gold", "    Some.", "@endif"], 2, "@elif statement missing colon"),
    "else-no-colon": (["@if gold > 1:", "    Rich.", "@else", "    Poor.", "@endif"], 2, "@else statement missing colon"),
    "for-no-colon": (["@for q in [1]", "    Q {q}", "@endfor"], 0, "@for statement missing colon"),
    # content lines
    "brace-unclosed": (["Hello {gold and more"], 0, "Unclosed expression"),
    "brace-extra": (["Hello gold} and more"], 0, "without matching"),
    "brace-unclosed-glue": (["Hello {gold and more <>"], 0, "Unclosed expression"),
    # directives
    "render-missing-name": (["@render"], 0, "@render directive missing directive name"),
    "render-bad-framework": (["@render:react"], 0, "Invalid @render:framework syntax"),
    "input-missing-params": (["@input"], 0, "@input directive missing parameters"),
    "input-missing-name": (['@input placeholder="x"'], 0, "missing required 'name' attribute"),
    "hook-arity": (["@hook only_one"], 0, "@hook requires exactly 2 arguments"),
    "unhook-arity": (["@unhook a b c"], 0, "@unhook requires exactly 2 arguments"),
    # python statements
    "tilde-syntax": (["~ zz = = 1"], 0, "Python syntax error"),
    "tilde-syntax-multiline": (["~ zz = [", "    1 2,", "]"], None, "Python syntax error"),
    # includes (only diagnosed by compile_file)
    "include-no-path": (["@include"], 0, "@include directive missing file path"),
    "include-two-files": (["@include a.bard b.bard"], 0, "only include one file"),
    "include-missing-file": (["@include no_such_file.bard"], 0, "Include file not found"),
    "include-circular": (["@include {SELF}"], 0, "Circular include detected"),
    "start-unknown": (["@start Nowhere"], 0, "specified by @start directive not found"),
    "choice-text-brace": (["+ [Take {gold] -> End"], 0, "Unclosed expression"),
    # targets and argument shapes
    "choice-unknown-target": (["+ [Go] -> Nowhere"], 0, "Target passage 'Nowhere' does not exist"),
    "jump-unknown-target": (["-> Nowhere"], 0, "Target passage 'Nowhere' does not exist"),
    "args-to-parameterless": (["+ [Go] -> End(1)"], 0, "takes no parameters"),
    "args-missing-required": (["-> Shop()"], 0, "Missing required parameter"),
    "args-too-many": (["-> Shop(1, 2, 3)"], 0, "takes at most"),
    "args-unknown-keyword": (['-> Shop("a", zzz=1)'], 0, "has no parameter named"),
    "args-malformed": (["-> Shop(1 2)"], 0, "Malformed arguments"),
    "args-duplicate": (['-> Shop("a", item="b")'], 0, "both as positional and keyword"),
}


def tilde_multiline_offset(lines):
    """Where Python itself reports the syntax error of a `~` statement spanning several lines."""
    code = "\n".join([lines[0][2:].strip()] + lines[1:])
    try:
        ast.parse(code)
    except SyntaxError as e:
        return (e.lineno or 1) - 1
    raise AssertionError("the multi-line construct is not a syntax error")


INDENTED_CTX = {"if": "    ", "for": "    ", "join": "    "}


def host_text(host):
    return [t for _, t in host if t is not None]


def place(host, pos, kind, rel="main.bard"):
    """Insert the construct before host line `pos`.
    Returns (new lines, 0-based index of the offending line, ctx, other acceptable indices)."""
    ins, off, _ = CONSTRUCTS[kind]
    ins = [l.replace("{SELF}", os.path.basename(rel)) for l in ins]
    if off is None:
        off = tilde_multiline_offset(ins)
    ctx = host[pos][0]
    ind = INDENTED_CTX.get(ctx, "")
    base = host_text(host)
    new = base[:pos] + [ind + l for l in ins] + base[pos:]
    alt = []
    # an unclosed @if inside an @if (or @for inside @for) leaves the file one closer short: blaming the
    # enclosing opener is as right as blaming the inner one
    if kind in ("if-unclosed", "for-unclosed") and ctx == kind.split("-")[0]:
        opener = "@" + ctx + " "
        for k in range(pos - 1, -1, -1):
            if base[k].strip().startswith(opener):
                alt.append(k)
                break
    return new, pos + off, ctx, alt


def concat(files, entry, depth=0):
    """Independent textual substitution of @include: list of (file, 0-based line, text) of the concatenation."""
    out = []
    here = os.path.dirname(entry)
    for k, line in enumerate(files[entry]):
        s = line.strip()
        if s.startswith("@include") and s[8:].strip() and " " not in s[8:].strip() and depth < 8:
            target = os.path.normpath(os.path.join(here, s[8:].strip()))
            if target in files:
                out.extend(concat(files, target, depth + 1))
                continue
        out.append((entry, k, line))
    return out


LOC_FILE = re.compile(r"^ in (.+)$", re.M)
LOC_LINE = re.compile(r"^ on line (-?\d+):$", re.M)
DUP_LINE = re.compile(r"^    Line\s+(-?\d+)(?: in (.+?))?: ", re.M)


def parse_location(msg, entry_path):
    """(kind, [(file or None, line)]) parsed out of a diagnostic."""
    if msg.startswith("✗ Duplicate Passage Error"):
        return "dup", [(m.group(2) or entry_path, int(m.group(1))) for m in DUP_LINE.finditer(msg)]
    head = msg.split("\n\n", 1)[0]
    ml = LOC_LINE.search(head)
    if not msg.startswith("✗ ") or not ml:
        return "none", []
    mf = LOC_FILE.search(head)
    return "fmt", [(mf.group(1) if mf else None, int(ml.group(1)))]


def same_file(a, b):
    if a is None or b is None:
        return a is b
    return os.path.realpath(a) == os.path.realpath(b)


class Oracle:
    """Runs the real compiler on a placed construct and classifies what the diagnostic says."""

    def __init__(self, chk: C.Check):
        self.chk = chk
        self.root = tempfile.mkdtemp(prefix="bardic_c14_files_")
        self.outcomes = {}          # (kind@ctx, outcome) -> count
        self.by_scn = {}
        self.tried = 0

    def close(self):
        shutil.rmtree(self.root, ignore_errors=True)

    def write(self, files):
        for rel, lines in files.items():
            p = os.path.join(self.root, rel)
            os.makedirs(os.path.dirname(p), exist_ok=True)
            with open(p, "w", encoding="utf-8") as f:
                f.write("\n".join(lines) + "\n")

    def compile(self, mode, files, entry):
        from bardic.compiler.compiler import BardCompiler
        from bardic.compiler.parser import parse
        try:
            with C.quiet():
                if mode == "string":
                    BardCompiler().compile_string("\n".join(files[entry]) + "\n")
                elif mode == "parse-named":
                    parse("\n".join(files[entry]) + "\n", filename=entry)
                else:
                    BardCompiler().compile_file(os.path.join(self.root, entry),
                                                os.path.join(self.root, "out.json"))
        except (SyntaxError, ValueError, FileNotFoundError) as e:
            return type(e).__name__, str(e)
        except Exception as e:  # noqa  anything else is not a diagnostic
            return "crash:" + type(e).__name__, str(e)
        return None, ""

    def one(self, scn, mode, rel, pos, kind):
        entry, hosts = SCENARIOS[scn]
        files = {r: host_text(h) for r, h in hosts.items()}
        new, idx, ctx, alt = place(hosts[rel], pos, kind, rel)
        files[rel] = new
        if mode == "file":
            self.write({rel: new})
        try:
            exc, msg = self.compile(mode, files, entry)
        finally:
            if mode == "file":
                self.write({rel: host_text(hosts[rel])})
        label = kind if ctx == "body" else f"{kind}@{ctx}"
        self.tried += 1
        frag = CONSTRUCTS[kind][2]
        if exc is None:
            return self.tally(scn, label, "accepted")
        if exc.startswith("crash:"):
            self.tally(scn, label, "crash")
            self.chk.report(f"construct:{label}:crash", f"{kind} in {rel} line {idx + 1} ({scn}/{mode}): the compiler "
                            f"raised {exc[6:]} instead of a diagnostic: {msg[:120]}",
                            self.replay(scn, mode, rel, pos, kind, files, msg))
            return
        if frag not in msg:
            return self.tally(scn, label, "other-diagnostic")
        # where does the construct truly stand?
        entry_path = os.path.join(self.root, entry) if mode == "file" else (entry if mode == "parse-named" else None)
        true_file = os.path.join(self.root, rel) if mode == "file" else entry_path
        true_line = idx + 1
        how, locs = parse_location(msg, entry_path)
        if how == "none" or not locs:
            self.tally(scn, label, "no-line")
            self.chk.report(f"construct:{label}:no-line",
                            f"{kind} placed in {rel} line {true_line} ({scn}/{mode}, context {ctx}): the diagnostic "
                            f"names no line: {msg.splitlines()[0][:140]!r}",
                            self.replay(scn, mode, rel, pos, kind, files, msg))
            return
        if any(l in [true_line] + [a + 1 for a in alt] and same_file(f, true_file) for f, l in locs):
            return self.tally(scn, label, "correct")
        # classify the error by structure: what would the NEXT line of the concatenation be?
        f0, l0 = locs[-1] if how == "dup" else locs[0]
        cat = concat({r: v for r, v in files.items()}, entry) if mode == "file" else \
            [(entry, k, t) for k, t in enumerate(files[entry])]
        at = [n for n, (fr, k, _) in enumerate(cat) if fr == rel and k == idx]
        cls = None
        if at:
            n = at[0]
            if n + 1 < len(cat):
                nf, nk, _ = cat[n + 1]
                nxt_file = os.path.join(self.root, nf) if mode == "file" else entry_path
                if l0 == nk + 1 and same_file(f0, nxt_file):
                    cls = "off-by-one"
            if cls is None and l0 == n + 2 and same_file(f0, entry_path):
                cls = "off-by-one"          # past the end of the line map: concatenated number + 1
        if cls is None and ctx == "for":
            cls = "sublist-index"
        if cls is None and not same_file(f0, true_file):
            cls = "wrong-file"
        if cls is None:
            cls = "off-by-one" if l0 == true_line + 1 else "wrong-line"
        self.tally(scn, label, cls + ("+wrong-file" if cls == "off-by-one" and not same_file(f0, true_file) else ""))
        shown = f"{os.path.relpath(f0, self.root) if f0 and mode == 'file' else f0} line {l0}"
        self.chk.report(f"construct:{label}:{cls}",
                        f"{kind} placed in {rel} line {true_line} ({scn}/{mode}, context {ctx}) is reported at {shown}",
                        self.replay(scn, mode, rel, pos, kind, files, msg))

    def tally(self, scn, label, outcome):
        self.outcomes[(label, outcome)] = self.outcomes.get((label, outcome), 0) + 1
        d = self.by_scn.setdefault(scn, {})
        d[outcome] = d.get(outcome, 0) + 1
        self.chk.count((scn, label, outcome, self.tried), outcome not in ("accepted", "other-diagnostic"))

    def replay(self, scn, mode, rel, pos, kind, files, msg):
        return {"kind": "construct", "scenario": scn, "mode": mode, "file": rel, "position": pos,
                "construct": kind, "files": files, "message": msg[:1500]}

    def run_all(self, tier):
        for scn, (entry, hosts) in SCENARIOS.items():
            modes = ["file"] if len(hosts) > 1 else ["string", "parse-named", "file"]
            self.write({r: host_text(h) for r, h in hosts.items()})
            for mode in modes:
                for rel, host in hosts.items():
                    if mode != "file" and rel != entry:
                        continue
                    for pos in range(len(host)):
                        for kind in CONSTRUCTS:
                            if kind.startswith("include-") and mode != "file":  # only resolve_includes sees them
                                continue
                            self.one(scn, mode, rel, pos, kind)
            for rel in hosts:
                os.remove(os.path.join(self.root, rel))


def run(tier: str, seed: int) -> int:
    raise NotImplementedError
