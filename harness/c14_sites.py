"""C14 site table: every place in bardic/compiler/parsing/*.py that raises a diagnostic, read with `ast`
from the repository under check on every run, and what it hands to `format_error` as `line_num`, classified
relative to "the 0-based index, in the list `lines` given to format_error, of the offending line".

Fail closed: a shape that is not recognised is classified `SUnknown` (site_ok = false).

How an expression is classified (abstract values, per function and per calling context):
  * a name `v` is an index of list `L` when the function contains `L[v]`, `for v, _ in enumerate(L)`, or
    `a = v` where `a` is an index of `L`;
  * a list is *full* when it is `<x>.split("\\n")` of the source (aligned with the line map) or a parameter bound
    to a full list by the caller; *sub* when it is the result of `detect_and_strip_indentation(...)`;
  * a parameter that is not itself an index in the function is whatever the callers pass (all call sites inside
    the package are followed, transitively, from the entry points parse / parse_file / resolve_includes);
  * `p + j` with p an index of a full list and j an index of a dedented sub-list is a *slice index*;
  * `(e.lineno - 1 if e.lineno else 0)` moves the offending line and the value together (no offset);
  * a guard `if lines is not None and line_num > 0` around the raise is evaluated in the context: when it is
    false the site shows no location there (SNone when an un-located raise is the fallback, SNotRaised when
    nothing is raised at all); when `> 0` cannot be shown (a 0-based value into the 1-based parameter) the
    class is SZeroGuard.
Raises that do not go through format_error are sites as well (SBare) unless one of the stated exemptions
applies (each exemption carries its reason and, where possible, a condition re-checked on the source).
"""
from __future__ import annotations

import ast
import os
import re

ENTRY_POINTS = ("parse", "parse_file", "resolve_includes")
SKIP_FILES = set()
FE_PARAMS = ["error_type", "line_num", "lines", "message", "pointer_col", "pointer_length", "suggestion",
             "filename", "line_map"]


def slug(text: str, words=8) -> str:
    ws = re.findall(r"[A-Za-z0-9@]+", text.lower())
    return "-".join(ws[:words]) or "x"


def const_text(node) -> str:
    """The constant text of a string expression (f-string holes dropped); '' when there is none."""
    if isinstance(node, ast.Constant) and isinstance(node.value, str):
        return node.value
    if isinstance(node, ast.JoinedStr):
        return " ".join(const_text(v) for v in node.values if isinstance(v, ast.Constant))
    if isinstance(node, ast.BinOp) and isinstance(node.op, ast.Add):
        return const_text(node.left) + " " + const_text(node.right)
    if isinstance(node, ast.Call) and isinstance(node.func, ast.Attribute) and node.func.attr == "join":
        return ""
    return ""


class Fn:
    def __init__(self, module, qual, node, cls=None):
        self.module, self.qual, self.node, self.cls = module, qual, node, cls
        a = node.args
        self.params = [x.arg for x in a.posonlyargs + a.args]
        if cls and self.params and self.params[0] == "self":
            self.params = self.params[1:]
        defaults = a.defaults
        self.defaults = {}
        allp = [x.arg for x in a.posonlyargs + a.args]
        for name, d in zip(allp[len(allp) - len(defaults):], defaults):
            self.defaults[name] = d
        for x, d in zip(a.kwonlyargs, a.kw_defaults):
            self.params.append(x.arg)
            if d is not None:
                self.defaults[x.arg] = d
        self.parent = {}
        for p in ast.walk(node):
            for c in ast.iter_child_nodes(p):
                self.parent[c] = p
        self.assigned = {}      # name -> list of value exprs (None for non-simple assignment)
        self.unpacked = {}      # name -> (callee name, position) for `a, b = f(...)`
        self.index_of = {}      # name -> set of list names
        self.zip_index = []     # (index name, list of (index, line) pairs, list zipped with it)
        self.scan()

    @property
    def name(self):
        return self.qual.split(":")[1].split(".")[-1]

    def scan(self):
        for n in ast.walk(self.node):
            if isinstance(n, ast.Assign):
                for t in n.targets:
                    if isinstance(t, ast.Name):
                        self.assigned.setdefault(t.id, []).append(n.value)
                    else:
                        for e in ast.walk(t):
                            if isinstance(e, ast.Name):
                                self.assigned.setdefault(e.id, []).append(None)
                        if (isinstance(t, ast.Tuple) and isinstance(n.value, ast.Call)
                                and isinstance(n.value.func, ast.Name)):
                            for pos, e in enumerate(t.elts):
                                if isinstance(e, ast.Name):
                                    self.unpacked.setdefault(e.id, []).append((n.value.func.id, pos))
            elif isinstance(n, (ast.AugAssign, ast.AnnAssign)):
                if isinstance(n.target, ast.Name):
                    self.assigned.setdefault(n.target.id, []).append(None)
            elif isinstance(n, (ast.For, ast.comprehension)):
                for e in ast.walk(n.target):
                    if isinstance(e, ast.Name):
                        self.assigned.setdefault(e.id, []).append(None)
                it = n.iter
                if (isinstance(it, ast.Call) and isinstance(it.func, ast.Name) and it.func.id == "enumerate"
                        and it.args and isinstance(it.args[0], ast.Name)
                        and isinstance(n.target, ast.Tuple) and isinstance(n.target.elts[0], ast.Name)):
                    self.index_of.setdefault(n.target.elts[0].id, set()).add(it.args[0].id)
                # `K = [(j, l) for j, l in enumerate(L) if ...]` ... `X = detect_and_strip_indentation([l for _, l in K])`
                # ... `for (j, _), line in zip(K, X)`: X holds the (dedented) lines of L that pass the filter and j is the
                # position of `line` in L, i.e. relative to the extracted block - classified like an index of the dedented
                # sub-list X (what it was before comment lines were taken out of the dedent)
                if (isinstance(n, ast.For) and isinstance(it, ast.Call) and isinstance(it.func, ast.Name) and it.func.id == "zip"
                        and len(it.args) == 2 and all(isinstance(a, ast.Name) for a in it.args)
                        and isinstance(n.target, ast.Tuple) and len(n.target.elts) == 2
                        and isinstance(n.target.elts[0], ast.Tuple) and isinstance(n.target.elts[0].elts[0], ast.Name)):
                    self.zip_index.append((n.target.elts[0].elts[0].id, it.args[0].id, it.args[1].id))
            elif isinstance(n, ast.Subscript) and isinstance(n.value, ast.Name):
                s = n.slice
                if isinstance(s, ast.Name):
                    self.index_of.setdefault(s.id, set()).add(n.value.id)
        for j, kname, xname in self.zip_index:
            kv = self.assigned.get(kname, [])
            xv = self.assigned.get(xname, [])
            ok = (len(kv) == 1 and isinstance(kv[0], ast.ListComp) and len(kv[0].generators) == 1
                  and isinstance(kv[0].elt, ast.Tuple) and isinstance(kv[0].elt.elts[0], ast.Name)
                  and isinstance(kv[0].generators[0].iter, ast.Call)
                  and getattr(kv[0].generators[0].iter.func, "id", "") == "enumerate"
                  and isinstance(kv[0].generators[0].target, ast.Tuple)
                  and isinstance(kv[0].generators[0].target.elts[0], ast.Name)
                  and kv[0].generators[0].target.elts[0].id == kv[0].elt.elts[0].id
                  and len(xv) == 1 and isinstance(xv[0], ast.Call)
                  and getattr(xv[0].func, "id", "") == "detect_and_strip_indentation"
                  and len(xv[0].args) == 1 and isinstance(xv[0].args[0], ast.ListComp)
                  and isinstance(xv[0].args[0].generators[0].iter, ast.Name)
                  and xv[0].args[0].generators[0].iter.id == kname)
            if ok:
                self.index_of[j] = {xname}
        changed = True
        while changed:          # a = b where a is an index of L makes b an index of L
            changed = False
            for a, vals in self.assigned.items():
                for v in vals:
                    if isinstance(v, ast.Name) and a in self.index_of:
                        before = set(self.index_of.get(v.id, set()))
                        self.index_of.setdefault(v.id, set()).update(self.index_of[a])
                        if self.index_of[v.id] != before:
                            changed = True


class Extractor:
    def __init__(self, repo):
        self.repo = repo
        self.dir = os.path.join(repo, "bardic", "compiler", "parsing")
        self.fns = {}           # qual -> Fn   (qual = module:func or module:Class.method)
        self.by_name = {}       # simple name -> [qual]
        self.problems = []
        for f in sorted(os.listdir(self.dir)):
            if not f.endswith(".py") or f in SKIP_FILES:
                continue
            tree = ast.parse(open(os.path.join(self.dir, f), encoding="utf-8").read(), filename=f)
            for n in tree.body:
                if isinstance(n, (ast.FunctionDef, ast.AsyncFunctionDef)):
                    self.add(Fn(f, f"{f}:{n.name}", n))
                elif isinstance(n, ast.ClassDef):
                    for m in n.body:
                        if isinstance(m, (ast.FunctionDef, ast.AsyncFunctionDef)):
                            self.add(Fn(f, f"{f}:{n.name}.{m.name}", m, cls=n.name))
                else:
                    for e in ast.walk(n):
                        if isinstance(e, ast.Raise) or (isinstance(e, ast.Call) and self.callee_name(e) == "format_error"):
                            self.problems.append(f"{f}:{getattr(e, 'lineno', 0)}: diagnostic outside a function")
        self.outside_calls()
        self.calls = {q: self.find_calls(fn) for q, fn in self.fns.items()}   # qual -> [(callee qual, Call)]
        self.callers = {}
        for q, cs in self.calls.items():
            for g, call in cs:
                self.callers.setdefault(g, []).append((q, call))
        self.contexts = {}      # qual -> {ctxkey: (bindings dict, set of via chains)}
        self.propagate()

    def outside_calls(self):
        """format_error used anywhere else in the package would be a site this table does not see."""
        top = os.path.join(self.repo, "bardic")
        for root, dirs, files in os.walk(top):
            dirs[:] = [d for d in dirs if d not in ("pyodide", "__pycache__", "node_modules")]
            if os.path.realpath(root) == os.path.realpath(self.dir):
                continue
            for f in files:
                if not f.endswith(".py"):
                    continue
                p = os.path.join(root, f)
                try:
                    tree = ast.parse(open(p, encoding="utf-8").read())
                except (SyntaxError, UnicodeDecodeError):
                    continue
                for n in ast.walk(tree):
                    if isinstance(n, ast.Call) and self.callee_name(n) == "format_error":
                        self.problems.append(f"{os.path.relpath(p, self.repo)}:{n.lineno}: format_error called "
                                             "outside bardic/compiler/parsing")

    def add(self, fn):
        self.fns[fn.qual] = fn
        self.by_name.setdefault(fn.name, []).append(fn.qual)

    @staticmethod
    def callee_name(call):
        if isinstance(call.func, ast.Name):
            return call.func.id
        if isinstance(call.func, ast.Attribute):
            return call.func.attr
        return None

    def find_calls(self, fn):
        out = []
        for n in ast.walk(fn.node):
            if isinstance(n, ast.Call):
                nm = self.callee_name(n)
                if nm in self.by_name:
                    quals = self.by_name[nm]
                    if isinstance(n.func, ast.Attribute):
                        quals = [q for q in quals if self.fns[q].cls]
                        if isinstance(n.func.value, ast.Name) and n.func.value.id in ("re", "str", "os", "ast"):
                            quals = []
                    else:
                        quals = [q for q in quals if not self.fns[q].cls]
                    if len(quals) > 1:
                        self.problems.append(f"{fn.qual}: call to {nm} is ambiguous")
                    for q in quals[:1]:
                        out.append((q, n))
        return out

    # ---- abstract evaluation ----
    def list_class(self, fn, name, ctx):
        if name in fn.params and not fn.assigned.get(name):
            v = ctx.get(name, ("unknown", name))
            return v[1] if v[0] == "list" else ("none" if v[0] == "none" else "unknown")
        vals = fn.assigned.get(name, [])
        if len(vals) == 1 and isinstance(vals[0], ast.Call):
            c = vals[0]
            if (isinstance(c.func, ast.Attribute) and c.func.attr == "split" and len(c.args) == 1
                    and isinstance(c.args[0], ast.Constant) and c.args[0].value == "\n"):
                return "full"
            if isinstance(c.func, ast.Name) and c.func.id == "detect_and_strip_indentation":
                return "sub"
            # f(<x>.split("\n")) where f is checked (syntactically, below) to return a list with one
            # entry per input line in the same order: still aligned with the line map
            if (isinstance(c.func, ast.Name) and len(c.args) == 1 and isinstance(c.args[0], ast.Call)
                    and isinstance(c.args[0].func, ast.Attribute) and c.args[0].func.attr == "split"
                    and len(c.args[0].args) == 1 and isinstance(c.args[0].args[0], ast.Constant)
                    and c.args[0].args[0].value == "\n" and self.is_linewise(c.func.id)):
                return "full"
        return "unknown"

    def is_linewise(self, fname):
        """True when function `fname` provably returns `out` with `out = list(<its parameter>)` and only
        element assignments `out[i] = ...` in between (no append/insert/pop/remove/extend/del/slicing)."""
        cands = [f for q, f in self.fns.items() if q.split(":")[1] == fname and not f.cls]
        if len(cands) != 1:
            return False
        node = cands[0].node
        params = [a.arg for a in node.args.args]
        if len(params) != 1:
            return False
        out = None
        for n in ast.walk(node):
            if isinstance(n, ast.Assign) and len(n.targets) == 1 and isinstance(n.targets[0], ast.Name):
                v = n.value
                if (isinstance(v, ast.Call) and isinstance(v.func, ast.Name) and v.func.id == "list"
                        and len(v.args) == 1 and isinstance(v.args[0], ast.Name) and v.args[0].id == params[0]):
                    if out is not None:
                        return False
                    out = n.targets[0].id
        if out is None:
            return False
        rets = [n for n in ast.walk(node) if isinstance(n, ast.Return)]
        if not rets or not all(isinstance(r.value, ast.Name) and r.value.id == out for r in rets):
            return False
        for n in ast.walk(node):
            if isinstance(n, ast.Assign):
                for t in n.targets:
                    if isinstance(t, ast.Name) and t.id == out and not (isinstance(n.value, ast.Call) and getattr(n.value.func, "id", "") == "list"):
                        return False
                    if isinstance(t, ast.Subscript) and isinstance(t.value, ast.Name) and t.value.id == out and isinstance(t.slice, ast.Slice):
                        return False
            if isinstance(n, (ast.AugAssign, ast.Delete)):
                tg = [n.target] if isinstance(n, ast.AugAssign) else n.targets
                for t in tg:
                    if any(isinstance(x, ast.Name) and x.id == out for x in ast.walk(t)):
                        return False
            if (isinstance(n, ast.Call) and isinstance(n.func, ast.Attribute) and isinstance(n.func.value, ast.Name)
                    and n.func.value.id == out and n.func.attr in ("append", "insert", "pop", "remove", "extend", "clear", "sort", "reverse")):
                return False
        return True

    @staticmethod
    def is_pyerr(e):
        return (isinstance(e, ast.IfExp) and isinstance(e.test, ast.Attribute) and e.test.attr == "lineno"
                and isinstance(e.body, ast.BinOp) and isinstance(e.body.op, ast.Sub)
                and isinstance(e.body.left, ast.Attribute) and e.body.left.attr == "lineno"
                and isinstance(e.body.right, ast.Constant) and e.body.right.value == 1
                and isinstance(e.orelse, ast.Constant) and e.orelse.value == 0)

    def ev(self, fn, e, ctx, depth=0):
        """Abstract value of expression e inside fn under the context."""
        if e is None:
            return ("absent",)
        if isinstance(e, ast.Constant):
            if e.value is None:
                return ("none",)
            if isinstance(e.value, bool):
                return ("opaque",)
            if isinstance(e.value, int):
                return ("const", e.value)
            return ("opaque",)
        if self.is_pyerr(e):
            return ("pyerr",)
        if isinstance(e, ast.Name):
            nm = e.id
            if nm in fn.index_of:
                ls = fn.index_of[nm]
                if len(ls) == 1:
                    lc = self.list_class(fn, next(iter(ls)), ctx)
                    if lc in ("full", "sub"):
                        return ("idx", lc, 0, False)
                    return ("unknown", f"{nm} indexes a list of unknown origin")
                return ("unknown", f"{nm} indexes several lists")
            if nm in fn.params and not fn.assigned.get(nm):
                v = ctx.get(nm, ("unknown", nm))
                return ("map",) if v == ("root", "line_map") else v
            if fn.unpacked.get(nm) == [("resolve_includes", 1)] and len(fn.assigned.get(nm, [])) == 1:
                return ("map",)         # the line map produced together with the concatenated source
            lc = self.list_class(fn, nm, ctx)
            if lc in ("full", "sub"):
                return ("list", lc)
            vals = fn.assigned.get(nm, [])
            if len(vals) == 1 and vals[0] is not None and depth < 4:
                return self.ev(fn, vals[0], ctx, depth + 1)
            if nm in fn.params or vals:
                return ("opaque",)
            return ("unknown", nm)
        if (isinstance(e, ast.Call) and isinstance(e.func, ast.Name) and e.func.id in ("min", "max") and not e.keywords
                and any(self.ev(fn, a_, ctx, max(depth - 1, 0)) == ("pyerr",) for a_ in e.args)):
            # Python's line offset inside a multi-line statement, clamped (max(off, 0), min(off, lines_consumed - 1)): still
            # an offset that moves the offending line and the reported value together, and it stays inside the statement
            return ("pyerr",)
        if isinstance(e, ast.BinOp) and isinstance(e.op, (ast.Add, ast.Sub)):
            a, b = self.ev(fn, e.left, ctx, depth + 1), self.ev(fn, e.right, ctx, depth + 1)
            sign = 1 if isinstance(e.op, ast.Add) else -1
            if b[0] == "const" and a[0] in ("idx", "slice"):
                k = a[-2] + sign * b[1]
                if abs(k) > 8:
                    return ("unknown", "offset grows")
                return a[:-2] + (k, a[-1])
            if a[0] == "const" and b[0] == "const":
                return ("const", a[1] + sign * b[1])
            if sign == 1 and a[0] == "const" and b[0] in ("idx", "slice"):
                return b[:-2] + (b[-2] + a[1], b[-1])
            if sign == 1 and b[0] == "pyerr" and a[0] in ("idx", "slice"):
                return a[:-1] + (True,)
            if sign == 1 and a[0] == "idx" and b[0] == "idx" and a[1] == "full" and b[1] == "sub":
                return ("slice", a[2] + b[2], a[3] or b[3])
            return ("unknown", "arithmetic on " + a[0] + "/" + b[0])
        return ("opaque",)

    def bind(self, caller, call, callee, ctx):
        b = {}
        params = callee.params
        for k, a in enumerate(call.args):
            if isinstance(a, ast.Starred) or k >= len(params):
                return None
            b[params[k]] = self.ev(caller, a, ctx)
        for kw in call.keywords:
            if kw.arg is None:
                return None
            b[kw.arg] = self.ev(caller, kw.value, ctx)
        for p in params:
            if p not in b:
                b[p] = self.ev(callee, callee.defaults[p], {}) if p in callee.defaults else ("unknown", "missing " + p)
        # private bookkeeping parameters (recursion depth counters such as _depth) never reach a line_num
        # argument; their numeric value would make the set of contexts infinite: abstract them
        for p in list(b):
            if p.startswith("_") and b[p][0] == "const":
                b[p] = ("opaque",)
        return b

    def propagate(self):
        work = []
        for q, fn in self.fns.items():
            if fn.name in ENTRY_POINTS and not fn.cls:
                b = {p: ("root", p) for p in fn.params}
                self.contexts.setdefault(q, {})[self.key(b)] = (b, {fn.name})
                work.append((q, b, fn.name))
        steps = 0
        while work:
            steps += 1
            if steps > 5000:
                self.problems.append("context propagation did not converge")
                break
            q, ctx, via = work.pop()
            fn = self.fns[q]
            for g, call in self.calls[q]:
                callee = self.fns[g]
                b = self.bind(fn, call, callee, ctx)
                if b is None:
                    self.problems.append(f"{q}:{call.lineno}: call to {g} with * or too many arguments")
                    continue
                k = self.key(b)
                chain = via + ">" + callee.name
                slot = self.contexts.setdefault(g, {})
                if k not in slot:
                    slot[k] = (b, {chain})
                    work.append((g, b, chain))
                elif len(slot[k][1]) < 4 and chain.count(">") <= 4:
                    slot[k][1].add(chain)

    @staticmethod
    def key(b):
        return tuple(sorted((k, v) for k, v in b.items()))

    # ---- guards ----
    def guard(self, fn, node, ctx):
        """Evaluate the enclosing `if` tests the raise sits under. Returns ('true'|'false'|'zero', if-node)."""
        res, where = "true", None
        cur = node
        while cur in fn.parent:
            par = fn.parent[cur]
            if isinstance(par, ast.If) and cur in par.body:
                tests = par.test.values if isinstance(par.test, ast.BoolOp) and isinstance(par.test.op, ast.And) \
                    else [par.test]
                for t in tests:
                    if not (isinstance(t, ast.Compare) and len(t.ops) == 1):
                        continue
                    left, op, right = t.left, t.ops[0], t.comparators[0]
                    if isinstance(op, ast.IsNot) and isinstance(right, ast.Constant) and right.value is None:
                        v = self.ev(fn, left, ctx)
                        if v[0] == "none":
                            return "false", par
                    elif isinstance(op, ast.Gt) and isinstance(right, ast.Constant) and right.value == 0:
                        v = self.ev(fn, left, ctx)
                        if v[0] == "const" and v[1] <= 0:
                            return "false", par
                        if v[0] in ("idx", "slice") and v[-2] <= 0:
                            res, where = "zero", par
            cur = par
        return res, where

    # ---- sites ----
    def reachable(self):
        return set(self.contexts)

    def fe_args(self, call):
        d = {}
        for k, a in enumerate(call.args):
            if k < len(FE_PARAMS):
                d[FE_PARAMS[k]] = a
        for kw in call.keywords:
            if kw.arg:
                d[kw.arg] = kw.value
        return d

    def converted_by_callers(self, q):
        """Every in-package call of q sits in a try whose handler catches ValueError (the caller re-raises
        through its own site)."""
        cs = self.callers.get(q, [])
        if not cs:
            return False
        for caller_q, call in cs:
            fn = self.fns[caller_q]
            cur, ok = call, False
            while cur in fn.parent:
                par = fn.parent[cur]
                if isinstance(par, ast.Try) and cur in par.body:
                    for h in par.handlers:
                        names = [n.id for n in ast.walk(h.type) if isinstance(n, ast.Name)] \
                            if h.type is not None else ["ValueError"]
                        if "ValueError" in names or "Exception" in names:
                            ok = True
                cur = par
            if not ok:
                return False
        return True

    @staticmethod
    def converted_locally(fn, raise_node, exc_name):
        """The raise stands (at any depth, handlers of inner `try`s included) in the BODY of a `try` of the same
        function whose first handler naming the raised class (or Exception) ends in raising a new exception:
        the raised object never leaves the function, what the author sees is that handler's own site."""
        cur = raise_node
        while cur in fn.parent:
            par = fn.parent[cur]
            if isinstance(par, (ast.FunctionDef, ast.AsyncFunctionDef, ast.Lambda, ast.ClassDef)):
                break
            if isinstance(par, ast.Try) and any(cur is b for b in par.body):
                for h in par.handlers:
                    names = [n.id for n in ast.walk(h.type) if isinstance(n, ast.Name)] if h.type is not None \
                        else ["BaseException"]
                    if exc_name in names or "Exception" in names or "BaseException" in names:
                        last = h.body[-1]
                        return isinstance(last, ast.Raise) and last.exc is not None
            cur = par
        return False

    def exemption(self, fn, raise_node, key):
        """Stated exemptions for raises that do not go through format_error: (class, reason) or None."""
        nm = fn.qual.split(":")[1]
        exc = raise_node.exc
        exc_name = self.callee_name(exc) if isinstance(exc, ast.Call) else None
        # the un-located fallback of a guarded format_error site: accounted for by that site's SNone contexts
        par = fn.parent.get(raise_node)
        while par is not None and not isinstance(par, ast.If):
            par = fn.parent.get(par)
        if isinstance(par, ast.If) and raise_node in par.orelse and any(
                isinstance(c, ast.Call) and self.callee_name(c) == "format_error" for b in par.body for c in ast.walk(b)):
            return "SFallback", "fallback of the guarded format_error site above it (counted there, per context)"
        if exc_name == "ValueError" and self.converted_by_callers(fn.qual):
            return "SConverted", "every caller catches it and re-raises through its own site"
        if exc_name and self.converted_locally(fn, raise_node, exc_name):
            return "SConverted", ("caught by an enclosing try of the same function, whose handler re-raises through "
                                  "its own site")
        if nm == "check_duplicate_passages":
            return "SOwnFormat", ("builds its own 'Line N in file' entries from the line map; checked by the "
                                  "behavioural oracle (passage-duplicate)")
        if nm == "_determine_initial_passage" and key.startswith("story-has-no-passages"):
            return "SNoConstruct", "an empty story has no line to name"
        if nm == "extract_python_block" and "called-on-non-python-line" in key:
            return "SInternal", "internal precondition; both branches above it cover every caller's test"
        if nm.startswith("BlockStack.") and not self.callers.get("validation.py:BlockStack.push"):
            return "SDead", "BlockStack.push has no call site, so the stack is always empty"
        return None

    def sites(self):
        rows = []
        for q, fn in sorted(self.fns.items()):
            ctxs = self.contexts.get(q)
            fe_calls = [n for n in ast.walk(fn.node) if isinstance(n, ast.Call) and self.callee_name(n) == "format_error"]
            raises = [n for n in ast.walk(fn.node) if isinstance(n, ast.Raise)]
            fe_in_raise = set()
            for r in raises:
                for c in ast.walk(r):
                    if c in fe_calls:
                        fe_in_raise.add(c)
            seen_keys = {}

            def uniq(key):
                seen_keys[key] = seen_keys.get(key, 0) + 1
                return key if seen_keys[key] == 1 else f"{key}#{seen_keys[key]}"

            for call in sorted(fe_calls, key=lambda c: c.lineno):
                a = self.fe_args(call)
                msg = const_text(a.get("message")) if a.get("message") is not None else ""
                et = const_text(a.get("error_type")) if a.get("error_type") is not None else ""
                key = uniq(slug(msg) if slug(msg) != "x" else slug(et))
                base = dict(file=fn.module, function=fn.qual.split(":")[1], line=call.lineno, key=key, kind="format_error")
                if call not in fe_in_raise:
                    rows.append(dict(base, cls="SUnknown", off=0, lines_full=False, has_map=False, has_file=False,
                                     via=[], why="format_error result is not raised directly"))
                    continue
                if not ctxs:
                    rows.append(dict(base, cls="SDead", off=0, lines_full=False, has_map=False, has_file=False,
                                     via=[], why="function not reachable from parse/parse_file/resolve_includes"))
                    continue
                merged = {}
                for b, vias in ctxs.values():
                    row = self.classify(fn, call, a, b)
                    k = (row["cls"], row["off"], row["lines_full"], row["has_map"], row["has_file"], row["why"])
                    if k not in merged:
                        merged[k] = dict(base, **row, via=set())
                    merged[k]["via"].update(vias)
                for r in merged.values():
                    r["via"] = sorted(r["via"])[:4]
                    rows.append(r)
            for r in sorted(raises, key=lambda c: c.lineno):
                if any(c in fe_calls for c in ast.walk(r)):
                    continue
                exc = r.exc
                if exc is None:
                    continue        # bare re-raise
                txt = ""
                if isinstance(exc, ast.Call) and exc.args:
                    txt = const_text(exc.args[0])
                ename = self.callee_name(exc) if isinstance(exc, ast.Call) else "raise"
                key = uniq(slug(txt) if slug(txt) != "x" else slug(str(ename)))
                base = dict(file=fn.module, function=fn.qual.split(":")[1], line=r.lineno, key=key, kind="bare",
                            off=0, lines_full=False, has_map=False, has_file=False, via=[])
                ex = self.exemption(fn, r, key)
                if ex:
                    rows.append(dict(base, cls=ex[0], why=ex[1]))
                elif not ctxs:
                    rows.append(dict(base, cls="SDead", why="function not reachable from parse/parse_file/resolve_includes"))
                else:
                    rows.append(dict(base, cls="SBare", why=f"raise {ename}(...) without format_error: no file, no line",
                                     via=sorted({v for _, vs in ctxs.values() for v in vs})[:4]))
        return rows

    def classify(self, fn, call, a, ctx):
        ln = self.ev(fn, a.get("line_num"), ctx)
        ls = self.ev(fn, a.get("lines"), ctx)
        lm = self.ev(fn, a.get("line_map"), ctx)
        fl = self.ev(fn, a.get("filename"), ctx)
        has_map = lm == ("map",)
        has_file = fl[0] not in ("none", "absent", "unknown")
        lines_cls = ls[1] if ls[0] == "list" else ls[0]
        row = dict(cls="SUnknown", off=0, lines_full=lines_cls == "full", has_map=has_map, has_file=has_file, why="")
        g, ifnode = self.guard(fn, call, ctx)
        if g == "false":
            falls = any(isinstance(n, ast.Raise) for b in ifnode.orelse for n in ast.walk(b))
            row["cls"] = "SNone" if falls else "SNotRaised"
            row["lines_full"] = row["has_map"] = row["has_file"] = False
            row["why"] = ("no context is passed (lines=None / line_num=0): " +
                          ("the un-located fallback raise is taken" if falls else "nothing is raised at all"))
            return row
        if lm[0] not in ("none", "absent") and not has_map:
            row["why"] = f"line_map argument of unknown origin ({lm[0]})"
            return row
        if ln[0] in ("none", "absent"):
            row["cls"], row["why"] = "SNone", "no line_num is passed"
            return row
        if ln[0] == "const":
            row["cls"], row["off"], row["why"] = "SConst", ln[1], "a literal line number"
            return row
        if ln[0] not in ("idx", "slice"):
            row["why"] = "line_num: " + (ln[1] if len(ln) > 1 else ln[0])
            return row
        if g == "zero":
            row["cls"], row["off"] = "SZeroGuard", ln[-2]
            row["why"] = "a 0-based value reaches a parameter guarded by `line_num > 0` (documented 1-based)"
            return row
        k = ln[-2]
        if ln[0] == "slice":
            if lines_cls != "full":
                row["why"] = "slice index with a lines list that is not the full list"
                return row
            row["cls"], row["off"] = "SSliceIndex", k
            return row
        if ln[1] == "sub":
            row["cls"], row["off"] = "SSubListIndex", k
            row["why"] = "index into a dedented sub-list, shown with that sub-list as context and no line map"
            return row
        if lines_cls != "full":
            row["why"] = f"index of the full list but lines is {lines_cls}"
            return row
        row["cls"], row["off"] = ("SIndex", 0) if k == 0 else (("SIndexPlus1", 1) if k == 1 else ("SIndexOff", k))
        return row


# ---- Coq emission ----

CLASS_TAG = {"SIndex": "index", "SIndexPlus1": "index+1", "SIndexOff": "index+k", "SSliceIndex": "slice-index",
             "SSubListIndex": "sublist-index", "SNone": "no-line", "SBare": "no-line", "SConst": "literal",
             "SZeroGuard": "zero-based-into-guard", "SUnknown": "unknown", "SNotRaised": "not-raised",
             "SDead": "dead", "SFallback": "fallback", "SConverted": "converted", "SOwnFormat": "own-format",
             "SNoConstruct": "no-construct", "SInternal": "internal"}
EXEMPT = {"SFallback", "SConverted", "SOwnFormat", "SNoConstruct", "SInternal"}


def coq_class(r):
    c = r["cls"]
    if c in ("SIndexOff", "SSliceIndex", "SSubListIndex", "SConst", "SZeroGuard"):
        return f"({c} ({r['off']})%Z)"
    if c in EXEMPT:
        return "SExempt"
    return c


def signature(r):
    tag = CLASS_TAG[r["cls"]]
    if r["cls"] in ("SSliceIndex", "SSubListIndex", "SZeroGuard", "SIndexOff") and r["off"]:
        tag += f"{r['off']:+d}"
    return f"site:{r['file']}:{r['function']}:{r['key']}:{tag}"


def site_ok_py(r):
    """The same predicate as Diag.site_ok (the Coq evaluation is the one that counts; this is for messages)."""
    c = r["cls"]
    if c in EXEMPT or c in ("SDead", "SNotRaised"):
        return True
    if c == "SIndex":
        return r["lines_full"] and r["has_file"]
    if c == "SSliceIndex":
        return r["off"] == 0 and r["lines_full"] and r["has_file"]
    return False


def emit_coq(rows, path, known_idx=()):
    def s(x):
        return '"' + x.replace('"', '""') + '"'

    def b(x):
        return "true" if x else "false"

    lines = ["(* generated by harness/c14_sites.py from the parser sources; do not edit *)",
             "From Coq Require Import ZArith List String Bool.",
             "From Bardic Require Import Diag DiagCheck.",
             "Import ListNotations.", "Local Open Scope string_scope.", "",
             "Definition site_table : list site := ["]
    lines.append(";\n".join(
        f"  mkSite {s(r['file'])} {s(r['function'])} {r['line']} {s(r['key'])} {coq_class(r)} "
        f"{b(r['lines_full'])} {b(r['has_map'])} {b(r['has_file'])}" for r in rows))
    lines += ["].", "",
              "Set Printing Width 1000000.", "Set Printing Depth 1000000.",
              "Eval vm_compute in (bad_sites 0 site_table).",
              "Eval vm_compute in (forallb site_ok site_table).", ""]
    open(path, "w").write("\n".join(lines))
    ob = ["From Coq Require Import ZArith List String Bool.",
          "From Bardic Require Import Diag DiagProofs C14.",
          "From C14Gen Require Import Gen_C14_sites.", "Import ListNotations.", ""]
    if known_idx:
        ob += [f"Definition known_idx : list nat := [{'; '.join(str(i) for i in known_idx)}].",
               "Definition checked_table := drop_idx known_idx 0 site_table."]
    else:
        ob += ["Definition checked_table := site_table."]
    ob += ["(* the finite-domain obligation: every site of the table (minus the sites recorded as known findings,",
           "   by index, when there are any) passes the 0-based index of the offending line of the full list *)",
           "Theorem site_table_ok : forallb site_ok checked_table = true.",
           "Proof. vm_compute. reflexivity. Qed.",
           "Theorem every_site_displays_the_true_location :",
           "  forall s, In s checked_table -> site_displays_right s.",
           "Proof. exact (every_site_of_an_ok_table_displays_the_true_location checked_table site_table_ok). Qed.",
           "Print Assumptions every_site_displays_the_true_location.", ""]
    open(os.path.join(os.path.dirname(path), "Gen_C14_ok.v"), "w").write("\n".join(ob))


def extract(repo):
    ex = Extractor(repo)
    return ex.sites(), ex.problems


if __name__ == "__main__":
    import sys
    rows, problems = extract(sys.argv[1] if len(sys.argv) > 1 else "/repo")
    for r in rows:
        print(f"{'ok ' if site_ok_py(r) else 'BAD'} {r['file']}:{r['line']:<4} {r['function']:<28} {r['cls']:<14}"
              f"{r['off']:+d} full={int(r['lines_full'])} map={int(r['has_map'])} file={int(r['has_file'])} "
              f"{r['key']}  via={','.join(r['via'])}  {r['why']}")
    print(len(rows), "rows;", sum(1 for r in rows if not site_ok_py(r)), "not ok")
    for p in problems:
        print("PROBLEM", p)
