"""C16 — compile and play are deterministic; engines never modify or share mutable data.

Proof part (Props/C16.v): a copy into fresh cells shares no cell with the running game, in both directions
(Codec/Cells.v).  Its tie to the code: the real object graphs are walked with id() - save data, loaded state and
undo snapshots must share no mutable container with the live game - and mutated in place.
Differential part (no theorem can carry it, see Props/C16.v): compile twice / under different hash seeds; play the
same history under different hash seeds; two engines interleaved on ONE story object vs solo runs; the story object
deep-compared before/after."""
from __future__ import annotations

import copy
import json
import os
import random
import subprocess
import sys

from . import common as C
from . import enginegen as G
from . import enginerun as R
from . import engine_props as EP

HEADER = "From Coq Require Import ZArith List String.\nFrom Bardic Require Import Cells CellsCheck."

CHILD = r'''
import sys, json, random, copy
sys.path.insert(0, sys.argv[1]); sys.path.insert(0, sys.argv[2])
from harness import common as C, enginegen as G, enginerun as R
C.REPO = sys.argv[1]
C.use_repo()
out = []
for sub in json.loads(sys.argv[3]):
    r = random.Random(sub)
    g = G.Gen(r, G.Profile(hooks=0.5, join=0.5, params=0.4, jumps=0.4, one_time=0.6, inplace=0.6, faults=0.05))
    src = g.source()
    try:
        story = R.compile_story(src)
    except Exception as e:
        out.append({"sub": sub, "compile_error": type(e).__name__}); continue
    ops = G.gen_ops(r, r.randint(3, 12))
    recs, eng = R.run_history(story, ops)
    saves = None
    if eng is not None:
        with C.quiet():
            d = eng.save_state(); d.pop("timestamp", None); saves = json.dumps(d)
    out.append({"sub": sub, "story": json.dumps(story), "trace": [[x["op"], x["obs"][:2], x["view"] and {k: v for k, v in x["view"].items()}] for x in recs], "save": saves})
print("RESULT" + json.dumps(out, default=repr))
'''


def containers(x, acc=None, seen=None):
    """ids of the mutable containers (list/dict/set/object __dict__) reachable from x."""
    acc = acc if acc is not None else {}
    seen = seen if seen is not None else set()
    if id(x) in seen:
        return acc
    if isinstance(x, (list, dict, set)):
        seen.add(id(x))
        acc[id(x)] = x
        it = x.values() if isinstance(x, dict) else x
        for y in it:
            containers(y, acc, seen)
    elif isinstance(x, tuple):
        for y in x:
            containers(y, acc, seen)
    elif hasattr(x, "__dict__") and not isinstance(x, type) and not callable(x) and type(x).__module__ != "builtins":
        seen.add(id(x))
        acc[id(x)] = x
        containers(vars(x), acc, seen)
    return acc


def cval_term(x, ids, counter):
    """Python value -> Cells.cval term with cell identities from id()."""
    from .common import coq_Z, coq_nat, coq_list, coq_str
    if isinstance(x, list):
        i = ids.setdefault(id(x), len(ids))
        return f"(CList {coq_nat(i)} {coq_list(cval_term(y, ids, counter) for y in x)})"
    if isinstance(x, dict):
        i = ids.setdefault(id(x), len(ids))
        return f"(CDict {coq_nat(i)} {coq_list('(%s, %s)' % (coq_str(str(k)), cval_term(v, ids, counter)) for k, v in x.items())})"
    return f"(CAtom {coq_Z(hash(repr(x)) % 1000)})"


def run(tier: str, seed: int) -> int:
    chk = C.Check("C16", tier, seed, "proof")
    props = C.coq_gate(chk)
    C.use_repo()
    rng = chk.rng
    n_cases = 60 if tier == "quick" else 600
    stats = {"compile_pairs": 0, "hashseed_runs": 0, "interleaved": 0, "alias_checks": 0, "mutations": 0, "cells_cases": 0}
    from bardic.compiler.compiler import BardCompiler
    cls = R.engine_class()
    subs = []
    cell_terms = []
    for i in range(n_cases):
        sub = rng.randrange(10 ** 9)
        subs.append(sub)
        r = random.Random(sub)
        g = G.Gen(r, G.Profile(hooks=0.5, join=0.5, params=0.4, jumps=0.4, one_time=0.6, inplace=0.6, faults=0.05))
        src = g.source()

        def report(sig, what, extra=None, _src=src, _sub=sub):
            chk.report(sig, what, dict({"subseed": _sub, "story_source": _src}, **(extra or {})))
        # ---- compile is a pure function of the text ----
        try:
            with C.quiet():
                a = BardCompiler().compile_string(src)
                b = BardCompiler().compile_string(src)
        except Exception:
            continue
        stats["compile_pairs"] += 1
        if a != b or json.dumps(a) != json.dumps(b):
            report("compile-not-deterministic", "two compilations of the same text differ")
        story = a
        pristine = copy.deepcopy(story)
        ops = G.gen_ops(r, r.randint(3, 12))
        # ---- solo run on a private copy: the reference ----
        solo, _ = R.run_history(copy.deepcopy(pristine), ops)
        # ---- two engines on ONE story object, interleaved ----
        with C.quiet():
            try:
                e1, e2 = cls(story), cls(story)
            except Exception:
                continue
        t1, t2 = [], []
        ops2 = G.gen_ops(r, r.randint(3, 12))
        i1 = i2 = 0
        from .c05 import continue_history
        while i1 < len(ops) or i2 < len(ops2):
            if i1 < len(ops) and (i2 >= len(ops2) or r.random() < 0.5):
                rec, _ = continue_history(e1, story, [ops[i1]]); t1 += rec; i1 += 1
            else:
                rec, _ = continue_history(e2, story, [ops2[i2]]); t2 += rec; i2 += 1
        stats["interleaved"] += 1
        if story != pristine:
            report("engine-modified-story", "the compiled story object changed while engines played it")
        for k, (x, y) in enumerate(zip(solo[1:], t1)):
            if x["obs"][:2] != y["obs"][:2] or (x["view"] and y["view"] and
                                                 {kk: v for kk, v in x["view"].items()} != {kk: v for kk, v in y["view"].items()}):
                report("engines-interfere-through-shared-story", f"step {k}: an engine sharing the story object with another "
                       f"behaves differently from a solo run", {"ops": ops[:k + 1], "other_ops": ops2})
                break
        nontrivial = any(x["obs"][0] == "ok" and x["op"][0] == "choose" for x in solo[1:])
        chk.count(("d", sub), nontrivial)
        # ---- save data is independent of the running game ----
        if t1 and t1[-1]["view"] is not None:
            # objects among the variables (as a host application or an imported class puts them there): one whose class
            # the loading engine does not know (it is restored as plain data), nested containers at depth
            import types
            e1.state["ns"] = types.SimpleNamespace(items=[1, [2, 3]], table={"k": [4, {"z": [5]}]}, name="x")
            e1.state["ns_list"] = [types.SimpleNamespace(tags=["a", ["b"]]), {"deep": {"deeper": [types.SimpleNamespace(v=[0])]}}]
            stats["objects_injected"] = stats.get("objects_injected", 0) + 2
            with C.quiet():
                try:
                    doc = e1.save_state()
                except Exception:
                    doc = None
            if doc is not None:
                stats["alias_checks"] += 1
                live = containers(e1.state)
                containers(e1.hooks, live)
                containers(e1._join_section_index, live)
                if e1._current_output is not None:
                    containers(vars(e1._current_output), live)
                shared = set(containers(doc)) & set(live)
                if shared:
                    kinds = sorted({type(live[s]).__name__ for s in shared})
                    report("save-shares-cell-with-game:" + ",".join(kinds), f"save_state() hands out {len(shared)} live container(s)")
                frozen = copy.deepcopy(doc)
                # keep playing (stories mutate lists/dicts in place), then mutate every live container by hand
                more, _ = continue_history(e1, story, G.gen_ops(r, 5, "choose-only"))
                for c in list(containers(e1.state).values()):
                    stats["mutations"] += 1
                    if isinstance(c, list):
                        c.append("MUT")
                    elif isinstance(c, dict) and not any(c is v for v in (e1.state,)):
                        c["MUT"] = 1
                for lst in e1.hooks.values():
                    lst.append("MUT")
                if doc != frozen:
                    report("later-play-changed-save", "a save document changed after it was taken")
                # loading: the document must not become part of the game
                with C.quiet():
                    e3 = cls(copy.deepcopy(pristine))
                    doc2 = json.loads(json.dumps(frozen, default=repr))
                    try:
                        e3.load_state(doc2)
                    except Exception:
                        e3 = None
                if e3 is not None:
                    live3 = containers(e3.state)
                    containers(e3.hooks, live3)
                    containers(e3._join_section_index, live3)
                    if e3._current_output is not None:
                        containers(vars(e3._current_output), live3)
                    shared = set(containers(doc2)) & set(live3)
                    if shared:
                        kinds = sorted({type(live3[s]).__name__ for s in shared})
                        report("load-adopts-document-cells:" + ",".join(kinds), f"load_state() keeps {len(shared)} container(s) of the document")
                    before = R.view(e3)
                    for c in list(containers(doc2).values()):
                        if isinstance(c, list):
                            c.append("MUT")
                        elif isinstance(c, dict):
                            c["MUT"] = 1
                    if R.view(e3) != before:
                        report("editing-document-changed-game", "changing a loaded save document changed the game")
                # undo snapshots are independent too
                if e1.undo_stack:
                    snap = e1.undo_stack[-1]
                    shared = set(containers(snap.state)) & set(containers(e1.state))
                    if shared:
                        report("snapshot-shares-cell-with-game", "an undo snapshot shares a container with the live variables")
                # the Cells model on this very object graph: copy(live) uses only new cells (evaluated in Coq)
                ids = {}
                try:
                    term = cval_term({k: v for k, v in e1.state.items() if isinstance(v, (list, dict, int, str, bool, type(None)))}, ids, None)
                    cell_terms.append(f"({term}, {len(ids) + 5}%nat)")
                    stats["cells_cases"] += 1
                except Exception:
                    pass
        if i < 2:
            chk.sample({"subseed": sub, "story_source": src, "ops": ops, "interleaved_with": ops2})

    # ---- determinism under different hash seeds (separate interpreters) ----
    batch = subs[: (12 if tier == "quick" else 80)]
    outs = []
    for hs in ("0", "1", "12345"):
        env = dict(os.environ, PYTHONHASHSEED=hs)
        p = subprocess.run([sys.executable, "-c", CHILD, C.REPO, C.VERIF, json.dumps(batch)], env=env,
                           capture_output=True, text=True, timeout=900)
        line = [l for l in p.stdout.splitlines() if l.startswith("RESULT")]
        if not line:
            chk.disagree("hashseed-child", "the child interpreter failed", {"stderr": p.stderr[-1500:]})
            continue
        outs.append(json.loads(line[0][6:]))
        stats["hashseed_runs"] += 1
    for other in outs[1:]:
        for x, y in zip(outs[0], other):
            if x != y:
                what = [k for k in x if x.get(k) != y.get(k)]
                chk.report("depends-on-hash-seed:" + ",".join(what),
                           f"compiling/playing/saving the same story gives different results under different PYTHONHASHSEED ({what})",
                           {"subseed": x["sub"]})
                break

    # ---- compilation is a function of the text ALONE: not of what this process compiled before, and it never touches a
    # story it returned earlier.  A pool of stories recombined from one vocabulary of lines (the same line occurs tagged in
    # one story and untagged in another, the same inline conditional / expression / choice in several passages and stories):
    # each is first compiled ALONE in a fresh interpreter (baseline), then all are compiled in one process, in two orders;
    # every result must equal its baseline and every earlier result must still equal it after the later compilations.
    VOC = ["You are {hp > 3 ? strong | weak}", "The door is {locked ? locked | open}.", "Gold: {gold}", "Plain text line",
           "{hp > 3 ? strong | weak}", "A {x ? {y ? deep | mid} | flat} end", "Total {gold:>4} coins"]
    TAGS = ["", "", " ^mood", " ^mood:dark ^big", " ^x"]
    pool = []
    rp = random.Random(rng.randrange(10 ** 9))
    for k in range(10 if tier == "quick" else 40):
        ls = [":: Start", "~ hp = 5", "~ locked = True", "~ gold = 7", "~ x = 1", "~ y = 0"]
        for _ in range(rp.randint(3, 6)):
            ls.append(rp.choice(VOC) + rp.choice(TAGS))
        ls.append("@if hp > 3:")
        ls.append("    " + rp.choice(VOC) + rp.choice(TAGS))
        ls.append("@endif")
        ls.append("+ [Go {hp > 3 ? on | back}] -> Next" + rp.choice(["", " ^c1"]))
        ls += [":: Next", rp.choice(VOC) + rp.choice(TAGS), "+ [Back] -> Start"]
        pool.append("\n".join(ls))
    base = []
    for src in pool:
        pr = subprocess.run([sys.executable, "-c",
                             "import sys, json; sys.path.insert(0, sys.argv[1]); import io, contextlib\n"
                             "from bardic.compiler.compiler import BardCompiler\n"
                             "with contextlib.redirect_stdout(io.StringIO()):\n"
                             "    st = BardCompiler().compile_string(sys.stdin.read())\n"
                             "print('RESULT' + json.dumps(st))", C.REPO], input=src, capture_output=True, text=True, timeout=120)
        line = [l for l in pr.stdout.splitlines() if l.startswith("RESULT")]
        base.append(json.loads(line[0][6:]) if line else None)
    stats["compile_history_pool"] = len(pool)
    for order in (list(range(len(pool))), list(reversed(range(len(pool))))):
        got = {}
        for j in order:
            if base[j] is None:
                continue
            with C.quiet():
                try:
                    got[j] = BardCompiler().compile_string(pool[j])
                except Exception as e:  # noqa
                    got[j] = {"<raised>": type(e).__name__}
            if json.loads(json.dumps(got[j])) != base[j]:
                chk.report("compile-depends-on-earlier-compilations",
                           "a story compiled after other stories in the same process differs from the same text compiled alone "
                           "in a fresh interpreter", {"story_source": pool[j], "compiled_before": [pool[q] for q in order[:order.index(j)]][-3:]})
                break
            for q, st_q in got.items():
                if json.loads(json.dumps(st_q)) != base[q]:
                    chk.report("compile-changed-an-earlier-story",
                               "compiling a story changed a story object that an earlier compilation had returned",
                               {"story_source": pool[q], "changed_by_compiling": pool[j]})
                    break
            else:
                chk.count(("compile-history", pool[j], tuple(order[:2])), True)
                continue
            break

    # ---- the same story played again in the same process gives the same transcript: objects the story creates from
    # bardic.stdlib (and their default arguments) must not carry anything over from an earlier play-through or engine ----
    STD_SRC = "\n".join([
        "from bardic.stdlib.relationship import Relationship", "from bardic.stdlib.inventory import Inventory",
        "from bardic.stdlib.economy import Wallet, Shop", "", ":: Start", "~ alex = Relationship('Alex', 50, 50, 0)",
        "~ sam = Relationship('Sam', 10, 10, 0)", "~ inv = Inventory()", "~ purse = Wallet(20)",
        "~ shop = Shop([{'name': 'Rope', 'weight': 1, 'value': 5}])",
        "Alex knows war: {alex.has_discussed('war')} topics {len(alex.topics_discussed)} sam {len(sam.topics_discussed)}",
        "Bag {len(inv.items)} gold {purse.gold} stock {len(shop.items)}",
        "+ [Ask] -> Ask", "+ [Buy] -> Buy", "", ":: Ask", "~ alex.discuss_topic('war')", "~ alex.add_trust(15)",
        "Asked: {alex.has_discussed('war')} sam {sam.has_discussed('war')} trust {alex.trust}", "+ [Back] -> Hub", "",
        ":: Buy", "~ ok = shop.buy('Rope', purse, inv)", "Bought {ok}: bag {len(inv.items)} gold {purse.gold} stock {len(shop.items)}",
        "+ [Back] -> Hub", "", ":: Hub",
        "Hub: war {alex.has_discussed('war')} sam {len(sam.topics_discussed)} bag {len(inv.items)} gold {purse.gold}",
        "+ [Ask] -> Ask", "+ [Buy] -> Buy"])
    try:
        with C.quiet():
            std_story = BardCompiler().compile_string(STD_SRC)
        transcripts = []
        for rep in range(3):
            r = random.Random(12345)          # the same inputs every time
            ops = [("choose", 0), ("choose", 0), ("choose", 1), ("choose", 0)] + [("choose", r.randint(0, 1)) for _ in range(4)]   # Ask first
            recs, _ = R.run_history(copy.deepcopy(std_story) if rep == 2 else std_story, ops)
            transcripts.append([(x["obs"][:2], x["view"]["raw_content"] if x["view"] else None,
                                 [c[0] for c in x["view"]["choices"]] if x["view"] else None) for x in recs])
        stats["stdlib_replays"] = len(transcripts)
        chk.count(("stdlib-replay", STD_SRC), True)
        for rep in (1, 2):
            if transcripts[rep] != transcripts[0]:
                k = next(i for i, (a, b) in enumerate(zip(transcripts[0], transcripts[rep])) if a != b)
                chk.report("replay-in-same-process-differs",
                           f"play-through {rep + 1} of the same story with the same inputs differs from the first at step {k}: "
                           f"{transcripts[rep][k][1]!r} instead of {transcripts[0][k][1]!r}", {"story_source": STD_SRC, "ops": ops})
                break
    except Exception as e:  # noqa
        chk.disagree("stdlib-replay", f"the stdlib story could not be played: {type(e).__name__}: {e}", {"story_source": STD_SRC})

    # ---- the aliasing model evaluated on real object graphs ----
    if cell_terms:
        hdr = HEADER
        bad, shown, log = C.run_coq_cases(chk.scratch, hdr, cell_terms, "ccase", "ccase_bad", shard=60, show_fn="ccase_show")
        for b in bad:
            chk.disagree("cells", "the fresh-copy model puts a copy's cell among the game's cells", {"index": b, "model": shown.get(b) if isinstance(b, int) else log[-800:]})
    chk.cov["programs"] = stats["compile_pairs"]
    chk.cov["disagreements_checked"] = stats["cells_cases"] + stats["hashseed_runs"]
    chk.cov["rule"] = ("generated stories (hooks, @join, parameters, in-place mutation): compiled twice; played solo and with a second "
                       "engine interleaved on the SAME story object; saved, the object graphs of save data / loaded state / undo "
                       "snapshots intersected with the live game's by id() and mutated in place; a batch re-run in fresh interpreters "
                       "under PYTHONHASHSEED 0, 1, 12345.  non-trivial = the history contains a successful choice; distinct by sub-seed")
    chk.notes["input_distribution"] = stats
    chk.notes["level_split"] = ("proof: aliasing clauses (Props/C16.v over Codec/Cells.v); differential only: purity of compile, "
                                "determinism of play, non-mutation of the story object (no theorem about a Gallina function can state them)")
    chk.assumptions = ["mutable containers = list, dict, set and instances with __dict__ (id()-based walk)",
                       "timestamps and uuid keys excluded"]
    return chk.finish(props, C.BASE_TRUST + ["Codec/Cells.v: the cell-identity model of copying; tied to the code by the id() walk"],
                      "make -C /verif/coq && coqc -Q /verif/coq Bardic /verif/coq/Props/C16.v")
