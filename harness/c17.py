"""C17 - surface forms (legacy/@ syntax, comments, indentation) compile identically.

Three parts (see coq/Props/C17.v for what is a theorem and what is not):
  1. correspondence of the two pure helpers with Compiler/Lex.v (real function vs model, inside Coq);
  2. the same helpers checked directly against the laws proved in Props/C17.v (model independent);
  3. the whole-compiler differential oracle (model independent): every generated story is printed in
     every surface style by harness/storygen.py, compiled with the real BardCompiler, and the compiled
     dicts are compared with the baseline style.

Signatures (computed from the structure of the variant, never from messages):
  style=trailing-comment,line-kind=<kind>,context=<top|if|for|join>      (kind stmt-open: first line of a multi-line ~)
  style=legacy,construct=<if|for|py>[,cond=has-colon][,body=<B>]
  style=indent,construct=<if|for|py|join>[,inner=<I>][,body=<B>]
  style=hash-comment,position=<file-top|top|if|for|join>
  style=hash-comment,position=<if|for>,column=0    (# lines at column 0 in a body that is indented; built only when
                                                    the indentation and the # lines each passed on their own)
  style=combo,parts=<a+b+...>[,inner=<I>][,body=<B>]   (only built from parts that passed on their own on that story;
                                        the pairs legacy:<c>+indent:<c> and legacy:py+indent:<enclosing block> are
                                        built systematically, the others at random)
  style=baseline,intact=<escaped-slashes|floordiv-assign|multiline-stmt>,where=<text|stmt>
  pinned regression witnesses (PINNED_REGRESSIONS: fixed defects outside the reach of the generator; the minimal
  pairs of the patches, compiled on every run):
    style=trailing-comment,line=text,trailing-blanks       (F17k: a text line with trailing blanks of its own)
    style=hash-comment,position=metadata                   (F17l: a # line inside the @metadata block)
    style=hash-comment,position=join-block,indent          (F17m: a # line in a join block, indented less than the
                                                            block / at column 0)
  helper-law=<name>                     (a law of Props/C17.v fails on the real helper)
  <I> = '+'-joined subset of {multiline-stmt, py}: what the variant indents besides story lines (continuation lines of
        a multi-line ~ statement, the body of an @py: block)
  <B> = '+'-joined subset of {leading-blank, under-indented, ws-only-line}: shapes of the Python blocks of the witness
        (first body line empty; some non-blank body line indented less than the block's first line - a continuation
        line of a bracketed expression or a line of a triple-quoted string; some body line consisting of blanks/tabs
        only); present only on py-related styles
"""
from __future__ import annotations

import dataclasses
import itertools
import json

from . import common as C
from . import storygen as G
from .common import coq_str, coq_list

HEADER = "From Coq Require Import List String Ascii.\nFrom Bardic Require Import PyStr Lex LexCheck."

LEGACY_KINDS = ["<<if>>", "<<elif>>", "<<else>>", "<<endif>>", "<<for>>", "<<endfor>>", "<<py", ">>"]
INDENT_UNITS = [("2sp", "  "), ("4sp", "    "), ("tab", "\t")]
JOIN_UNITS = [("2sp", "  "), ("tab", "\t"), ("6sp", "      ")]
# comment texts: plain, and ones that look like syntax (none may change what the line means)
COMMENTS = ["note", "note", "TODO: go -> Later", "was n //= 2", "see \\// there", "^tag {x}", "= 3", "@endif",
            "keep the glue<>", "a // b"]


# Pinned regression witnesses: (signature, what, baseline source, variant sources).  Every variant must compile to
# exactly what the baseline compiles to.  These are the minimal pairs of proposed_fixes/F17k, F17l, F17m (shapes the
# story generator does not build: trailing blanks on a text line, the @metadata block, # lines that are indented
# less than the join block they stand in); coq/Props/C17.v has the same inputs as Examples of the parser model.
PINNED_REGRESSIONS = [
    ("style=trailing-comment,line=text,trailing-blanks",
     "F17k: a text line that ends in blanks compiles differently once a trailing // comment is appended to it",
     ":: S\nHello   \nBye",
     [":: S\nHello    // c\nBye", ":: S\nHello   \t // c\nBye"]),
    ("style=hash-comment,position=metadata",
     "F17l: a # comment line inside the @metadata block ends the block or becomes a metadata key",
     "@metadata\n  title: X\n  author: Y\n:: Start\nhi",
     ["@metadata\n  title: X\n# note\n  author: Y\n:: Start\nhi",
      "@metadata\n  title: X\n  # note: this\n  author: Y\n:: Start\nhi",
      "@metadata\n# first\n  title: X\n  author: Y\n  # last\n:: Start\nhi"]),
    ("style=hash-comment,position=join-block,indent",
     "F17m: a # comment line in the block under a `-> @join` choice decides the block's base indentation or ends it",
     ":: Start\n* [J] -> @join\n   inner\n@join\nafter",
     [":: Start\n* [J] -> @join\n  # c\n   inner\n@join\nafter",
      ":: Start\n* [J] -> @join\n# c\n   inner\n@join\nafter",
      ":: Start\n* [J] -> @join\n   inner\n# c\n@join\nafter",
      ":: Start\n* [J] -> @join\n   inner\n      # c\n@join\nafter"]),
    ("style=legacy,construct=if,position=join-block",
     "F17n: an indented legacy block header after a `-> @join` choice becomes text of the block while the @ form ends the block",
     ":: S\n* [R] -> @join\n    @if x:\n    a\n    @endif\n@join\nafter",
     [":: S\n* [R] -> @join\n    <<if x>>\n    a\n    <<endif>>\n@join\nafter"]),
    ("style=legacy,construct=for,position=join-block",
     "F17n: an indented legacy loop header inside the block of a `-> @join` choice",
     ":: S\n* [R] -> @join\n    first\n    @for i in xs:\n    {i}\n    @endfor\n@join\nafter\n+ [Go] -> S",
     [":: S\n* [R] -> @join\n    first\n    <<for i in xs>>\n    {i}\n    <<endfor>>\n@join\nafter\n+ [Go] -> S"]),
    ("style=legacy,construct=py,position=join-block",
     "F17n: a legacy Python block opener inside the block of a `-> @join` choice",
     ":: S\n* [R] -> @join\n    @py:\n    x = 1\n    @endpy\n@join\nafter",
     [":: S\n* [R] -> @join\n    <<py\n    x = 1\n    >>\n@join\nafter"]),
]

# F17o (fixed in /repo 2cb369b): an unclosed legacy Python block is rejected like an unclosed @py: block
PINNED_BOTH_REJECTED = [
    ("style=legacy,construct=py,unclosed", ":: S\n@py:\nx = 1\n:: T\nt", ":: S\n<<py\nx = 1\n:: T\nt"),
    ("style=legacy,construct=py,unclosed-in-for", ":: S\n@for i in xs:\n@py:\nx = 1\n@endfor\nt",
     ":: S\n<<for i in xs>>\n<<py\nx = 1\n<<endfor>>\nt"),
]


# ------------------------------------------------------------------------------------------------
# real code
# ------------------------------------------------------------------------------------------------

def compile_src(src: str):
    from bardic.compiler.compiler import BardCompiler
    try:
        with C.quiet():
            return ("ok", BardCompiler().compile_string(src))
    except Exception as e:  # noqa: every failure of a style variant is an observation
        return ("err", type(e).__name__, " | ".join(x.strip() for x in str(e).split("\n")[:4] if x.strip())[:300])


def first_difference(a, b, path=""):
    """Where two compiled stories differ (for the report only)."""
    if type(a) != type(b):
        return f"{path}: {a!r} vs {b!r}"[:300]
    if isinstance(a, dict):
        for k in a:
            if k not in b:
                return f"{path}/{k}: missing in variant"
            d = first_difference(a[k], b[k], f"{path}/{k}")
            if d:
                return d
        for k in b:
            if k not in a:
                return f"{path}/{k}: only in variant"
        return None
    if isinstance(a, list):
        for i, (x, y) in enumerate(zip(a, b)):
            d = first_difference(x, y, f"{path}[{i}]")
            if d:
                return d
        if len(a) != len(b):
            return f"{path}: {len(a)} vs {len(b)} entries"
        return None
    return None if a == b else f"{path}: {a!r} vs {b!r}"[:300]


def compiled_strings(obj, out):
    """All text values and statement/block codes of a compiled story."""
    if isinstance(obj, dict):
        t = obj.get("type")
        if t == "text" and isinstance(obj.get("value"), str):
            out["text"].append(obj["value"])
        if t in ("python_statement", "python_block") and isinstance(obj.get("code"), str):
            out["code"].append(obj["code"])
        for v in obj.values():
            compiled_strings(v, out)
    elif isinstance(obj, list):
        for v in obj:
            compiled_strings(v, out)


def text_segments(src: str):
    """The literal segments of a text line outside top-level {...}."""
    segs, cur, depth = [], [], 0
    for ch in src:
        if ch == "{":
            if depth == 0:
                segs.append("".join(cur))
                cur = []
            depth += 1
        elif ch == "}":
            depth -= 1
        elif depth == 0:
            cur.append(ch)
    segs.append("".join(cur))
    return [s for s in segs if s]


# ------------------------------------------------------------------------------------------------
# style variants of one story
# ------------------------------------------------------------------------------------------------

def has_colon_header(story, construct):
    for p in story.passages:
        for it, _ in G.walk(p.body):
            if construct == "if" and isinstance(it, G.If) and any(c and ":" in c for c, _ in it.branches):
                return True
            if construct == "for" and isinstance(it, G.For) and ":" in it.coll:
                return True
    return False


def inner_tags(story, style):
    """What a variant indents besides story lines: @py: bodies, continuation lines of multi-line ~ statements."""
    tags = set()
    for l in G.print_story(story, style).lines:
        if l.indent and l.kind == "py-body" and l.ctx == "py":
            tags.add("py")
        elif l.indent and l.kind == "stmt-cont" and l.ctx != "join":
            tags.add("multiline-stmt")
    return sorted(tags)


def body_suffix(story):
    tags = G.py_body_tags(story)
    return (",body=" + "+".join(tags)) if tags else ""


def signature_of(story, style, label):
    """The signature of a style variant, from the structure of the story and the style only."""
    fam, _, rest = label.partition(":")
    if fam == "legacy":
        c = rest
        if c == "py":
            return "style=legacy,construct=py" + body_suffix(story)
        return f"style=legacy,construct={c}" + (",cond=has-colon" if has_colon_header(story, c) else "")
    if fam == "indent":
        c = rest.split(":")[0]
        if c == "join":
            return "style=indent,construct=join"
        if c == "py":
            return "style=indent,construct=py" + body_suffix(story)
        inner = inner_tags(story, style)
        return f"style=indent,construct={c}" + (",inner=" + "+".join(inner) if inner else "") + \
            (body_suffix(story) if "py" in inner else "")
    if fam == "hash":
        return f"style=hash-comment,position={rest}"
    if fam == "hash0":
        return f"style=hash-comment,position={rest.split(':')[0]},column=0"
    if fam == "trailing":
        kind, _, ctx = rest.rpartition("@")
        return f"style=trailing-comment,line-kind={kind},context={ctx}"
    if fam == "combo":
        fams = sorted({":".join(p.split(":")[:2]) for p in rest.split(",")})
        inner = inner_tags(story, style) if any(f.startswith("indent:") and f != "indent:join" for f in fams) else []
        py = "py" in inner or any(f in ("legacy:py", "indent:py") for f in fams)
        return "style=combo,parts=" + "+".join(fams) + (",inner=" + "+".join(inner) if inner else "") + \
            (body_suffix(story) if py else "")
    raise AssertionError(label)


def variants(story, base: G.Printed, comment="note"):
    """[(style, label)] - one style dimension at a time."""
    kinds = G.line_kinds(base)
    kk = {k for k, _ in kinds}
    present = {"if": "@if" in kk, "for": "@for" in kk, "py": "@py:" in kk}
    has_join_block = any(l.ctx == "join" for l in base.lines)
    # indenting the body of a Python block that has a line indented less than its first line is outside
    # uniform_indent_invisible_partial (hypothesis well_indented; Props/C17.v gives the counterexample): not built.
    # The legacy form of such a block and the indentation of the ENCLOSING @if/@for body are built.
    skip_py_indent = G.has_under_indented_py(story)
    out = []
    for c in ("if", "for", "py"):
        if present[c]:
            out.append((G.Style(legacy=frozenset([c])), f"legacy:{c}"))
    for c in ("if", "for", "py"):
        if present[c] and not (c == "py" and skip_py_indent):
            for uname, unit in INDENT_UNITS:
                out.append((G.Style(indent=((c, unit),)), f"indent:{c}:{uname}"))
    if has_join_block:
        for uname, unit in JOIN_UNITS:
            out.append((G.Style(join_indent=unit), f"indent:join:{uname}"))
    for pos in ("file-top", "top", "if", "for", "join"):
        if pos in ("file-top", "top") or (pos == "join" and has_join_block) or (pos in ("if", "for") and present[pos]):
            out.append((G.Style(hash_at=frozenset([pos]), comment=comment), f"hash:{pos}"))
    for kind, ctx in sorted(kinds):
        out.append((G.Style(trailing=(kind, ctx), comment=comment), f"trailing:{kind}@{ctx}"))
    return out


def legacy_trailing_variants(story, base, comment="note"):
    kk = {k for k, _ in G.line_kinds(base)}
    leg = frozenset(c for c, k in (("if", "@if"), ("for", "@for"), ("py", "@py:")) if k in kk)
    if not leg:
        return leg, []
    pl = G.print_story(story, G.Style(legacy=leg))
    out = []
    for kind, ctx in sorted(G.line_kinds(pl)):
        if kind in LEGACY_KINDS:
            out.append((G.Style(legacy=leg, trailing=(kind, ctx), comment=comment), f"trailing:{kind}@{ctx}"))
    return leg, out


class Differential:
    def __init__(self, chk):
        self.chk = chk
        self.known = set(chk.known_signatures())   # shapes listed as known findings are not built again
        self.skipped_known = 0
        self.fail = {}          # signature -> list of (story, style, label, outcome)
        self.per_style = {}     # style family -> [evaluated, failed]
        self.compiles = 0
        self.invalid = []
        self.py_indent_not_built = 0   # stories whose indent:py variants are outside the theorem's hypothesis

    def outcome(self, story, style, base_res=None):
        """None when the variant compiles to the baseline's dict, else a description.
        'invalid' when the baseline itself does not compile."""
        if base_res is None:
            base_res = compile_src(G.print_story(story, G.BASE).text)
            self.compiles += 1
        if base_res[0] != "ok":
            return "invalid"
        v = compile_src(G.print_story(story, style).text)
        self.compiles += 1
        if v[0] != "ok":
            return f"rejected: {v[1]}: {v[2]}"
        if v[1] != base_res[1]:
            return "compiles differently: " + str(first_difference(base_res[1], v[1]))
        return None

    def note(self, family, failed):
        e = self.per_style.setdefault(family, [0, 0])
        e[0] += 1
        e[1] += 1 if failed else 0

    def record(self, sig, story, style, label, outcome):
        self.fail.setdefault(sig, []).append((story, style, label, outcome))

    def intact_oracle(self, story, compiled):
        got = {"text": [], "code": []}
        compiled_strings(compiled, got)
        for p in story.passages:
            for it, ctx in G.walk(p.body):
                if isinstance(it, G.Stmt) and "\n" in it.code:
                    # the baseline print is flush-left: the statement is its lines joined (top, @if, @for); a join
                    # block takes the first line only (see the assumptions) and is not judged here
                    if ctx != "join" and it.code not in got["code"]:
                        self.record("style=baseline,intact=multiline-stmt,where=stmt", story, G.BASE, "baseline",
                                    f"multi-line statement {it.code!r} should compile to that code; "
                                    f"codes: {[c for c in got['code'] if c[:6] == it.code[:6]][:4]}")
                elif isinstance(it, G.Stmt) and ("//=" in it.code or "\\//" in it.code):
                    want = it.code.replace("\\//", "//")
                    if want not in got["code"]:
                        what = "floordiv-assign" if "//=" in it.code else "escaped-slashes"
                        self.record(f"style=baseline,intact={what},where=stmt", story, G.BASE, "baseline",
                                    f"statement {it.code!r} should compile to code {want!r}; codes: {got['code'][:6]}")
                if isinstance(it, G.Text):
                    for seg in text_segments(it.src):
                        for pat, what in (("\\//", "escaped-slashes"), ("//=", "floordiv-assign")):
                            if pat in seg:
                                want = seg.replace("\\//", "//").strip()
                                if not any(want in t for t in got["text"]):
                                    self.record(f"style=baseline,intact={what},where=text", story, G.BASE, "baseline",
                                                f"text {seg!r} should be kept as {want!r}")

    def run_story(self, story, rng, n_combos):
        base = G.print_story(story, G.BASE)
        base_res = compile_src(base.text)
        self.compiles += 1
        if base_res[0] != "ok":
            self.invalid.append((base.text, base_res[1:]))
            return base, 0, False
        self.intact_oracle(story, base_res[1])
        passed = []
        nvar = 0
        varied = False
        comment = rng.choice(COMMENTS)
        todo = variants(story, base, comment)
        self.py_indent_not_built += G.has_under_indented_py(story)
        leg, lt = legacy_trailing_variants(story, base, comment)
        for style, label in todo:
            sig = signature_of(story, style, label)
            if sig in self.known:
                self.skipped_known += 1
                continue
            oc = self.outcome(story, style, base_res)
            nvar += 1
            fam = label.split(":")[0]
            self.note(fam, oc is not None)
            varied = True
            if oc is None:
                passed.append((sig, style, label))
            else:
                self.record(sig, story, style, label, oc)
        # trailing comments on the legacy forms (only when the all-legacy print itself is fine)
        lt = [(s, l) for s, l in lt if signature_of(story, s, l) not in self.known]
        if lt and self.outcome(story, G.Style(legacy=leg), base_res) is None:
            nvar += 1
            for style, label in lt:
                oc = self.outcome(story, style, base_res)
                nvar += 1
                self.note("trailing-legacy", oc is not None)
                if oc is not None:
                    self.record(signature_of(story, style, label), story, style, label, oc)
        legs = [s for s in passed if s[2].startswith("legacy:")]
        inds = [s for s in passed if s[2].startswith("indent:") and not s[2].startswith("indent:join")]
        # systematic two-part variants, each built only from parts that passed on their own on this story:
        #  - the legacy form of a construct with its body indented; the legacy <<py with the enclosing body indented
        #  - # comment lines at column 0 inside an indented @if/@for body
        extra = []
        for lg in legs:
            lc = next(iter(lg[1].legacy))
            for ic in ("if", "for", "py"):
                cands = [s for s in inds if s[1].indent[0][0] == ic]
                if not cands or not (lc == ic or (lc == "py" and "py" in inner_tags(story, cands[0][1]))):
                    continue
                pick = rng.choice(cands)
                extra.append(("pair", G.Style(legacy=lg[1].legacy, indent=pick[1].indent),
                              f"combo:{lg[2]},{pick[2]}"))
        for pos in ("if", "for"):
            cands = [s for s in inds if s[1].indent[0][0] == pos]
            if cands and any(s[2] == f"hash:{pos}" for s in passed):
                pick = rng.choice(cands)
                extra.append(("hash-col0", G.Style(hash_at=frozenset([pos]), hash_col0=True, indent=pick[1].indent,
                                                   comment=comment), f"hash0:{pos}:{pick[2].split(':')[2]}"))
        for fam, style, label in extra:
            sig = signature_of(story, style, label)
            if sig in self.known:
                self.skipped_known += 1
                continue
            oc = self.outcome(story, style, base_res)
            nvar += 1
            self.note(fam, oc is not None)
            if oc is not None:
                self.record(sig, story, style, label, oc)
        # combinations of parts that passed on their own
        joins = [s for s in passed if s[2].startswith("indent:join")]
        hashes = [s for s in passed if s[2].startswith("hash:")]
        trails = [s for s in passed if s[2].startswith("trailing:")]
        for _ in range(n_combos):
            parts = []
            legacy = frozenset(s[1].legacy and next(iter(s[1].legacy)) for s in legs if rng.random() < 0.6)
            by_c = {}
            for s in inds:
                if rng.random() < 0.5:
                    by_c[s[1].indent[0][0]] = s
            hs = [s for s in hashes if rng.random() < 0.5]
            tr = rng.choice(trails) if trails and rng.random() < 0.5 else None
            jn = rng.choice(joins) if joins and rng.random() < 0.5 else None
            parts += [f"legacy:{c}" for c in sorted(legacy)] + [s[2] for s in by_c.values()] + [s[2] for s in hs]
            # a trailing comment on an @-form line kind that the legacy print does not contain is dropped
            if tr is not None and not (tr[1].trailing[0].startswith("@") and tr[1].trailing[0] in
                                       ("@if", "@elif", "@else", "@endif", "@for", "@endfor", "@py:", "@endpy")):
                parts.append(tr[2])
            else:
                tr = None
            if jn is not None:
                parts.append(jn[2])
            if len(parts) < 2:
                continue
            style = G.Style(legacy=legacy, indent=tuple(s[1].indent[0] for s in by_c.values()),
                            hash_at=frozenset(next(iter(s[1].hash_at)) for s in hs),
                            trailing=tr[1].trailing if tr else None, comment=comment,
                            join_indent=jn[1].join_indent if jn else "    ")
            oc = self.outcome(story, style, base_res)
            nvar += 1
            self.note("combo", oc is not None)
            if oc is not None:
                label = "combo:" + ",".join(parts)
                self.record(signature_of(story, style, label), story, style, label, oc)
        return base, nvar, varied


UNIT_NAMES = {u: n for n, u in INDENT_UNITS + JOIN_UNITS}


def style_parts(st: G.Style):
    """The one-dimension parts a combined style is made of, as [(label, style without that part)]."""
    out = []
    for c in sorted(st.legacy):
        out.append((f"legacy:{c}", dataclasses.replace(st, legacy=st.legacy - {c})))
    for c, u in st.indent:
        out.append((f"indent:{c}:{UNIT_NAMES.get(u, 'other')}",
                    dataclasses.replace(st, indent=tuple(x for x in st.indent if x[0] != c))))
    for pos in sorted(st.hash_at):
        out.append((f"hash:{pos}", dataclasses.replace(st, hash_at=st.hash_at - {pos})))
    if st.trailing:
        out.append((f"trailing:{st.trailing[0]}@{st.trailing[1]}", dataclasses.replace(st, trailing=None)))
    if st.join_indent != G.BASE.join_indent:
        out.append((f"indent:join:{UNIT_NAMES.get(st.join_indent, 'other')}",
                    dataclasses.replace(st, join_indent=G.BASE.join_indent)))
    return out


def shrink_combo(style, fails):
    """Drop the parts of a combined style that are not needed for the failure; returns (style, label)."""
    progress = True
    while progress:
        progress = False
        for _, without in style_parts(style):
            if len(style_parts(style)) > 1 and fails(without):
                style, progress = without, True
                break
    labels = [l for l, _ in style_parts(style)]
    return style, (labels[0] if len(labels) == 1 else "combo:" + ",".join(labels))


def style_to_json(st: G.Style):
    return {"legacy": sorted(st.legacy), "indent": [list(x) for x in st.indent], "hash_at": sorted(st.hash_at),
            "trailing": list(st.trailing) if st.trailing else None, "join_indent": st.join_indent,
            "comment": st.comment, "hash_col0": st.hash_col0, "hash_where": st.hash_where}


# ------------------------------------------------------------------------------------------------
# helper correspondence + laws
# ------------------------------------------------------------------------------------------------

SIC_ALPHABET = "//\\\\==  \tab{}\"#x"
WS = [" ", " ", " ", "\t", "\t", "\x0b", "\x0c", "\r", "\x1c", "\x1f"]


def gen_sic_lines(rng, n_random, exhaustive_len):
    seen, out = set(), []

    def add(s):
        if s not in seen and C.is_ascii(s):
            seen.add(s)
            out.append(s)

    for n in range(0, exhaustive_len + 1):
        for t in itertools.product("/\\= a", repeat=n):
            add("".join(t))
    for s in ["text // comment", "text \\// not", "// just comment", "a\\//", "a//=", "a//", "x //= 2 // c", "///=",
              "URL: https:\\//example.com // This is a comment", "\\\\//", "/\\//=", "a/ // c", "a\\ // c", "//=//"]:
        add(s)
    for _ in range(n_random):
        add("".join(rng.choice(SIC_ALPHABET) for _ in range(rng.randint(0, 24))))
    return out


def gen_dedent_blocks(rng, n):
    out = []
    for _ in range(n):
        ls = []
        base = "".join(rng.choice(WS) for _ in range(rng.choice([0, 0, 1, 2, 2, 4])))
        for _ in range(rng.randint(0, 7)):
            r = rng.random()
            if r < 0.15:
                ls.append("")
            elif r < 0.3:
                ls.append("".join(rng.choice(WS) for _ in range(rng.randint(1, 5))))
            else:
                ind = base if rng.random() < 0.7 else "".join(rng.choice(WS) for _ in range(rng.randint(0, 6)))
                extra = "".join(rng.choice(WS) for _ in range(rng.choice([0, 0, 0, 2, 4])))
                body = "".join(rng.choice("ab x=/~@") for _ in range(rng.randint(1, 6))).strip() or "a"
                trail = rng.choice(["", "", " ", "\t"])
                ls.append(ind + extra + body + trail)
        out.append(ls)
    return out


def clean_end(s):
    return not (s.endswith("/") or s.endswith("\\"))


def helper_laws(chk, sic, dedent, lines, blocks, rng):
    """The statements of Props/C17.v evaluated on the real helpers."""
    n = 0

    def bad(name, what, inp):
        chk.report(f"helper-law={name}", what, {"kind": "helper-law", "law": name, "input": inp})

    comments = ["c", "", "=x", "a // b", "\\// z", "/", "TODO: fix //= later"]
    for s in lines:
        k, m = sic(s)
        c = rng.choice(comments)
        n += 1
        got = sic(s + " // " + c)
        if m == "":
            if got != (k + " ", "// " + c):
                bad("comment-invisible", f"strip_inline_comment({s + ' // ' + c!r}) = {got!r}, expected {(k + ' ', '// ' + c)!r}", s)
        elif got != (k, m + " // " + c):
            bad("comment-absorbed", f"strip_inline_comment({s + ' // ' + c!r}) = {got!r}", s)
        if got[0].rstrip() != k.rstrip():
            bad("comment-invisible-content", f"content of {s!r} changes under a trailing comment: {got[0]!r} vs {k!r}", s)
        b = rng.choice(lines)
        kb, mb = sic(b)
        if m == "":
            if sic(s + "\\//" + b) != (k + "//" + kb, mb):
                bad("escaped-slashes-kept", f"strip_inline_comment({s + chr(92) + '//' + b!r}) = {sic(s + chr(92) + '//' + b)!r}", [s, b])
            if clean_end(s) and sic(s + "//=" + b) != (k + "//=" + kb, mb):
                bad("floordiv-assign-kept", f"strip_inline_comment({s + '//=' + b!r}) = {sic(s + '//=' + b)!r}", [s, b])
            if clean_end(s) and not c.startswith("=") and sic(s + "//" + c) != (k, "//" + c):
                bad("comment-invisible-glued", f"strip_inline_comment({s + '//' + c!r}) = {sic(s + '//' + c)!r}", [s, c])

    def indent_of(l):
        return len(l) - len(l.lstrip())

    for ls in blocks:
        n += 1
        d = dedent(list(ls))
        if dedent(list(d)) != d:
            bad("dedent-idempotent", f"detect_and_strip_indentation is not idempotent on {ls!r}", ls)
        nb = [l for l in ls if l.strip()]
        if nb and all(indent_of(l) >= indent_of(nb[0]) for l in nb):
            for p in ("  ", "    ", "\t", " \t"):
                got = dedent([(p + l) if l.strip() else l for l in ls])
                if got != d:
                    bad("uniform-indent-invisible", f"indenting {ls!r} by {p!r} gives {got!r}, expected {d!r}", [p, ls])
    return n


# ------------------------------------------------------------------------------------------------
# run
# ------------------------------------------------------------------------------------------------

def run(tier: str, seed: int) -> int:
    chk = C.Check("C17", tier, seed, "proof (helper level, partial) + differential (whole compiler)")
    props = C.coq_gate(chk)
    C.use_repo()
    rng = chk.rng
    quick = tier == "quick"
    n_stories, n_combos, n_rand_lines, exh, n_blocks, shrink_budget = \
        (260, 3, 500, 4, 300, 300) if quick else (2200, 6, 5000, 6, 3000, 600)

    from bardic.compiler.parsing.preprocessing import strip_inline_comment as real_sic
    from bardic.compiler.parsing.indentation import detect_and_strip_indentation as real_dedent

    # ---------------- 3. differential oracle over generated stories ----------------
    diff = Differential(chk)
    dist = {}
    # known findings: the pinned witness of each is re-run (prints its KNOWN-FINDING line); the generator is told
    # not to build those shapes again, so that they cannot mask anything else
    known = chk.known_signatures()
    for sig, entry in sorted(known.items()):
        w = entry.get("witness_case") or {}
        if "baseline_text" in w and "variant_text" in w:
            b, v = compile_src(w["baseline_text"]), compile_src(w["variant_text"])
            if b[0] == "ok" and (v[0] != "ok" or v[1] != b[1]):
                chk.report(sig, entry.get("what", sig), {"kind": "pinned-witness", **w})
            else:
                chk.notes.setdefault("known_findings_not_reproduced", []).append(sig)
    colon_headers = tuple(c for c in ("if", "for") if f"style=legacy,construct={c},cond=has-colon" not in known)
    harvested_lines, harvested_blocks = set(), []
    total_variants = 0
    for i in range(n_stories):
        story = G.gen_story(rng, depth=2 if quick else rng.choice([2, 2, 3]), colon_headers=colon_headers)
        base, nvar, varied = diff.run_story(story, rng, n_combos)
        total_variants += nvar
        for k, v in G.constructs(story).items():
            dist[k] = dist.get(k, 0) + v
        chk.count(base.text, G.has_block(story) and varied)
        if i < 2:
            chk.sample({"kind": "story", "baseline": base.text, "variants": nvar})
        if len(harvested_lines) < (1500 if quick else 8000):
            for l in base.lines:
                harvested_lines.add(l.text)
                if l.kind not in G.NOT_COMMENTABLE:
                    harvested_lines.add(l.text + " // " + rng.choice(["note", "=x", "see \\// there"]))
            ind = G.print_story(story, G.Style(indent=(("if", "  "), ("for", "\t"), ("py", "    "))))
            blk = [l.text for l in ind.lines if l.ctx in ("if", "for", "py", "join") and l.kind != "hash"]
            if blk:
                harvested_blocks.append(blk[:12])
    if diff.invalid:
        chk.disagree("generator", f"{len(diff.invalid)} generated baseline stories do not compile (harness defect or a "
                     "regression of the compiler on documented syntax)", {"source": diff.invalid[0][0],
                                                                         "error": diff.invalid[0][1]})

    # pinned regression witnesses (deterministic; one report per signature, with the first variant that differs)
    pinned_notes = {}
    for sig, what, bt, vts in PINNED_REGRESSIONS:
        b = compile_src(bt)
        total_variants += len(vts)
        if b[0] != "ok":
            chk.disagree("pinned-witness", f"the baseline of the pinned witness {sig} does not compile: {b[1:]}",
                         {"source": bt})
            continue
        bad = []
        for vt in vts:
            v = compile_src(vt)
            if v[0] != "ok":
                bad.append((vt, f"rejected: {v[1]}: {v[2]}"))
            elif v[1] != b[1]:
                bad.append((vt, "compiles differently: " + str(first_difference(b[1], v[1]))))
        pinned_notes[sig] = {"variants": len(vts), "failed": len(bad)}
        if bad and "baseline_text" not in (known.get(sig, {}).get("witness_case") or {}):   # else reported above
            vt, oc = bad[0]
            chk.report(sig, f"{what}: {oc}  [variant source: {vt!r}]",
                       {"kind": "pinned-regression", "outcome": oc, "baseline_text": bt, "variant_text": vt,
                        "variants_failing": len(bad), "variants": len(vts)})
    for sig, at_src, legacy_src in PINNED_BOTH_REJECTED:
        a, l = compile_src(at_src), compile_src(legacy_src)
        total_variants += 1
        pinned_notes[sig] = {"at": a[0], "legacy": l[0]}
        if a[0] == "ok" or l[0] == "ok" or a[1] != l[1]:
            chk.report(sig, f"F17o: the @ form of an unclosed Python block gives {a[:2]}, the legacy form gives {l[:2]} "
                       "(both must be rejected with the same kind of diagnostic)",
                       {"kind": "pinned-regression", "baseline_text": at_src, "variant_text": legacy_src})
    chk.notes["pinned_regression_witnesses"] = pinned_notes

    # one report per signature, with a shrunk witness; the signature reported is that of the shrunk witness
    # (a story with a colon in a header that fails for another reason shrinks to a witness without the colon)
    failing = {}
    combo_seen = {}
    for sig0 in sorted(diff.fail):
        story, style, label, outcome = diff.fail[sig0][0]
        key = None

        def still(cand, style=style):
            if not G.well_formed(cand):
                return False
            oc = diff.outcome(cand, style)
            return oc is not None and oc != "invalid"

        if sig0.startswith("style=baseline"):
            small, oc, sig = story, outcome, sig0
        else:
            if label.startswith("combo:"):
                # keep only the parts of the style the failure needs (before and after reducing the story); a random
                # combination that comes down to parts already reported is counted there and not reduced again
                style, label = shrink_combo(style, lambda st: still(story, st))
                key = signature_of(story, style, label)
                if key in combo_seen:
                    failing[combo_seen[key]]["count"] += len(diff.fail[sig0])
                    continue
            small = G.shrink(story, lambda c, st=style: still(c, st), budget=shrink_budget)
            if label.startswith("combo:"):
                style, label = shrink_combo(style, lambda st: still(small, st))
                small = G.shrink(small, lambda c, st=style: still(c, st), budget=shrink_budget // 3)
            plain = dataclasses.replace(style, comment="note")
            if style.comment != "note" and still(small, plain):
                style = plain
            if style.hash_at and style.hash_where == "every":       # one # line per body is the smaller witness
                one = dataclasses.replace(style, hash_where="first")
                if still(small, one):
                    style = one
            oc = diff.outcome(small, style) or outcome
            sig = signature_of(small, style, label)
        bt, vt = G.print_story(small, G.BASE).text, G.print_story(small, style).text
        if key is not None:
            combo_seen.setdefault(key, sig)
        if sig in failing:
            failing[sig]["count"] += len(diff.fail[sig0])
            continue
        failing[sig] = {"count": len(diff.fail[sig0]), "outcome": oc, "variant": label, "baseline_text": bt,
                        "variant_text": vt}
        chk.report(sig, f"{label}: {oc}  [variant source: {vt!r}]",
                   {"kind": "style-variant", "style": style_to_json(style), "label": label, "outcome": oc,
                    "story": G.story_to_json(small), "baseline_text": bt, "variant_text": vt,
                    "times_seen": len(diff.fail[sig0])})

    # ---------------- 1. correspondence of the helpers ----------------
    lines = gen_sic_lines(rng, n_rand_lines, exh)
    lines += [l for l in sorted(harvested_lines) if C.is_ascii(l)][: (1500 if quick else 8000)]
    blocks = gen_dedent_blocks(rng, n_blocks) + harvested_blocks[: (200 if quick else 1500)]
    blocks += [[], [""], ["  "], ["  a", "b"], ["\ta", "\t\tb", "", " c"]]
    sic_terms = []
    for s in lines:
        k, m = real_sic(s)
        sic_terms.append(f"({coq_str(s)}, ({coq_str(k)}, {coq_str(m)}))")
    ded_terms = []
    for ls in blocks:
        got = real_dedent(list(ls))
        ded_terms.append(f"({coq_list(coq_str(x) for x in ls)}, {coq_list(coq_str(x) for x in got)})")
    disagreements = 0
    for terms, cases, ctype, bad_fn, show_fn, label in [
            (sic_terms, lines, "sic_case", "sic_case_bad", "sic_case_show", "strip_inline_comment"),
            (ded_terms, blocks, "dedent_case", "dedent_case_bad", "dedent_case_show", "detect_and_strip_indentation")]:
        bad, shown, log = C.run_coq_cases(chk.scratch, HEADER, terms, ctype, bad_fn, show_fn=show_fn, shard=400)
        for b in bad:
            disagreements += 1
            if isinstance(b, int):
                impl = real_sic(cases[b]) if label == "strip_inline_comment" else real_dedent(list(cases[b]))
                chk.disagree(label, f"model Compiler/Lex.v and implementation differ on {label}({cases[b]!r}): "
                             f"implementation {impl!r}, model {shown.get(b)}",
                             {"input": cases[b], "implementation": impl, "model_says": shown.get(b)})
            else:
                chk.disagree(label + "-coqc", "case shard failed to evaluate", {"log": log})

    # ---------------- 2. the proved laws on the real helpers ----------------
    n_laws = helper_laws(chk, real_sic, real_dedent, lines, blocks, rng)

    # ---------------- evidence ----------------
    chk.cov["programs"] = n_stories
    chk.cov["evaluations"] = total_variants + len(lines) + len(blocks) + n_laws
    chk.cov["disagreements_checked"] = len(lines) + len(blocks)
    chk.cov["disagreements_found"] = disagreements
    chk.cov["rule"] = ("a story counts as non-trivial when it contains at least one block construct (@if/@for/@py or a "
                       "join block) and at least one comment/indentation/legacy variant of it was compiled and compared; "
                       "distinct = by the text of the baseline print")
    chk.notes["stories"] = n_stories
    chk.notes["style_variants_compiled"] = total_variants
    chk.notes["compile_calls_including_shrinking"] = diff.compiles
    chk.notes["per_style_family"] = {k: {"variants": v[0], "failed": v[1]} for k, v in sorted(diff.per_style.items())}
    chk.notes["construct_distribution"] = dict(sorted(dist.items()))
    chk.notes["failing_signatures"] = failing
    chk.notes["helper_cases"] = {"strip_inline_comment": len(lines), "detect_and_strip_indentation": len(blocks),
                                 "exhaustive_over": "all strings over {/ \\ = space a} up to length %d" % exh,
                                 "law_evaluations": n_laws}
    chk.notes["input_distribution"] = (
        "harness/storygen.py: random stories of 2-4 passages (text with {expr}/inline conditionals/escaped slashes, "
        "single- and multi-line ~ statements (lists, dicts, parenthesised sums with the operator first or last on the "
        "line, calls, nested and doubly-open brackets; // -> <> ^ inside the continuation lines) at top level and in "
        "@if/@for bodies and join blocks, Python blocks assembled from statements and compound statements with blank "
        "lines first/last/in between and whitespace-only lines, Python blocks with an indented first line and continuation "
        "lines of bracketed expressions / lines of triple-quoted strings indented less than it (top level and inside "
        "@if/@for bodies), nested @if/@for, jumps, choices, join sections, "
        "@render/@input/@hook); each story printed in: legacy form per construct, body indentation per construct x "
        "{2sp,4sp,tab}, join indentation x {2sp,tab,6sp}, # comment lines per position, a trailing // comment per "
        "(line kind, context), trailing comments on the legacy forms, the pairs legacy:<c>+indent:<c> and "
        "legacy:py+indent:<enclosing>, # lines at column 0 in an indented @if/@for body, and random combinations of "
        "the parts that passed")
    ui = {k: v for k, v in dist.items() if "under-indented" in k or "first-line-indented" in k}
    chk.notes["under_indented_python_blocks"] = {
        "family": "Python blocks written with an indented first line and later non-blank lines indented less "
                  "(continuation lines of a bracketed expression / lines of a triple-quoted string; storygen."
                  "gen_under_indented_py_block, valid Python after the documented dedent, checked with ast.parse)",
        "blocks_by_shape_and_context": dict(sorted(ui.items())),
        "compared": "legacy <<py vs @py:, indentation of the enclosing @if/@for body x {2sp,4sp,tab}, # comment lines, "
                    "trailing comments, the pairs legacy:py+indent:<enclosing> and random combinations",
        "stories_whose_indent:py_variants_are_not_built": diff.py_indent_not_built,
        "why_not_built": "indenting the body of such a block is outside the hypothesis well_indented of "
                         "uniform_indent_invisible_partial (Props/C17.v shows the hypothesis is necessary)"}
    chk.notes["baseline_invalid"] = len(diff.invalid)
    chk.notes["variants_not_built_because_known_finding"] = diff.skipped_known
    chk.notes["not_a_theorem"] = ("parse (print style s) independent of style is decided by the differential oracle only; "
                                  "Props/C17.v proves the helper-level statements (suffix _partial)")
    chk.assumptions = [
        "ASCII sources only; generated stories stay inside the documented language (docs/spec.md) and compile",
        "imports and @metadata are not generated (one pinned @metadata witness, PINNED_REGRESSIONS); bardic comments are not placed inside @py bodies nor on the "
        "continuation lines of a multi-line ~ statement (those lines are Python)",
        "multi-line ~ statements are generated at top level and in @if/@for bodies and join blocks; the parser of join "
        "blocks takes only the first line of such a statement (the rest becomes text) - the same in every surface "
        "style, so it is outside C17; the intact oracle does not judge statements in join blocks",
        "whitespace-only lines of a Python block and blank lines are printed as written under every indentation style "
        "(the reading of 'uniform indentation' of uniform_indent_invisible_partial in Props/C17.v)",
        "the body of a Python block that contains a non-blank line indented less than its first line is not given an "
        "indentation of its own (style indent:py): outside the hypothesis of uniform_indent_invisible_partial; its legacy "
        "form and the indentation of the enclosing @if/@for body are compared",
        "a # comment line at column 0 is only generated in @if/@for bodies; inside a join block (where it ended the "
        "block before fix F17m) it is covered by a pinned witness only (PINNED_REGRESSIONS)",
        "a top-level blank line directly after a join choice is not generated (its attribution to the block depends on "
        "the neighbouring lines by design of indentation-delimited blocks)",
    ]
    return chk.finish(props, C.BASE_TRUST + [
        "modelled: bardic/compiler/parsing/preprocessing.py:strip_inline_comment and indentation.py:"
        "detect_and_strip_indentation (Compiler/Lex.v); the parser itself is NOT modelled - whole-compiler claims rest "
        "on the differential oracle with harness/storygen.py as printer"],
        "make -C /verif/coq && coqc -Q /verif/coq Bardic /verif/coq/Props/C17.v")



def replay(path: str) -> int:
    """Re-run the style variants of a replay file against the current tree: prints, per violation, whether the
    variant still compiles differently from its baseline.  Returns 1 when at least one still does."""
    C.use_repo()
    doc = json.load(open(path))
    still = 0
    for v in doc.get("violations", []):
        r = v.get("replay", {})
        if "baseline_text" in r and "variant_text" in r:
            b, x = compile_src(r["baseline_text"]), compile_src(r["variant_text"])
            if b[0] != "ok":
                state = "baseline no longer compiles"
            elif x[0] != "ok":
                state = f"still fails: rejected: {x[1]}: {x[2]}"
            elif x[1] != b[1]:
                state = "still fails: compiles differently: " + str(first_difference(b[1], x[1]))
            else:
                state = "now identical"
            still += state.startswith("still")
            print(f"{v['signature']}: {state}")
        else:
            print(f"{v['signature']}: not a style variant ({v.get('what', '')[:120]})")
    return 1 if still else 0
