"""C18 — the story graph covers every engine transition and flags exactly missing targets.

(a) correspondence: generated stories (harness/enginegen.py -> real compiler) and JSON-edited variants with
    deliberately undefined targets -> real bardic.cli.graph.extract_connections vs Graph/Graph.v, compared
    inside Coq (edges per passage as sets, referenced / defined / missing as sets, wf_graphb on compiler output);
(b) direct oracle on the implementation (model independent): every generated story is played on the real
    engine with random histories of valid choices and goto calls; every observed hop (the story variable `tr`
    logs each passage entered) and every offered choice must be an edge reported by the real
    extract_connections; `missing` must be exactly the referenced-but-undefined targets found by an
    independent generic walk of the JSON, and must never contain the reserved "@join";
(c) the generated `emitted_kinds` obligation (DESIGN.md 3(b)): a Python-ast scan of the compiler for every
    {"type": "<kind>"} literal it can emit; each kind must be known to story2coq.token and classified here as
    able / unable to contain or be a transition; for the able ones a crafted story per kind is compiled, the
    walk must report the edge and the engine must perform it; for the unable ones a jump token smuggled into
    the position must be ignored by the engine.  An unknown kind fails the check closed."""
from __future__ import annotations

import ast
import copy
import glob
import json
import os
import random
import re
import shutil
import tempfile

from . import common as C
from . import enginegen as G
from . import enginerun as R
from . import story2coq as S
from .common import coq_str, coq_list, coq_bool
from .engine_props import tr_of
from .pymini import Unsupported

HEADER = ("From Coq Require Import List String.\n"
          "From Bardic Require Import PyStr Value Compiled Graph GraphCheck.")
JOIN = "@join"


# ------------------------------------------------------------------------------------------------
# Coq terms
# ------------------------------------------------------------------------------------------------

class NoTables:
    """story2coq collects code tables for the engine model; the graph model needs the structure only."""
    def want_expr(self, *_): pass
    def want_display(self, *_): pass
    def want_stmt(self, *_): pass
    def want_args(self, *_): pass
    def want_spec(self, *_): pass


def kind_term(label, is_jump):
    if is_jump is True:
        return "KJump"
    k = {"[choice]": "KChoice", "[conditional]": "KCond", "[loop]": "KLoop"}.get(label)
    if k is None or is_jump is not False:
        raise Unsupported(f"edge label {label!r}/{is_jump!r} (string-typed choice text is outside the typed model)")
    return k


def conns_term(conns):
    return coq_list(
        f"({coq_str(S.check_ascii(pid))}, {coq_list(f'({coq_str(S.check_ascii(t))}, {kind_term(l, j)})' for (t, l, j) in es)})"
        for pid, es in conns.items())


def strs_term(xs):
    return coq_list(coq_str(S.check_ascii(x)) for x in sorted(xs))


def case_term(story, conns, refd, defd, miss, compiled):
    return "(%s, %s, %s, %s, %s, %s)" % (S.story(story, NoTables()), conns_term(conns), strs_term(refd),
                                         strs_term(defd), strs_term(miss), coq_bool(compiled))


# ------------------------------------------------------------------------------------------------
# independent reading of the JSON
# ------------------------------------------------------------------------------------------------
# Sub-trees from which the engine never takes a transition (checked in phase (c) on the real engine):
# the text of a choice, the block of a "-> @join" choice, the pieces of an inline conditional.
INERT_KEYS = ("text", "block_content", "truthy", "falsy")


def indep_targets(passage):
    """{(target, 'jump'|'choice', depth)} found by a generic recursive walk of content and choices: any dict
    with type == 'jump' and a target, any dict with both 'text' and 'target' (a choice), at any depth."""
    out = set()

    def walk(x, depth):
        if isinstance(x, dict):
            if x.get("type") == "jump" and x.get("target"):
                out.add((x["target"], "jump", depth))
            elif "text" in x and "target" in x and x.get("target"):
                out.add((x["target"], "choice", depth))
            for k, v in x.items():
                if k not in INERT_KEYS:
                    walk(v, depth + (1 if x.get("type") in ("conditional", "for_loop") else 0))
        elif isinstance(x, list):
            for y in x:
                walk(y, depth)

    walk(passage.get("choices", []), 0)
    walk(passage.get("content", []), 0)
    return out


def all_sites(story):
    """Every dict carrying a target (choice or jump token) outside the inert sub-trees: for JSON editing."""
    sites = []

    def walk(x):
        if isinstance(x, dict):
            if (x.get("type") == "jump" or ("text" in x and "target" in x)) and x.get("target"):
                sites.append(x)
            for k, v in x.items():
                if k not in INERT_KEYS:
                    walk(v)
        elif isinstance(x, list):
            for y in x:
                walk(y)

    for p in story["passages"].values():
        walk(p.get("choices", []))
        walk(p.get("content", []))
    return sites


def token_kinds(story):
    """All (kind, token) pairs anywhere in the story, for the structural part of the emitted-kinds obligation."""
    out = []

    def walk(x):
        if isinstance(x, dict):
            if "type" in x:
                out.append((x["type"], x))
            for v in x.values():
                walk(v)
        elif isinstance(x, list):
            for y in x:
                walk(y)

    for p in story["passages"].values():
        walk(p)
    return out


# ------------------------------------------------------------------------------------------------
# real code
# ------------------------------------------------------------------------------------------------

def real_graph(story):
    from bardic.cli.graph import extract_connections
    with C.quiet():
        conns, refd, defd = extract_connections(copy.deepcopy(story))
    return conns, set(refd), set(defd)


def real_missing_via_generate_graph(story, tmpdir, k):
    """`missing` as generate_graph prints it (graphviz renders into a scratch directory)."""
    from bardic.cli.graph import generate_graph
    from pathlib import Path
    f = os.path.join(tmpdir, f"s{k}.json")
    with open(f, "w") as fh:
        json.dump(story, fh)
    with C.quiet() as buf:
        generate_graph(Path(f), Path(os.path.join(tmpdir, f"g{k}")), format="svg")
    text = buf.getvalue()
    m = re.search(r"Missing passages \((\d+)\):\n((?:  - .*\n?)*)", text)
    if not m:
        return set()
    return {ln[4:] for ln in m.group(2).split("\n") if ln.startswith("  - ")}


# ------------------------------------------------------------------------------------------------
# (b) direct oracle
# ------------------------------------------------------------------------------------------------

def check_missing(chk, story, conns, refd, defd, replay, stats):
    """missing = referenced - defined must be the referenced-but-undefined targets of the independent walk."""
    ind = {pid: indep_targets(p) for pid, p in story["passages"].items()}
    want_ref = {t for s in ind.values() for (t, _, _) in s if t != JOIN}
    want_missing = want_ref - set(story["passages"].keys())
    got_missing = refd - defd
    if JOIN in got_missing:
        chk.report("join-flagged-missing",
                   "the reserved choice target '@join' is reported as a missing passage (referenced - defined contains '@join')",
                   dict(replay, referenced=sorted(refd), defined=sorted(defd)))
        stats["join_flagged"] += 1
    rest = got_missing - {JOIN}
    if rest != want_missing:
        where = "missing-target-not-flagged" if want_missing - rest else "defined-or-unreferenced-target-flagged"
        chk.report(where, f"missing = {sorted(rest)} but the referenced-and-undefined targets are {sorted(want_missing)}",
                   dict(replay, referenced=sorted(refd), defined=sorted(defd)))
    E = {(p, t) for p, l in conns.items() for (t, _, _) in l}
    # every static site is an edge (independent of play): depth tags the mechanism
    for pid, s in ind.items():
        for (t, kind, depth) in s:
            if t != JOIN and (pid, t) not in E:
                chk.report(f"site-not-an-edge:{kind}:depth={min(depth, 3)}",
                           f"{kind} {pid} -> {t} at block depth {depth} is not reported by extract_connections", replay)
    return E, ind


def check_play(chk, story, E, recs, replay, stats):
    tainted = False          # a navigation failed half-way earlier: position may be ahead of what is shown
    for k, rc in enumerate(recs):
        if rc["obs"][0] == "exc" and rc["obs"][1] != "IndexError":
            tainted = True
        v, b = rc["view"], rc.get("before")
        if v is None:
            continue
        if rc["obs"][0] in ("ok", "bool"):
            for (_, tg, _) in v["choices"]:
                stats["offers"] += 1
                if tg != JOIN and (v["pid"], tg) not in E:
                    nested = not any(c["target"] == tg for c in story["passages"].get(v["pid"], {}).get("choices", []))
                    chk.report("offered-choice-not-an-edge:" + ("block" if nested else "passage"),
                               f"{v['pid']} offers a choice to {tg}: no such edge", dict(replay, step=k))
        if b is None or rc["op"][0] not in ("choose", "goto"):
            continue
        tb_, tv = tr_of(b), tr_of(v)
        if tv[:len(tb_)] != tb_:
            continue
        chain = []
        for x in tv[len(tb_):]:
            if x.startswith("H"):      # turn_end hook passages run after the navigation
                break
            chain.append(x)
        if rc["op"][0] == "choose":
            i = rc["op"][1]
            if not (0 <= i < len(b["choices"])):
                continue
            tgt = b["choices"][i][1]
            if tgt == JOIN:
                if chain:
                    chk.report("join-choice-entered-a-passage", f"'-> @join' from {b['pid']} entered {chain}", dict(replay, step=k))
                # (not judged in the half-navigated state a failed navigation leaves - position ahead of what is shown)
                if rc["obs"][0] == "ok" and not tainted and (v["pid"] != b["pid"] or v["cur"] != b["pid"]):
                    chk.report("join-choice-changed-passage",
                               f"'-> @join' taken in {b['pid']} left the game in {v['cur']} showing {v['pid']}: a transition "
                               "that is no edge ('@join' is not a passage reference)", dict(replay, step=k))
                stats["join_choices"] += 1
                continue
            prev, first = b["pid"], True
        else:
            prev, first = None, False
        for x in chain:
            if prev is not None:
                stats["hops"] += 1
                if not first:
                    stats["jump_hops"] += 1
                if (prev, x) not in E:
                    chk.report("hop-not-an-edge:" + ("choice" if first else "jump"),
                               f"the engine went {prev} -> {x} ({'choice' if first else 'jump'}): no such edge",
                               dict(replay, step=k, chain=chain))
            prev, first = x, False


# ------------------------------------------------------------------------------------------------
# (c) emitted kinds
# ------------------------------------------------------------------------------------------------

SAMPLES = {
    "text": {"type": "text", "value": "x"},
    "expression": {"type": "expression", "code": "a"},
    "inline_conditional": {"type": "inline_conditional", "condition": "a", "truthy": [], "falsy": []},
    "conditional": {"type": "conditional", "branches": []},
    "for_loop": {"type": "for_loop", "variable": "i", "collection": "xs", "content": []},
    "jump": {"type": "jump", "target": "A", "args": ""},
    "python_statement": {"type": "python_statement", "code": "a = 1"},
    "python_block": {"type": "python_block", "code": "a = 1"},
    "hook": {"type": "hook", "action": "add", "event": "turn_end", "target": "H"},
    "render_directive": {"type": "render_directive", "name": "n", "args": ""},
    "input": {"type": "input", "name": "n"},
    "join_marker": {"type": "join_marker", "id": 0},
}
CAN_TRANSITION = {"jump", "conditional", "for_loop"}
CANNOT_TRANSITION = {"text", "expression", "inline_conditional", "python_statement", "python_block", "hook",
                     "render_directive", "input", "join_marker"}
# what an inert token may hold in list-valued fields
INERT_CHILDREN = {"inline_conditional": {"text", "expression", "inline_conditional"}}

TAIL = "\n\n:: A\n[A]\n+ [Back] -> Start\n\n:: B\n[B]\n+ [Back] -> Start\n"
CRAFTED = [
    # (kind, label, source, ops, edges that must be reported, passage the engine must end in / offer)
    ("jump", "top-level jump", ":: Start\nS\n+ [Go] -> M\n\n:: M\nmid\n-> A" + TAIL, [("choose", 0)], [("M", "A")], ("pid", "A")),
    ("jump", "jump with arguments", ":: Start\nS\n+ [Go] -> M\n\n:: M\nmid\n-> P(1, 2)\n\n:: P(x, y)\n[P] {x}\n+ [Back] -> Start\n",
     [("choose", 0)], [("M", "P")], ("pid", "P")),
    ("conditional", "choice in @if", ":: Start\nS\n@if True:\n    + [In] -> A\n@endif" + TAIL, [], [("Start", "A")], ("offer", "A")),
    ("conditional", "jump in @if", ":: Start\nS\n+ [Go] -> M\n\n:: M\n@if True:\n    text\n    -> A\n@endif" + TAIL,
     [("choose", 0)], [("M", "A")], ("pid", "A")),
    ("conditional", "choice in @elif/@else", ":: Start\nS\n@if False:\n    no\n@elif False:\n    + [E] -> B\n@else:\n    + [In] -> A\n@endif" + TAIL,
     [], [("Start", "A"), ("Start", "B")], ("offer", "A")),
    ("for_loop", "choice in @for", ":: Start\nS\n@for i in [1]:\n    + [In {i}] -> A\n@endfor" + TAIL, [], [("Start", "A")], ("offer", "A")),
    ("for_loop", "jump in @for", ":: Start\nS\n+ [Go] -> M\n\n:: M\n@for i in [1]:\n    row\n    -> A\n@endfor" + TAIL,
     [("choose", 0)], [("M", "A")], ("pid", "A")),
    ("conditional", "choice in @for in @if", ":: Start\nS\n@if True:\n    @for i in [1]:\n        + [In] -> A\n    @endfor\n@endif" + TAIL,
     [], [("Start", "A")], ("offer", "A")),
    ("for_loop", "choice in @if in @for", ":: Start\nS\n@for i in [1]:\n    @if True:\n        + [In] -> A\n    @endif\n@endfor" + TAIL,
     [], [("Start", "A")], ("offer", "A")),
    ("for_loop", "jump in @if in @for in @if", ":: Start\nS\n+ [Go] -> M\n\n:: M\n@if True:\n    @for i in [1]:\n        @if True:\n            -> A\n        @endif\n    @endfor\n@endif" + TAIL,
     [("choose", 0)], [("M", "A")], ("pid", "A")),
]

JOIN_STORY = ":: Start\nS\n+ [Go] -> J\n\n:: J\n[J]\nintro\n+ [Pick] -> @join\n    block text\n@join\nafter\n+ [Leave] -> Start\n"
INLINE_STORY = ":: Start\nS {True ? yes | no}\n+ [Go] -> A" + TAIL


def scan_emitted_kinds(chk):
    """Every {"type": <constant>} dict literal (and x["type"] = <constant> store) in the compiler's parsing package."""
    kinds, dynamic = {}, []
    files = sorted(glob.glob(os.path.join(C.REPO, "bardic", "compiler", "parsing", "*.py")))
    for path in files:
        tree = ast.parse(open(path).read(), filename=path)
        for node in ast.walk(tree):
            vals = []
            if isinstance(node, ast.Dict):
                for k, v in zip(node.keys, node.values):
                    if isinstance(k, ast.Constant) and k.value == "type":
                        vals.append(v)
            elif isinstance(node, ast.Assign):
                for t in node.targets:
                    if isinstance(t, ast.Subscript) and isinstance(t.slice, ast.Constant) and t.slice.value == "type":
                        vals.append(node.value)
            elif isinstance(node, ast.Call) and isinstance(node.func, ast.Name) and node.func.id == "dict":
                for kw in node.keywords:
                    if kw.arg == "type":
                        vals.append(kw.value)
            for v in vals:
                site = f"{os.path.basename(path)}:{node.lineno}"
                if isinstance(v, ast.Constant) and isinstance(v.value, str):
                    kinds.setdefault(v.value, []).append(site)
                else:
                    dynamic.append(site)
    if not files:
        chk.report("emitted-kinds:no-compiler-sources", "no file under bardic/compiler/parsing", {"repo": C.REPO})
    for site in dynamic:
        chk.report("emitted-kinds:non-constant-type", f"a token type that is not a string literal is built at {site}", {"site": site})
    return kinds


def emitted_kinds_phase(chk, stats):
    kinds = scan_emitted_kinds(chk)
    stats["emitted_kinds"] = {k: len(v) for k, v in sorted(kinds.items())}
    for kind, sites in sorted(kinds.items()):
        replay = {"kind": kind, "sites": sites[:5]}
        if kind not in SAMPLES or (kind not in CAN_TRANSITION and kind not in CANNOT_TRANSITION):
            chk.report(f"emitted-kind-unknown:{kind}",
                       f"the compiler can emit a token of kind {kind!r} ({sites[0]}) that the C18 check does not classify: "
                       "the graph walk and the model must be re-established for it", replay)
            continue
        try:
            S.token(SAMPLES[kind], NoTables())
        except Unsupported as e:
            chk.report(f"emitted-kind-not-in-model:{kind}", f"story2coq.token does not know kind {kind!r}: {e}", replay)
    for kind in sorted(CAN_TRANSITION):
        if kind not in kinds:
            chk.notes.setdefault("kinds_not_emitted", []).append(kind)
    # kinds that can be or contain a transition: the walk must visit them, the engine must act on them
    for kind, label, src, ops, want_edges, expect in CRAFTED:
        replay = {"kind": kind, "crafted": label, "story_source": src, "ops": ops}
        try:
            story = R.compile_story(src)
        except Exception as e:  # noqa
            chk.report(f"crafted-story-rejected:{kind}", f"{label}: the compiler rejected the crafted story: {e}", replay)
            continue
        if kind not in {k for k, _ in token_kinds(story)}:
            chk.report(f"crafted-story-has-no-{kind}", f"{label}: compiled story holds no {kind} token", replay)
        conns, refd, defd = real_graph(story)
        E = {(p, t) for p, l in conns.items() for (t, _, _) in l}
        for e in want_edges:
            if e not in E:
                chk.report(f"walk-skips:{kind}:{label.replace(' ', '-')}", f"{label}: edge {e[0]} -> {e[1]} is not reported", replay)
        recs, _ = R.run_history(story, ops)
        v = recs[-1]["view"]
        ok = v is not None and recs[-1]["obs"][0] == "ok" and (
            v["pid"] == expect[1] if expect[0] == "pid" else any(tg == expect[1] for _, tg, _ in v["choices"]))
        if not ok:
            chk.report(f"engine-does-not-transition:{kind}:{label.replace(' ', '-')}",
                       f"{label}: expected {expect}, engine shows {v and (v['pid'], v['choices'])}", replay)
        stats["crafted"] += 1
        chk.count(("crafted", label), True)
    # kinds / positions that cannot: a jump token smuggled in must be ignored by the engine
    for label, src, edit, ops in [
        ("inline_conditional", INLINE_STORY,
         lambda st: [t for t in st["passages"]["Start"]["content"] if t["type"] == "inline_conditional"][0]["truthy"].append(
             {"type": "jump", "target": "B", "args": ""}), []),
        ("join-choice block_content", JOIN_STORY,
         lambda st: st["passages"]["J"]["choices"][0]["block_content"].append({"type": "jump", "target": "Start", "args": ""}),
         [("choose", 0), ("choose", 0)]),
        ("choice text", INLINE_STORY,
         lambda st: st["passages"]["Start"]["choices"][0]["text"].append({"type": "jump", "target": "B", "args": ""}), []),
    ]:
        replay = {"position": label, "story_source": src, "ops": ops}
        try:
            story = R.compile_story(src)
            edit(story)
        except Exception as e:  # noqa
            chk.report("crafted-story-rejected:inert", f"{label}: {e}", replay)
            continue
        recs, _ = R.run_history(story, ops)
        v = recs[-1]["view"]
        want_pid = "J" if label.startswith("join") else "Start"
        if v is None or recs[-1]["obs"][0] != "ok" or v["pid"] != want_pid:
            chk.report(f"inert-position-transitions:{label.replace(' ', '-')}",
                       f"a jump token placed in {label} was acted on: engine shows {v and v['pid']}", replay)
        stats["inert_positions"] += 1
        chk.count(("inert", label), True)


def structural_kinds_check(chk, story, replay, stats):
    """On compiler output: every token kind is classified; inert kinds hold no nested transition-capable token."""
    for kind, tok in token_kinds(story):
        stats["kinds_seen"][kind] = stats["kinds_seen"].get(kind, 0) + 1
        if kind in CAN_TRANSITION:
            continue
        if kind not in CANNOT_TRANSITION:
            chk.report(f"emitted-kind-unknown:{kind}", f"compiled story holds a token of unclassified kind {kind!r}", replay)
            continue
        for key, val in tok.items():
            if isinstance(val, list):
                for child in val:
                    if isinstance(child, dict) and child.get("type") not in INERT_CHILDREN.get(kind, set()):
                        chk.report(f"inert-kind-holds-{child.get('type')}:{kind}",
                                   f"a {kind} token holds a {child.get('type')} token under {key!r}", replay)


# ------------------------------------------------------------------------------------------------
# stories
# ------------------------------------------------------------------------------------------------

PINNED_JOIN = ":: Start\nA\n+ [Go on] -> @join\n    block\n@join\nB\n+ [Again] -> Start\n"
# the reserved target at every position the walk visits (passage level, @if, @for, nested)
JOIN_POSITIONS = [
    ":: Start\nA\n@for i in [1, 2]:\n    item {i}\n    + [Take {i}] -> @join\n@endfor\n@join\nB\n+ [Again] -> Start\n",
    ":: Start\nA\n@if True:\n    + [In if] -> @join\n@endif\n@join\nB\n+ [Again] -> Start\n",
    ":: Start\nA\n@if True:\n    @for i in [1]:\n        + [Deep {i}] -> @join\n    @endfor\n@endif\n@join\nB\n+ [Again] -> Start\n",
    ":: Start\nA\n@for i in [1]:\n    @if i:\n        + [Deep2] -> @join\n    @else:\n        + [Other] -> Start\n    @endif\n@endfor\n@join\nB\n+ [Again] -> Start\n",
]


def gen_join_mix(r):
    """'-> @join' choices mixed, in any order, with ordinary choices inside @if/@elif/@else branches and @for bodies
    (nested up to two levels): every ordinary one must be an edge whatever stands before it."""
    n = [0]

    def choices(ind, loopvar=None):
        out = []
        for _ in range(r.randint(1, 4)):
            n[0] += 1
            lab = f"C{n[0]}" + (" {" + loopvar + "}" if loopvar and r.random() < 0.5 else "")
            mark = r.choice("+*")
            cond = "{True} " if r.random() < 0.2 else ""
            tg = "@join" if r.random() < 0.45 else r.choice(["A", "B", "Start", "A"])
            out.append(f"{ind}{mark} {cond}[{lab}] -> {tg}")
        return out

    def block(ind, depth):
        k = r.random()
        if k < 0.55:
            out = [f"{ind}@if {r.choice(['True', 'a > 0', 'a < 0'])}:", f"{ind}    text"] + choices(ind + "    ")
            if depth < 2 and r.random() < 0.4:
                out += block(ind + "    ", depth + 1)
            if r.random() < 0.5:
                out += [f"{ind}@elif {r.choice(['True', 'a == 1'])}:"] + choices(ind + "    ")
            if r.random() < 0.5:
                out += [f"{ind}@else:"] + choices(ind + "    ")
            return out + [f"{ind}@endif"]
        out = [f"{ind}@for i in [1, 2]:", f"{ind}    row {{i}}"] + choices(ind + "    ", "i")
        if depth < 2 and r.random() < 0.4:
            out += block(ind + "    ", depth + 1)
        return out + [f"{ind}@endfor"]

    lines = [":: Start", "~ tr = _state.get('tr', []) + ['Start']", "~ a = 1", "[Start]"]
    for _ in range(r.randint(1, 2)):
        lines += block("", 1)
    lines += choices("") + ["@join", "after the marker"]
    if r.random() < 0.5:
        lines += block("", 1)
    lines += ["+ [Again] -> Start", "", ":: A", "~ tr = _state.get('tr', []) + ['A']", "[A]", "+ [Back] -> Start", "",
              ":: B", "~ tr = _state.get('tr', []) + ['B']", "[B]", "+ [Back] -> Start", ""]
    return "\n".join(lines)


def edit_undefined(story, r):
    """Redirect some targets (any depth) to undefined passages; returns the edited copy and the new names."""
    st = copy.deepcopy(story)
    sites = [s for s in all_sites(st) if s["target"] != JOIN]
    ghosts = []
    if not sites:
        return st, ghosts
    for k in range(r.randint(1, min(3, len(sites)))):
        s = r.choice(sites)
        name = f"Ghost{k}"
        s["target"] = name
        s["args"] = ""
        ghosts.append(name)
    if r.random() < 0.3:          # a passage that nobody defines but two sites use
        for s in r.sample(sites, min(2, len(sites))):
            s["target"] = "Shared"
        ghosts.append("Shared")
    return st, ghosts


def run(tier: str, seed: int) -> int:
    chk = C.Check("C18", tier, seed, "proof")
    props = C.coq_gate(chk)
    C.use_repo()
    rng = chk.rng
    n_stories, n_hist, n_ops, n_graphviz = (300, 3, 10, 8) if tier == "quick" else (2000, 5, 24, 40)
    stats = {"compile_failed": 0, "unsupported": 0, "hops": 0, "jump_hops": 0, "offers": 0, "join_choices": 0,
             "join_flagged": 0, "edited": 0, "crafted": 0, "inert_positions": 0, "kinds_seen": {}, "gen": {},
             "edges_by_kind": {}, "nested_sites": 0, "graphviz_runs": 0}
    terms, metas = [], []
    tmpdir = tempfile.mkdtemp(prefix="bardic_c18_graph_")

    def add_case(story, src, sub, compiled, tag):
        conns, refd, defd = real_graph(story)
        miss = refd - defd
        replay = {"subseed": sub, "story_source": src, "variant": tag}
        if not compiled:
            replay["story_json"] = story
        E, ind = check_missing(chk, story, conns, refd, defd, replay, stats)
        for l in conns.values():
            for (_, lab, j) in l:
                key = "jump" if j else lab
                stats["edges_by_kind"][key] = stats["edges_by_kind"].get(key, 0) + 1
        stats["nested_sites"] += sum(1 for s in ind.values() for (_, _, d) in s if d >= 1)
        if stats["graphviz_runs"] < n_graphviz and (not compiled or stats["graphviz_runs"] % 2 == 0):
            try:
                gm = real_missing_via_generate_graph(story, tmpdir, stats["graphviz_runs"])
                stats["graphviz_runs"] += 1
                if gm != miss:
                    chk.report("generate-graph-missing-differs",
                               f"generate_graph prints missing = {sorted(gm)}, referenced - defined = {sorted(miss)}", replay)
            except Exception as e:  # noqa   (graphviz binary not usable: recorded, not a finding about bardic)
                chk.notes["graphviz_unavailable"] = repr(e)[:200]
                stats["graphviz_runs"] = n_graphviz
        try:
            terms.append(case_term(story, conns, refd, defd, miss, compiled))
            metas.append((sub, src, tag, None if compiled else story))
        except Unsupported as e:
            stats["unsupported"] += 1
            if compiled:
                chk.disagree("unsupported-shape", f"a compiled story or its graph is outside the typed model: {e}", replay)
        return E, conns, ind

    with C.quiet():
        # pinned witness of F18a (reported by signature; fixed tree: nothing is reported)
        story = R.compile_story(PINNED_JOIN)
        add_case(story, PINNED_JOIN, 0, True, "pinned-join")
        for k_join, src_join in enumerate(JOIN_POSITIONS):
            try:
                st_join = R.compile_story(src_join)
            except Exception:  # noqa
                stats["compile_failed"] += 1
                continue
            add_case(st_join, src_join, k_join + 1, True, "join-position")

        # generated mixtures of join and ordinary choices inside blocks: graph comparison and play
        for k_mix in range(40 if tier == "quick" else 400):
            sub = rng.randrange(10 ** 9)
            r = random.Random(sub)
            src_mix = gen_join_mix(r)
            try:
                st_mix = R.compile_story(src_mix)
            except Exception:  # noqa
                stats["compile_failed"] += 1
                continue
            E_mix, _, _ = add_case(st_mix, src_mix, sub, True, "join-mix")
            stats["join_mix"] = stats.get("join_mix", 0) + 1
            ops = [("choose_valid", r.randint(0, 7)) for _ in range(r.randint(2, 6))]
            recs, _ = R.run_history(st_mix, ops)
            check_play(chk, st_mix, E_mix, recs, {"subseed": sub, "story_source": src_mix, "ops": [x["op"] for x in recs[1:]],
                                                  "obs": [x["obs"] for x in recs[1:]]}, stats)
            chk.count(("join-mix", sub), True)

        # (c) emitted kinds
        emitted_kinds_phase(chk, stats)

        for i in range(n_stories):
            sub = rng.randrange(10 ** 9)
            r = random.Random(sub)
            prof = G.Profile(jumps=r.choice([0.35, 0.6, 0.85]), loops=0.5, conds=0.7, join=0.45, hooks=0.3,
                             params=0.35, depth=r.choice([2, 3, 4]), faults=r.choice([0.0, 0.0, 0.06]),
                             n_passages=(3, 7))
            g = G.Gen(r, prof)
            src = g.source()
            if r.random() < 0.3 and "\n\n:: " in src:
                # stub passages: a header directly followed by the next header (no content, no choices), and a passage
                # made of commands only - both defined, both referenced
                k0 = src.index("\n\n:: ")
                src = (src[:k0] + "\n+ [To stub] -> StubA\n+ [To quiet] -> StubB" + src[k0:].rstrip("\n") +
                       "\n\n:: StubA\n:: StubB\n~ n = n + 1\n:: StubC\n-> StubA\n")
                stats["gen"]["stub-passages"] = stats["gen"].get("stub-passages", 0) + 1
            try:
                story = R.compile_story(src)
            except Exception:  # noqa
                stats["compile_failed"] += 1
                continue
            for k_, v_ in g.stats.items():
                stats["gen"][k_] = stats["gen"].get(k_, 0) + v_
            E, conns, ind = add_case(story, src, sub, True, "compiled")
            structural_kinds_check(chk, story, {"subseed": sub, "story_source": src}, stats)
            # (b) play
            hops0, offers0 = stats["jump_hops"], stats["offers"]
            nested_offer = False
            for h in range(n_hist):
                ops = [("goto_valid", r.randint(0, 20)) if r.random() < 0.12 else ("choose_valid", r.randint(0, 5))
                       for _ in range(r.randint(3, n_ops))]
                # transitions after undo / redo / a load (fresh engine or the same one) count as well
                ops = [r.choice([("undo",), ("redo",), ("reload",), ("save",), ("load",)]) if r.random() < 0.15 else o
                       for o in ops]
                if g.joins and r.random() < 0.4:
                    ops = [("choose_text", "Enter " + r.choice(g.joins), 0)] + \
                          [("choose_text", "Join", r.randint(0, 5)) if o[0] == "choose_valid" and r.random() < 0.6 else o for o in ops]
                recs, _ = R.run_history(story, ops)
                replay = {"subseed": sub, "story_source": src, "ops": [x["op"] for x in recs[1:]],
                          "obs": [x["obs"] for x in recs[1:]]}
                check_play(chk, story, E, recs, replay, stats)
                for rc in recs:
                    v = rc["view"]
                    if v and any(not any(c["target"] == tg for c in story["passages"].get(v["pid"], {}).get("choices", []))
                                 for _, tg, _ in v["choices"]):
                        nested_offer = True
            chk.count(("story", sub), stats["jump_hops"] > hops0 or nested_offer)
            if i < 2:
                chk.sample({"subseed": sub, "story_source": src,
                            "connections": {p: [(t, "jump" if j else l) for (t, l, j) in es] for p, es in conns.items()}})
            # JSON-edited variant with undefined targets (the compiler now rejects these shapes)
            if r.random() < 0.6:
                st2, ghosts = edit_undefined(story, r)
                if ghosts:
                    stats["edited"] += 1
                    add_case(st2, src, sub, False, "edited:" + ",".join(ghosts))
                    chk.count(("edited", sub), True)
    shutil.rmtree(tmpdir, ignore_errors=True)

    # (a) inside Coq
    bad, shown, log = C.run_coq_cases(chk.scratch, HEADER, terms, "gcase", "gcase_bad", shard=20, show_fn="gcase_show")
    bad_idx = [b for b in bad if isinstance(b, int)]
    explained = set()
    if bad_idx:
        # does the implementation behave like the tree before F18a on these cases?
        sub_scratch = os.path.join(chk.scratch, "unpatched")
        os.makedirs(sub_scratch, exist_ok=True)
        bad2, _, _ = C.run_coq_cases(sub_scratch, HEADER, [terms[b] for b in bad_idx], "gcase", "gcase_bad_unpatched", shard=20)
        still = {bad_idx[k] for k in bad2 if isinstance(k, int)}
        if not any(not isinstance(k, int) for k in bad2):
            explained = set(bad_idx) - still
    for b in bad:
        if isinstance(b, int):
            sub, src, tag, sj = metas[b]
            rp = {"subseed": sub, "story_source": src, "variant": tag, "model_says": shown.get(b)}
            if sj is not None:
                rp["story_json"] = sj
            if b in explained:
                chk.report("join-flagged-missing",
                           "extract_connections agrees with the model of the tree before F18a, not with Graph/Graph.v: "
                           "'@join' is an edge target / referenced / missing", rp)
            else:
                chk.disagree("graph", "Graph/Graph.v and bardic.cli.graph.extract_connections differ on a story", rp)
        else:
            chk.disagree("graph-coqc", "a case shard failed to evaluate", {"log": log[-2000:]})
    chk.cov["programs"] = len(terms)
    chk.cov["disagreements_checked"] = len(terms)
    chk.cov["disagreements_found"] = len(bad)
    chk.cov["rule"] = ("stories generated by harness/enginegen.py (jumps 0.35-0.85, loops 0.5, conditionals 0.7, @join 0.45, "
                       "hooks 0.3, nesting depth 2-4) and compiled by the real compiler, plus JSON-edited variants whose "
                       "targets (any depth) point to undefined passages; each is walked by the real extract_connections and by "
                       "the Gallina model (compared inside Coq) and played on the real engine with random histories of valid "
                       "choices / goto calls. non-trivial = a play-through took at least one jump hop or was offered a choice "
                       "that comes from an @if/@for block; edited and crafted cases count as non-trivial; distinct = by sub-seed")
    chk.notes["input_distribution"] = stats
    chk.assumptions = [
        "every generated passage appends its name to the story variable `tr` as its first command, so the passages entered by "
        "one navigation call are observable; hook passages (names H*) run after the navigation",
        "wf_graphb (no '(' in targets, no passage called '' or '@join') holds for compiler output: checked on every compiled case",
        "turn_end hook passages, the host application's goto() calls and the initial passage are not choice/jump transitions: "
        "the graph is not required to show them",
    ]
    return chk.finish(props, C.BASE_TRUST + [
        "modelled: bardic/cli/graph.py extract_connections and `missing = referenced - defined` (Graph/Graph.v, the tree after "
        "F18a); the engine side of the theorems is Engine/Engine.v, tied to bardic/runtime/engine.py by the engine "
        "properties' correspondence runs",
        "not modelled: graphviz rendering, the orphan report, edge labels beyond their kind"],
        "make -C /verif/coq && coqc -Q /verif/coq Bardic /verif/coq/Props/C18.v")
