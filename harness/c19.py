"""C19 — the engine copied into browser bundles plays stories like the main engine.

(1) Coq gate for Props/C19.v: the refinement theorem `browser_model_refines_main_model` (Proofs/BrowserSim.v) - for
    every oracle, every common-subset story and EVERY operation list the separate model of the fork
    (Engine/BrowserEngine.v) and the model of the main engine (Engine/Engine.v) give the same observations and views
    step by step, hooks / join progress aside - plus the four older lemmas.
(2) Ties of the two models to the two implementations, on the same generated common-subset stories x histories
    (choose / undo / redo / goto / reset / reads and save -> JSON -> load into a fresh engine), compared inside Coq:
    (a) the real BROWSER engine (engine_browser.BardEngine imported from the working tree) vs the BROWSER model
        (BrowserCheck.ecase_bad_b, full view: the fork has no hooks / join progress and the model shows none);
    (b) the real MAIN engine vs the MAIN model (EngineCheck.ecase_bad);
    (c) the two models with each other on the same cases (BrowserCheck.models_differ: an executable instance of the
        theorem - it can only fire if the generator leaves the common subset);
    (d) the two real engines with each other step by step (outputs, variables, used choices, undo/redo flags, save
        documents) - model-independent;
    (e) `fork_diff` - an ast comparison of engine.py and engine_browser.py regenerated on every run: every function
        whose body differs must be one BrowserEngine.v models separately (or that is outside the modelled domain).
(3) Bundle contents: create_browser_bundle on a generated story (with an @include) - game.json must equal what
    compile_file produces and the copied engine must be byte-identical to the template."""
from __future__ import annotations

import ast
import copy
import json
import os
import random
import shutil
import tempfile

from . import common as C
from . import enginegen as G
from . import enginerun as R
from .pymini import Unsupported

# functions of the fork whose bodies are allowed to differ from the main engine, and why
ACCOUNTED = {
    "BardEngine.__init__": "no hook registry / join index attributes (BrowserEngine.init_b; the fields are never touched)",
    "BardEngine._execute_imports": "imports are pre-bundled in the browser (outside the modelled domain: no imports generated)",
    "BardEngine._get_safe_builtins": "no __import__ in the browser (author code is an oracle in both models)",
    "BardEngine._execute_commands": "BrowserEngine.exec_command_b: hook commands fall through",
    "BardEngine._render_content": "BrowserEngine.render_tok_b: hook / join_marker tokens fall through",
    "BardEngine._render_passage": "BrowserEngine.render_passage_b / filter_choices_b: no section filter",
    "BardEngine.choose": "BrowserEngine.choose_b / choose_nav_b: no '-> @join' path, no turn_end run",
    "BardEngine.goto": "BrowserEngine.goto_rec_b: no join progress reset; passage id computed after the paren scan",
    "BardEngine.save_state": "no hooks / join progress in the document (BrowserCheck.step_b OpReload/OpSave/OpLoad)",
    "BardEngine.load_state": "no hooks / join progress in the document (BrowserCheck.step_b OpReload/OpSave/OpLoad)",
    "GameSnapshot.from_engine": "no hooks / join progress in the snapshot (BrowserEngine.restore_b)",
    "GameSnapshot.restore_to": "no hooks / join progress in the snapshot (BrowserEngine.restore_b)",
}
HEADER_B = R.HEADER + "\nFrom Bardic Require Import BrowserEngine BrowserCheck."
ONLY_MAIN_OK = {"BardEngine._execute_hook_command", "BardEngine._execute_join_choice", "BardEngine._render_from_join_marker",
                "BardEngine.from_file", "BardEngine.register_hook", "BardEngine.trigger_event", "BardEngine.unregister_hook"}
ONLY_BROWSER_OK = {"BardEngine.delete_browser_save", "BardEngine.list_browser_saves", "BardEngine.load_from_browser",
                   "BardEngine.save_to_browser"}


def fn_table(path):
    t = ast.parse(open(path).read())
    out = {}

    def body_dump(m):
        body = m.body
        if body and isinstance(body[0], ast.Expr) and isinstance(getattr(body[0], "value", None), ast.Constant) \
                and isinstance(body[0].value.value, str):
            body = body[1:]
        return ast.dump(ast.Module(body=body, type_ignores=[])) + "|" + ast.dump(m.args)

    for n in t.body:
        if isinstance(n, ast.ClassDef):
            for m in n.body:
                if isinstance(m, ast.FunctionDef):
                    out[f"{n.name}.{m.name}"] = body_dump(m)
        elif isinstance(n, ast.FunctionDef):
            out[n.name] = body_dump(n)
    return out


def fork_diff():
    a = fn_table(os.path.join(C.REPO, "bardic", "runtime", "engine.py"))
    b = fn_table(os.path.join(C.REPO, "bardic", "templates", "browser", "engine_browser.py"))
    return {"only_main": sorted(set(a) - set(b)), "only_browser": sorted(set(b) - set(a)),
            "differ": sorted(k for k in a if k in b and a[k] != b[k]), "same": len([k for k in a if k in b and a[k] == b[k]])}


def clean(v):
    return {k: x for k, x in v.items() if k not in ("raw_content", "hooks", "join")}


def run_both(story, ops, rng):
    """Run the same history on both engines, with save->json->load hand-overs at random points."""
    main_cls, br_cls = R.engine_class(False), R.engine_class(True)
    out = []
    with C.quiet():
        try:
            em, eb = main_cls(copy.deepcopy(story)), br_cls(copy.deepcopy(story))
        except Exception:
            return []          # the opening passage itself fails: no engine to compare
        out.append((("init",), ("ok",), ("ok",), R.view(em), R.view(eb), None, None))
        names = list(story["passages"].keys())
        slots = [None, None]
        for op in ops:
            res = []
            docs = [None, None]
            conc = op
            for idx, e in enumerate((em, eb)):
                try:
                    with C.alarm(10):
                        k = op[0]
                        if k == "choose_valid":
                            n = len(e.current().choices)
                            conc = ("choose", op[1] % n if n else 0)
                            e.choose(conc[1]); o = ("ok",)
                        elif k == "choose":
                            e.choose(op[1]); o = ("ok",)
                        elif k == "undo":
                            o = ("bool", e.undo())
                        elif k == "redo":
                            o = ("bool", e.redo())
                        elif k == "goto_valid":
                            cands = [n for n in names if not story["passages"][n].get("params")]
                            conc = ("goto", cands[op[1] % len(cands)])
                            e.goto(conc[1]); o = ("ok",)
                        elif k == "reset":
                            e.reset_one_time_choices(); o = ("ok",)
                        elif k == "read":
                            R.read_battery(e); o = ("ok",)
                        elif k == "save":
                            slots[idx] = json.loads(json.dumps(e.save_state())); o = ("ok",)
                        elif k == "load":
                            if slots[idx] is not None:
                                e.load_state(slots[idx])          # the same engine, the same document object
                            o = ("ok",)
                        elif k == "inputs":
                            e.submit_inputs({op[1]: op[2]}); o = ("ok",)
                        elif k == "badload":
                            o = ("ok",)                            # exercised on the model side only (R.run_history)
                        elif k in ("saveload", "reload"):
                            d = json.loads(json.dumps(e.save_state()))
                            docs[idx] = {kk: vv for kk, vv in d.items() if kk not in ("timestamp", "hooks", "join_section_index")}
                            fresh = (main_cls, br_cls)[idx](copy.deepcopy(story))
                            fresh.load_state(d)
                            if idx == 0:
                                em = fresh
                            else:
                                eb = fresh
                            o = ("ok",)
                        else:
                            raise AssertionError(k)
                except C.Timeout:
                    o = ("timeout",)
                except Exception as ex:  # noqa
                    o = ("exc", R.exn_kind(ex), type(ex).__name__)
                res.append(o)
            out.append((conc, res[0], res[1], R.view(em), R.view(eb), docs[0], docs[1]))
    return out


def bundle_check(chk, rng):
    """Bundle contents.  Every build is compared with a fresh compile of the same entry file: into a new directory,
    again into the same directory after only the included file changed, into a directory that already holds another
    story's bundle (entry file older than that bundle), and from an already compiled .json."""
    from pathlib import Path
    from bardic.cli.bundler import create_browser_bundle
    from bardic.compiler.compiler import BardCompiler
    tmp = tempfile.mkdtemp(prefix="bardic_verif_bundle_")
    done = 0
    real_copytree = shutil.copytree

    def light_copytree(srcp, dst, *a, **kw):      # do not copy the 17 MB pyodide runtime
        if "pyodide" in os.path.basename(str(srcp)):
            os.makedirs(dst, exist_ok=True)
            return dst
        return real_copytree(srcp, dst, *a, **kw)

    def build_and_compare(entry, outdir, how, texts):
        nonlocal done
        with C.quiet():
            try:
                expected = json.loads(open(BardCompiler().compile_file(entry, os.path.join(tmp, "expected.json"))).read())
            except Exception:
                return
            shutil.copytree = light_copytree
            try:
                create_browser_bundle(Path(entry), Path(outdir), minimal=True)
            finally:
                shutil.copytree = real_copytree
        done += 1
        got = json.loads(open(os.path.join(outdir, "game.json")).read())
        if got != expected:
            chk.report("bundle-story-differs-from-compile:" + how,
                       f"game.json in the bundle ({how}) is not what compile_file produces for the same entry file",
                       dict(texts, how=how))
        tpl = open(os.path.join(C.REPO, "bardic", "templates", "browser", "engine_browser.py"), "rb").read()
        cp = open(os.path.join(outdir, "engine_browser.py"), "rb").read()
        if tpl != cp:
            chk.report("bundle-engine-not-the-template", "the engine copied into the bundle differs from the template", {})

    try:
        prev_out = None
        for k in range(2):
            g = G.Gen(random.Random(rng.randrange(10 ** 9)), G.Profile(browser_subset=True))
            src = g.source()
            story_dir = os.path.join(tmp, f"s{k}")
            os.makedirs(os.path.join(story_dir, "parts"))
            # split the last passage into an included file
            parts = src.split("\n:: ")
            main_txt = "\n:: ".join(parts[:-1]) + "\n@include parts/last.bard\n"
            inc = os.path.join(story_dir, "parts", "last.bard")
            open(inc, "w").write(":: " + parts[-1])
            entry = os.path.join(story_dir, "main.bard")
            open(entry, "w").write(main_txt)
            texts = {"entry_text": main_txt, "included_text": ":: " + parts[-1]}
            outdir = os.path.join(tmp, f"out{k}")
            build_and_compare(entry, outdir, "new-directory", texts)
            # only the included file changes (the entry file keeps its old modification time); same directory
            os.utime(entry, (1_000_000_000, 1_000_000_000))
            open(inc, "a").write("\n:: Appendix\nAdded later.\n+ [Again] -> Appendix\n")
            build_and_compare(entry, outdir, "same-directory-after-include-changed",
                              dict(texts, appended=":: Appendix ..."))
            # this (older) story into the directory that already holds the previous story's bundle
            if prev_out:
                build_and_compare(entry, prev_out, "directory-of-another-story", texts)
            # from an already compiled .json
            try:
                with C.quiet():
                    cj = BardCompiler().compile_file(entry, os.path.join(story_dir, "compiled.json"))
                build_and_compare_json = json.loads(open(cj).read())
                outj = os.path.join(tmp, f"outj{k}")
                with C.quiet():
                    shutil.copytree = light_copytree
                    try:
                        create_browser_bundle(Path(cj), Path(outj), minimal=True)
                    finally:
                        shutil.copytree = real_copytree
                done += 1
                if json.loads(open(os.path.join(outj, "game.json")).read()) != build_and_compare_json:
                    chk.report("bundle-story-differs-from-compile:from-json",
                               "game.json in a bundle built from a compiled .json differs from that .json", texts)
            except Exception:
                pass
            prev_out = outdir
    finally:
        shutil.copytree = real_copytree
        shutil.rmtree(tmp, ignore_errors=True)
    return done


def run(tier: str, seed: int) -> int:
    chk = C.Check("C19", tier, seed, "proof")
    props = C.coq_gate(chk)
    C.use_repo()
    rng = chk.rng
    n_cases, max_ops = (110, 12) if tier == "quick" else (1200, 30)
    stats = {"ops": {}, "fork_diff": None, "unsupported": 0, "compile_failed": 0, "bundles": 0, "saveloads": 0}

    fd = fork_diff()
    stats["fork_diff"] = fd
    for f in fd["differ"]:
        if f not in ACCOUNTED:
            chk.disagree("fork_diff", f"function {f} differs between the fork and the main engine and is not accounted for",
                         {"function": f, "obligation": "fork_diff included in ACCOUNTED (harness/c19.py)"})
    for f in fd["only_main"]:
        if f not in ONLY_MAIN_OK:
            chk.disagree("fork_diff", f"function {f} exists only in the main engine and is not accounted for", {"function": f})
    for f in fd["only_browser"]:
        if f not in ONLY_BROWSER_OK:
            chk.disagree("fork_diff", f"function {f} exists only in the browser engine and is not accounted for", {"function": f})

    terms_b, terms_m, metas = [], [], []
    for i in range(n_cases):
        sub = rng.randrange(10 ** 9)
        r = random.Random(sub)
        g = G.Gen(r, G.Profile(browser_subset=True, hooks=0.0, join=0.0, params=0.4, jumps=0.4, one_time=0.5,
                               inplace=0.5, faults=0.08))
        src = g.source()
        try:
            story = R.compile_story(src)
        except Exception:
            stats["compile_failed"] += 1
            continue
        ops = []
        for _ in range(r.randint(3, max_ops)):
            ops.extend([("saveload",)] if r.random() < 0.12 else G.gen_ops(r, 1, saveload=True))
        if r.random() < 0.4:
            # a checkpoint taken early, play with an undo (so that redo history exists), the checkpoint loaded into the SAME
            # engine, then redo / undo: a load clears both histories
            i1 = r.randrange(0, max(1, len(ops) // 2))
            ops[i1:i1] = [("save",)]
            ops += [("choose_valid", r.randint(0, 5)), ("choose_valid", r.randint(0, 5)), ("undo",), ("load",),
                    r.choice([("redo",), ("undo",)]), ("choose_valid", r.randint(0, 5))]
        both = run_both(story, ops, r)
        nontrivial = False
        for k, (op, om, ob, vm, vb, dm, db) in enumerate(both):
            stats["ops"][op[0]] = stats["ops"].get(op[0], 0) + 1
            if op[0] in ("saveload", "reload"):
                stats["saveloads"] += 1
                nontrivial = True
                if dm != db:
                    chk.report("save-documents-differ", "the two engines produce different save data for the same history",
                               {"subseed": sub, "story_source": src, "ops": [x[0] for x in both[1:k + 1]],
                                "differing_keys": [kk for kk in set(dm or {}) | set(db or {}) if (dm or {}).get(kk) != (db or {}).get(kk)]})
            if om[:2] != ob[:2] or clean(vm) != clean(vb):
                diff = [kk for kk in clean(vm) if clean(vm)[kk] != clean(vb).get(kk)]
                chk.report("browser-engine-differs:" + ",".join(sorted(diff)) + (":obs" if om[:2] != ob[:2] else ""),
                           f"step {k}: main {om} vs browser {ob}, differing fields {diff}",
                           {"subseed": sub, "story_source": src, "ops": [x[0] for x in both[1:k + 1]]})
                break
            if op[0] in ("undo", "redo") and om == ("bool", True):
                nontrivial = True
        chk.count(("b", sub), nontrivial)
        if i < 2:
            chk.sample({"subseed": sub, "story_source": src, "ops": [x[0] for x in both[1:]]})
        # the two models vs the two implementations, on the same concrete history (the save/load hand-over is the
        # model's OpReload: save -> JSON text -> load into a fresh engine, play continues there)
        model_ops = [("reload",) if o[0] == "saveload" else o for o in ops]
        recs_b, _ = R.run_history(story, model_ops, browser=True)
        recs_m, _ = R.run_history(story, model_ops, browser=False)
        if any(x["obs"][0] == "timeout" for x in recs_b + recs_m):
            continue
        try:
            tb_, tm_ = R.case_term(story, recs_b), R.case_term(story, recs_m)
        except Unsupported:
            stats["unsupported"] += 1
            continue
        terms_b.append(tb_)
        terms_m.append(tm_)
        metas.append((sub, src, recs_b, recs_m))

    # ---- variables that SHARE objects (outside the Gallina value model): the two real engines step by step, with undo /
    # redo / the same choice again, so that every restore point of the fork must keep the sharing structure as the main
    # engine's does (the fork has its own copy of _copy_state and GameSnapshot)
    stats["shared_objects"] = 0
    for i in range(25 if tier == "quick" else 250):
        sub = rng.randrange(10 ** 9)
        r = random.Random(sub)
        g = G.Gen(r, G.Profile(browser_subset=True, hooks=0.0, join=0.0, params=0.3, jumps=0.3, inplace=1.0, faults=0.0, loops=0.4))
        out = []
        for l in g.source().split("\n"):
            out.append(l)
            if l == "~ hk = 0":
                out += ["~ ys = xs", "~ box = {'items': xs, 'table': d}", "~ d2 = d", "~ pair = [xs, xs]"]
            elif l.startswith("[") and l.endswith("]"):
                out.append("Alias {ys} {box['items']} {box['table']} {d2} {pair}")
        src = "\n".join(out)
        try:
            story = R.compile_story(src)
        except Exception:
            continue
        ops = []
        for _ in range(r.randint(3, 8)):
            ops.append(("choose_valid", r.randint(0, 5)))
            if r.random() < 0.5:
                ops += r.choice([[("undo",), ("choose_valid", r.randint(0, 5))], [("undo",), ("redo",)], [("undo",)]])
        both = run_both(story, ops, r)
        stats["shared_objects"] += 1
        for k, (op, om, ob, vm, vb, dm, db) in enumerate(both):
            if om[:2] != ob[:2] or clean(vm) != clean(vb):
                diff = [kk for kk in clean(vm) if clean(vm)[kk] != clean(vb).get(kk)]
                chk.report("browser-engine-differs:shared-objects:" + ",".join(sorted(diff)),
                           f"step {k}: main {om} vs browser {ob}, differing fields {diff} (variables share objects)",
                           {"subseed": sub, "story_source": src, "ops": [x[0] for x in both[1:k + 1]]})
                break
        chk.count(("shared", sub), True)

    def replay(b, which):
        sub, src, recs_b, recs_m = metas[b]
        recs = recs_b if which == "browser" else recs_m
        return {"subseed": sub, "story_source": src, "ops": [x["op"] for x in recs[1:]], "obs": [x["obs"] for x in recs[1:]]}

    # (a) real browser engine vs browser model, (a') real browser engine vs MAIN model without hooks / join (the comparison
    # of the earlier version of this check: a departure is a concrete history on which the fork does not play like the engine
    # the properties are proved for), (c) the two models on the same cases (an instance of the proved refinement).
    # One pass with the disjunction of the three tests; the flagged cases are then evaluated test by test.
    flagged, _, log = C.run_coq_cases(chk.scratch, HEADER_B, terms_b, "ecase", "browser_case_bad", shard=25)
    for b in flagged:
        if not isinstance(b, int):
            chk.disagree("browser-coqc", "a case shard failed to evaluate", {"log": log[-1500:]})
    idx = [b for b in flagged if isinstance(b, int)]
    sub_terms = [terms_b[i] for i in idx]
    if sub_terms:
        bad, shown, log = C.run_coq_cases(chk.scratch, HEADER_B, sub_terms, "ecase", "ecase_bad_b", shard=25, show_fn="ecase_show_b")
        for b in bad:
            if isinstance(b, int):
                chk.disagree("browser-engine-vs-browser-model",
                             "the real browser engine and its model (Engine/BrowserEngine.v) differ on a common-subset history",
                             dict(replay(idx[b], "browser"), model_first_difference=(shown.get(b) or "")[:2500]))
            else:
                chk.disagree("browser-coqc", "a case shard failed to evaluate", {"log": log[-1500:]})
        bad, shown, log = C.run_coq_cases(chk.scratch, HEADER_B, sub_terms, "ecase", "ecase_bad_browser", shard=25, show_fn="ecase_show")
        for b in bad:
            if isinstance(b, int):
                chk.report("browser-engine-departs-from-model",
                           "the browser engine differs from the main engine model (for which the main engine's properties are "
                           "proved) on a common-subset history",
                           dict(replay(idx[b], "browser"), model_first_difference=(shown.get(b) or "")[:2500]))
            else:
                chk.disagree("browser-coqc", "a case shard failed to evaluate", {"log": log[-1500:]})
        bad, shown, log = C.run_coq_cases(chk.scratch, HEADER_B, sub_terms, "ecase", "models_differ", shard=25)
        for b in bad:
            if isinstance(b, int):
                chk.disagree("models-differ-on-a-generated-case",
                             "main model and browser model differ outside hooks/join: the generated story is not in the common "
                             "subset (generator fault) - the theorem assumes common_story",
                             replay(idx[b], "browser"))
            else:
                chk.disagree("models-coqc", "a case shard failed to evaluate", {"log": log[-1500:]})
    # (b) real main engine vs main model
    bad, shown, log = C.run_coq_cases(chk.scratch, R.HEADER, terms_m, "ecase", "ecase_bad", shard=25, show_fn="ecase_show")
    for b in bad:
        if isinstance(b, int):
            chk.disagree("main-engine-vs-main-model",
                         "the real main engine and its model (Engine/Engine.v) differ on a common-subset history",
                         dict(replay(b, "main"), model_first_difference=(shown.get(b) or "")[:2500]))
        else:
            chk.disagree("main-coqc", "a case shard failed to evaluate", {"log": log[-1500:]})
    terms = terms_b
    stats["bundles"] = bundle_check(chk, rng)
    chk.cov["programs"] = len(terms)
    chk.cov["disagreements_checked"] = len(terms)
    chk.cov["rule"] = ("common-subset stories (no hooks, no @join) x histories of choose/undo/redo/goto/read/reset with "
                       "save->JSON->load hand-overs; the two real engines compared step by step with each other; inside Coq the real "
                       "browser engine vs the browser model (and vs the main model without hooks/join), the real main engine vs the "
                       "main model, and the two models with each other; non-trivial = the history contains a successful undo/redo "
                       "or a save/load; distinct by sub-seed")
    stats["model_cases"] = {"browser": len(terms_b), "main": len(terms_m)}
    chk.notes["input_distribution"] = stats
    chk.assumptions = ["common subset = Browser.common_story (no hook commands, no join markers, no '-> @join' choices); no import lines",
                       "React framework hints and localStorage helpers of the fork are not exercised",
                       "save -> JSON -> load is abstracted in both models as in C05 (same situation, empty stacks)"]
    return chk.finish(props, C.BASE_TRUST + ["fork_diff: ast comparison of engine.py and engine_browser.py (harness/c19.py)",
                                             "Engine/BrowserEngine.v is a separate hand-written model of engine_browser.py, tied to "
                                             "the real fork by this run; the refinement browser model <= main model is proved "
                                             "(Proofs/BrowserSim.v), the two ties are tested"],
                      "make -C /verif/coq && coqc -Q /verif/coq Bardic /verif/coq/Props/C19.v")
