"""C20 — stdlib game objects: correspondence with Stdlib/Game.v and direct oracles."""
from __future__ import annotations

import copy
import random

from . import common as C
from .common import coq_str, coq_Z, coq_list, coq_opt

NAMES = ["Sword", "Potion", "Gem", "Rope"]
HEADER = "From Coq Require Import ZArith List String.\nFrom Bardic Require Import PyStr Game GameCheck."


def gen_item(rng, allow_noname=False):
    it = {}
    if not (allow_noname and rng.random() < 0.08):
        it["name"] = rng.choice(NAMES)
    if rng.random() < 0.85:
        it["weight"] = rng.choice([0, 1, 2, 2, 4, 6, 10, 20]) / 4.0
    if rng.random() < 0.85:
        it["value"] = rng.choice([0, 1, 3, 7, 10, 25, 50, 100])
    if rng.random() < 0.2:
        it["category"] = rng.choice(["consumable", "weapon"])
    return it


def item_term(it):
    w = it.get("weight")
    return ("(mkItem %s %s %s %s)" % (
        coq_opt(it.get("name"), coq_str),
        coq_opt(None if w is None else int(round(w * 4)), coq_Z),
        coq_opt(it.get("value"), coq_Z),
        coq_opt(it.get("category"), coq_str)))


def gen_world_case(rng, maxops):
    gold = rng.choice([-5, 0, 3, 20, 60, 150])
    maxw = rng.choice([0, 2, 8, 20, 40, 60]) / 4.0
    stock = [gen_item(rng) for _ in range(rng.randint(1, 4))]
    rate = rng.choice([0, 1, 2, 2, 3, 4, 5]) / 4.0
    disc = rng.choice([0, 2, 3, 4, 4, 4, 5, 6]) / 4.0
    ops = []
    for _ in range(rng.randint(1, maxops)):
        k = rng.random()
        if k < 0.12:
            ops.append(("spend", rng.choice([-3, 0, 1, 5, 20, 70, 500])))
        elif k < 0.22:
            ops.append(("earn", rng.choice([-4, 0, 2, 15, 90])))
        elif k < 0.26:
            ops.append(("set_gold", rng.choice([-9, 0, 10, 77])))
        elif k < 0.44:
            ops.append(("add", gen_item(rng, allow_noname=True)))
        elif k < 0.52:
            ops.append(("remove", rng.choice(NAMES)))
        elif k < 0.56:
            ops.append(("remove_all", rng.choice(NAMES)))
        elif k < 0.58:
            ops.append(("clear",))
        elif k < 0.80:
            ops.append(("buy", rng.choice(NAMES)))
        elif k < 0.96:
            ops.append(("sell", rng.choice(NAMES)))
        else:
            ops.append(("set_discount", rng.choice([-2, 0, 2, 4, 6]) / 4.0))
    return {"gold": gold, "max_weight": maxw, "stock": stock, "rate": rate, "disc": disc, "ops": ops}


def q4(x):
    v = x * 4
    if v != int(v):
        raise ValueError(f"not a quarter unit: {x}")
    return int(v)


def run_world_impl(case, chk: C.Check | None):
    """Run the real objects; returns per-step observations, final items, final stock.
    Direct oracles are evaluated here and reported through chk."""
    from bardic.stdlib.economy import Wallet, Shop
    from bardic.stdlib.inventory import Inventory

    w = Wallet(gold=case["gold"])
    inv = Inventory(max_weight=case["max_weight"])
    stock0 = copy.deepcopy(case["stock"])
    shop = Shop(copy.deepcopy(case["stock"]), sell_back_rate=case["rate"], discount=case["disc"])
    obs = []

    def fail(sig, what):
        if chk is not None:
            chk.report(sig, what, {"kind": "world", "case": case, "step": len(obs)})

    if w.gold < 0:
        fail("wallet-negative-ctor", "Wallet() starts with negative gold")
    for op in case["ops"]:
        g0, items0 = w.gold, list(inv.items)
        kind = op[0]
        try:
            if kind == "spend":
                r = w.spend(op[1])
                if r and w.gold != g0 - op[1] or (not r and (w.gold != g0 or g0 >= op[1])):
                    fail("spend-not-all-or-nothing", f"spend({op[1]}) with gold {g0} -> {r}, gold {w.gold}")
            elif kind == "earn":
                r = w.earn(op[1])
            elif kind == "set_gold":
                w.gold = op[1]
                r = None
            elif kind == "add":
                r = inv.add(copy.deepcopy(op[1]))
                if r and inv.current_weight > inv.max_weight:
                    fail("add-exceeds-limit", f"add took the inventory to {inv.current_weight} > {inv.max_weight}")
            elif kind == "remove":
                r = inv.remove(op[1])
            elif kind == "remove_all":
                r = inv.remove_all(op[1])
            elif kind == "clear":
                r = inv.clear()
            elif kind == "buy":
                price = shop.get_buy_price(op[1])
                r = shop.buy(op[1], w, inv)
                if price >= 0:
                    if r:
                        okk = (w.gold == g0 - price and len(inv.items) == len(items0) + 1
                               and inv.items[:-1] == items0 and inv.items[-1].get("name") == op[1])
                    else:
                        okk = w.gold == g0 and inv.items == items0
                    if not okk:
                        fail("buy-not-atomic", f"buy({op[1]!r}) -> {r}: gold {g0}->{w.gold}, items {len(items0)}->{len(inv.items)}, price {price}")
                if any(a is b for a in inv.items for b in shop.items):
                    fail("buy-aliases-stock", "an inventory item is the shop's own dict")
            elif kind == "sell":
                had = inv.has(op[1])
                r = shop.sell(op[1], w, inv)
                if r:
                    okk = had and len(inv.items) == len(items0) - 1 and w.gold >= g0
                else:
                    okk = (not had) and w.gold == g0 and inv.items == items0
                if not okk:
                    fail("sell-not-atomic", f"sell({op[1]!r}) -> {r}: gold {g0}->{w.gold}, items {len(items0)}->{len(inv.items)}")
            elif kind == "set_discount":
                r = shop.set_discount(op[1])
            else:
                raise AssertionError(kind)
        except ValueError:
            r = "ValueError"
        if w.gold < 0:
            fail("wallet-negative", f"gold {w.gold} after {op}")
        if shop.items != stock0:
            fail("stock-mutated", f"shop stock changed after {op}")
        obs.append((r, w.gold, q4(inv.current_weight), q4(shop.discount)))
    # round trips
    try:
        w2 = Wallet.from_dict(w.to_dict())
        i2 = Inventory.from_dict(inv.to_dict())
        s2 = Shop.from_dict(shop.to_dict())
        if not (type(w2) is Wallet and w2.gold == w.gold and type(i2) is Inventory and i2.items == inv.items
                and i2.max_weight == inv.max_weight and i2.current_weight == inv.current_weight
                and type(s2) is Shop and s2.items == shop.items and s2.discount == shop.discount
                and s2.sell_back_rate == shop.sell_back_rate):
            fail("dict-roundtrip", "to_dict/from_dict does not give an equivalent object")
        # the round trip is a law of EVERY inventory value (inventory_dict_roundtrip has no hypothesis): also of one that
        # carries more than its limit because the limit was lowered after the items were taken
        if inv.items:
            d = inv.to_dict()
            d["max_weight"] = inv.current_weight / 2
            low = Inventory.from_dict(d)
            low.items = [dict(x) for x in inv.items]
            i3 = Inventory.from_dict(low.to_dict())
            if i3.items != low.items or i3.max_weight != low.max_weight:
                fail("dict-roundtrip:over-limit", f"an inventory over its limit ({low.current_weight} > {low.max_weight}) comes back "
                                                  f"with {len(i3.items)} of {len(low.items)} items")
    except Exception as e:  # noqa
        fail(f"dict-roundtrip-raises:{type(e).__name__}", f"to_dict/from_dict raised {type(e).__name__}: {e}")
    return obs, list(inv.items), list(shop.items)


def obs_term(o):
    r, g, wt, d = o
    if r is True:
        t = "BTrue"
    elif r is False:
        t = "BFalse"
    elif r is None:
        t = "BUnit"
    elif r == "ValueError":
        t = "BValueError"
    else:
        t = f"(BInt {coq_Z(int(r))})"
    return f"({t}, {coq_Z(g)}, {coq_Z(wt)}, {coq_Z(d)})"


def op_term(op):
    k = op[0]
    if k == "spend":
        return f"(OSpend {coq_Z(op[1])})"
    if k == "earn":
        return f"(OEarn {coq_Z(op[1])})"
    if k == "set_gold":
        return f"(OSetGold {coq_Z(op[1])})"
    if k == "add":
        return f"(OAdd {item_term(op[1])})"
    if k == "remove":
        return f"(ORemove {coq_str(op[1])})"
    if k == "remove_all":
        return f"(ORemoveAll {coq_str(op[1])})"
    if k == "clear":
        return "OClear"
    if k == "buy":
        return f"(OBuy {coq_str(op[1])})"
    if k == "sell":
        return f"(OSell {coq_str(op[1])})"
    if k == "set_discount":
        return f"(OSetDiscount {coq_Z(q4(op[1]))})"
    raise AssertionError(k)


def world_term(case, obs, fin_items, fin_stock):
    world = ("(mkWorld (wallet_new %s) (inv_new %s) (mkShop %s %s %s))" % (
        coq_Z(case["gold"]), coq_Z(q4(case["max_weight"])),
        coq_list(item_term(i) for i in case["stock"]), coq_Z(q4(case["rate"])), coq_Z(q4(case["disc"]))))
    return "(%s, %s, %s, %s, %s)" % (
        world, coq_list(op_term(o) for o in case["ops"]), coq_list(obs_term(o) for o in obs),
        coq_list(item_term(i) for i in fin_items), coq_list(item_term(i) for i in fin_stock))


# ---------------- relationship ----------------

def gen_rel_case(rng, maxops):
    ops = []
    for _ in range(rng.randint(1, maxops)):
        k = rng.random()
        if k < 0.5:
            ops.append(("add_trust", rng.choice([-120, -30, -7, -1, 0, 1, 4, 9, 19, 21, 45, 130])))
        elif k < 0.6:
            ops.append(("set_trust", rng.choice([-4, 0, 59, 60, 79, 80, 100, 140])))
        elif k < 0.75:
            ops.append(("add_comfort", rng.choice([-200, -10, 0, 5, 60, 300])))
        elif k < 0.9:
            ops.append(("add_openness", rng.choice([-30, -3, -1, 0, 1, 4, 25])))
        else:
            ops.append(("discuss", rng.choice(["past", "family", "work"])))
    return {"name": rng.choice(["Alex", "Sam"]), "trust": rng.choice([-10, 0, 30, 59, 60, 79, 80, 100, 160]),
            "comfort": rng.choice([-1, 0, 50, 100, 101]), "openness": rng.choice([-11, -10, 0, 3, 10, 12]),
            "topics": rng.choice([None, [], ["past"], ["past", "work"]]), "ops": ops}


def run_rel_impl(case, chk):
    from bardic.stdlib.relationship import Relationship

    fired = []

    class R(Relationship):
        def on_trust_threshold_60(self):
            fired.append(60)

        def on_trust_threshold_80(self):
            fired.append(80)

    def fail(sig, what):
        if chk is not None:
            chk.report(sig, what, {"kind": "relationship", "case": case})

    tp = None if case["topics"] is None else set(case["topics"])
    r = R(case["name"], case["trust"], case["comfort"], case["openness"], tp)
    obs = []

    def ranges():
        if not (0 <= r.trust <= 100 and 0 <= r.comfort <= 100 and -10 <= r.openness <= 10):
            fail("rel-range", f"stats out of range: {r.trust}, {r.comfort}, {r.openness}")

    ranges()
    for op in case["ops"]:
        fired.clear()
        old = r.trust
        if op[0] == "add_trust":
            r.add_trust(op[1])
            for th in (60, 80):
                crossed = old < th <= r.trust
                if (fired.count(th) == 1) != crossed or fired.count(th) > 1:
                    fail("rel-threshold", f"threshold {th}: trust {old}->{r.trust}, fired {fired}")
        elif op[0] == "set_trust":
            r.trust = op[1]
        elif op[0] == "add_comfort":
            r.add_comfort(op[1])
        elif op[0] == "add_openness":
            r.add_openness(op[1])
        elif op[0] == "discuss":
            r.discuss_topic(op[1])
        if op[0] != "add_trust" and fired:
            fail("rel-threshold", f"threshold event fired by {op}")
        ranges()
        obs.append((list(fired), r.trust, r.comfort, r.openness))
    name = None
    try:
        d = r.to_dict()
        r2 = Relationship.from_dict(d)
        name = d["name"]
        if not (r2.to_dict()["name"] == d["name"] and r2.trust == r.trust and r2.comfort == r.comfort
                and r2.openness == r.openness and set(r2.topics_discussed) == set(r.topics_discussed)):
            fail("rel-dict-roundtrip", "Relationship to_dict/from_dict not equivalent")
    except Exception as e:  # noqa
        fail(f"rel-dict-roundtrip-raises:{type(e).__name__}",
             f"Relationship.to_dict/from_dict raised {type(e).__name__}: {e}")
    return obs, sorted(r.topics_discussed), r.relationship_quality, name


def rel_term(case, obs, topics, quality, name):
    def rop(o):
        k = {"add_trust": "RAddTrust", "set_trust": "RSetTrust", "add_comfort": "RAddComfort",
             "add_openness": "RAddOpenness"}.get(o[0])
        if k:
            return f"({k} {coq_Z(o[1])})"
        return f"(RDiscuss {coq_str(o[1])})"

    def ob(o):
        return "(%s, %s, %s, %s)" % (coq_list(coq_Z(e) for e in o[0]), coq_Z(o[1]), coq_Z(o[2]), coq_Z(o[3]))

    return "(%s, %s, %s, %s, %s, %s, %s, %s, %s, %s)" % (
        coq_str(case["name"]), coq_Z(case["trust"]), coq_Z(case["comfort"]), coq_Z(case["openness"]),
        coq_list(coq_str(t) for t in (case["topics"] or [])), coq_list(rop(o) for o in case["ops"]),
        coq_list(ob(o) for o in obs), coq_list(coq_str(t) for t in topics), coq_str(quality),
        coq_str(name if isinstance(name, str) else "<unset>"))


# ---------------- dice ----------------

def gen_notation(rng):
    k = rng.random()
    n, s, m = rng.choice([0, 1, 2, 3, 10]), rng.choice([1, 2, 4, 6, 20, 100]), rng.choice([0, 1, 5, 12])
    if k < 0.3:
        return f"{n}d{s}"
    if k < 0.55:
        return f"{n}d{s}{rng.choice('+-')}{m}"
    if k < 0.65:
        return f"  {n}d{s}+{m} \t"
    if k < 0.75:
        return rng.choice([f"{n}d{s}+", f"{n}d{s}-x", f"{n}d{s}+{m}junk", f"{n}d{s} + {m}", f"0{n}d0{s}-0{m}"])
    alphabet = "0123456789d+- x\tD"
    return "".join(rng.choice(alphabet) for _ in range(rng.randint(0, 8)))


def run_dice_impl(notation, chk, rng):
    import bardic.stdlib.dice as dice

    calls = []
    real = dice.random.randint

    def fake(a, b):
        calls.append((a, b))
        return 1

    dice.random.randint = fake
    try:
        try:
            total = dice.roll(notation)
        except ValueError:
            return None
    finally:
        dice.random.randint = real
    n = len(calls)
    sides = calls[0][1] if calls else 0
    m = total - n
    if any(a != 1 or b != sides for a, b in calls) and chk is not None:
        chk.report("dice-draw-range", f"roll({notation!r}) drew from {set(calls)}", {"kind": "dice", "notation": notation})
    # bounds with the real generator (and its extremes)
    if sides >= 1:
        st = random.getstate()
        random.seed(rng.random())
        try:
            for _ in range(5):
                v = dice.roll(notation)
                if not (n + m <= v <= n * sides + m) and chk is not None:
                    chk.report("dice-bounds", f"roll({notation!r}) = {v} outside [{n + m}, {n * sides + m}]",
                               {"kind": "dice", "notation": notation})
        finally:
            random.setstate(st)
    return (n, sides, m)


def dice_term(notation, res):
    if res is None:
        return f"({coq_str(notation)}, None)"
    return f"({coq_str(notation)}, Some ({coq_Z(res[0])}, {coq_Z(res[1])}, {coq_Z(res[2])}))"


PINNED = {
    # F20b: negative item value -> negative price -> gold gained and no item (hypothesis of buy_atomic)
    "buy-not-atomic-negative-price": {"gold": 5, "max_weight": 2.0, "stock": [{"name": "Cursed", "weight": 25.0, "value": -10}],
                                      "rate": 0.5, "disc": 1.0, "ops": [("buy", "Cursed")]},
}


def run(tier: str, seed: int) -> int:
    chk = C.Check("C20", tier, seed, "proof")
    props = C.coq_gate(chk)
    C.use_repo()
    rng = chk.rng
    n_world, n_rel, n_dice, maxops = (250, 120, 200, 14) if tier == "quick" else (3000, 1200, 2000, 40)
    dist = {"ops": {}, "results": {}}

    # ---- tighter tie: regenerate the Gallina from the CURRENT source and re-check equalities + theorems over it ----
    from . import c20_gen
    tr = c20_gen.check_translation(chk)
    extra_w, extra_r = [], []
    if not tr["ok"]:   # search harder for a concrete failing input around the function whose source changed
        extra_w = c20_gen.focused_cases(gen_world_case, rng, maxops + 10, tr["function"], 4 * n_world)
        extra_r = c20_gen.focused_cases(gen_rel_case, rng, maxops + 10, tr["function"], 4 * n_rel)

    # ---- an operation that RAISES is all-or-nothing too: items whose price / weight cannot be computed (value None or a
    # string, weight None) make buy / sell / add raise; wallet, inventory and stock must then be exactly as before ----
    with C.quiet():
        from bardic.stdlib.economy import Wallet as _W, Shop as _S
        from bardic.stdlib.inventory import Inventory as _I
        import copy as _copy
        n_exc = 0
        for k in range(60 if tier == "quick" else 600):
            r = random.Random(rng.randrange(10 ** 9))
            # (weights stay numeric: an item whose WEIGHT cannot be added is outside the documented item format, and buy then
            # charges before Inventory.add raises - noted in DESIGN.md, not judged here)
            odd = lambda nm: {"name": nm, "weight": r.choice([1, 2, 0.5]), "value": r.choice([5, None, "v", 3])}  # noqa
            w, inv = _W(r.choice([0, 10, 50])), _I(r.choice([3, 10]))
            inv.items = [odd(r.choice(["Rope", "Gem"])) for _ in range(r.randint(0, 3))]
            shop = _S([odd(r.choice(["Rope", "Gem", "Map"])) for _ in range(r.randint(1, 3))], sell_back_rate=r.choice([0.5, "x"]))
            for _ in range(r.randint(1, 5)):
                op = r.choice(["buy", "sell", "add", "remove"])
                nm = r.choice(["Rope", "Gem", "Map"])
                before = (w.gold, _copy.deepcopy(inv.items), _copy.deepcopy(shop.items))
                try:
                    if op == "buy":
                        shop.buy(nm, w, inv)
                    elif op == "sell":
                        shop.sell(nm, w, inv)
                    elif op == "add":
                        inv.add(odd(nm))
                    else:
                        inv.remove(nm)
                except Exception as e:  # noqa
                    n_exc += 1
                    after = (w.gold, inv.items, shop.items)
                    if after != before:
                        chk.report(f"{op}-not-atomic-when-it-raises", f"{op}({nm!r}) raised {type(e).__name__} and left a change behind: "
                                   f"gold {before[0]} -> {after[0]}, items {[i.get('name') for i in before[1]]} -> "
                                   f"{[i.get('name') for i in after[1]]}", {"op": op, "item": nm, "items_before": before[1], "stock": before[2]})
                        break
            chk.count(("raise-atomic", k), True)
        dist["operations_that_raised"] = n_exc

    # ---- pinned known-finding witnesses ----
    with C.quiet():
        from bardic.stdlib.economy import Wallet, Shop
        from bardic.stdlib.inventory import Inventory
        case = PINNED["buy-not-atomic-negative-price"]
        w, inv = Wallet(case["gold"]), Inventory(case["max_weight"])
        shop = Shop(copy.deepcopy(case["stock"]), case["rate"], case["disc"])
        r = shop.buy("Cursed", w, inv)
        if (not r) and w.gold != case["gold"]:
            chk.report("buy-not-atomic-negative-price",
                       f"Shop.buy of a negative-value item into a full inventory: gold {case['gold']}->{w.gold}, no item",
                       {"kind": "world", "case": case})

    world_terms, world_cases = [], []
    with C.quiet():
        for i in range(n_world + len(extra_w)):
            case = extra_w[i - n_world] if i >= n_world else gen_world_case(rng, maxops)
            obs, fin_items, fin_stock = run_world_impl(case, chk)
            world_terms.append(world_term(case, obs, fin_items, fin_stock))
            world_cases.append(case)
            for o, ob in zip(case["ops"], obs):
                dist["ops"][o[0]] = dist["ops"].get(o[0], 0) + 1
                key = f"{o[0]}:{ob[0]}" if not isinstance(ob[0], int) or isinstance(ob[0], bool) else f"{o[0]}:int"
                dist["results"][key] = dist["results"].get(key, 0) + 1
            nontrivial = any(ob[0] is True for o, ob in zip(case["ops"], obs) if o[0] in ("buy", "sell", "add"))
            chk.count(("w", repr(case)), nontrivial)
            if i < 2:
                chk.sample({"kind": "world", "case": case, "observed": obs})
        rel_terms, rel_cases = [], []
        for i in range(n_rel + len(extra_r)):
            case = extra_r[i - n_rel] if i >= n_rel else gen_rel_case(rng, maxops)
            obs, topics, quality, name = run_rel_impl(case, chk)
            rel_terms.append(rel_term(case, obs, topics, quality, name))
            rel_cases.append(case)
            chk.count(("r", repr(case)), any(o[0] for o in obs))
            if i < 1:
                chk.sample({"kind": "relationship", "case": case, "observed": obs})
        dice_terms, dice_cases = [], []
        for i in range(n_dice):
            nt = gen_notation(rng)
            res = run_dice_impl(nt, chk, rng)
            dice_terms.append(dice_term(nt, res))
            dice_cases.append(nt)
            dist["results"]["dice:" + ("invalid" if res is None else "ok")] = \
                dist["results"].get("dice:" + ("invalid" if res is None else "ok"), 0) + 1
            chk.count(("d", nt), res is not None)
            if i < 1:
                chk.sample({"kind": "dice", "notation": nt, "parsed": res})

    disagreements = 0
    for terms, cases, ctype, bad_fn, show_fn, label in [
            (world_terms, world_cases, "wcase", "wcase_bad", "wcase_show", "world"),
            (rel_terms, rel_cases, "rcase", "rcase_bad", "rcase_show", "relationship"),
            (dice_terms, dice_cases, "dcase", "dcase_bad", "dcase_show", "dice")]:
        bad, shown, log = C.run_coq_cases(chk.scratch + "", HEADER, terms, ctype, bad_fn, show_fn=show_fn)
        for b in bad:
            disagreements += 1
            if isinstance(b, int):
                chk.disagree(label, f"model Stdlib/Game.v and implementation differ on a {label} case",
                             {"case": cases[b], "model_says": shown.get(b)})
            else:
                chk.disagree(label + "-coqc", "case shard failed to evaluate", {"log": log})
    if not tr["ok"]:
        chk.disagree(f"translation:{tr['function'] or tr['stage']}",
                     f"bardic/stdlib no longer translates to the model Stdlib/Game.v ({tr['stage']}): {tr['detail']}",
                     {"translation": tr, "extra_cases_searched": len(extra_w) + len(extra_r)})
    chk.cov["programs"] = len(world_terms) + len(rel_terms) + len(dice_terms)
    chk.cov["disagreements_checked"] = chk.cov["programs"]
    chk.cov["disagreements_found"] = disagreements
    chk.cov["rule"] = ("world cases: random Wallet/Inventory/Shop histories (ops drawn from spend, earn, set gold, add, "
                       "remove, remove_all, clear, buy, sell, set_discount over 4 item names, quarter-unit weights, "
                       "non-negative values); non-trivial = at least one successful buy/sell/add. relationship cases: "
                       "non-trivial = a threshold event fired. dice: non-trivial = notation accepted. distinct = by "
                       "full case content")
    chk.notes["input_distribution"] = dist
    chk.assumptions = [
        "weights, max_weight, sell_back_rate, discount are multiples of 0.25 (exact in binary64), so the model's "
        "integer quarter units and Python floats agree; item values are non-negative integers",
        "Shop.buy atomicity is proved and tested for non-negative prices (the negative-price case is the listed known finding)",
    ]
    return chk.finish(props, C.BASE_TRUST + ["modelled: bardic/stdlib/{economy,inventory,relationship,dice}.py "
                                              "(random.randint is an input list of draws in the model)"],
                      "make -C /verif/coq && coqc -Q /verif/coq Bardic /verif/coq/Props/C20.v")
