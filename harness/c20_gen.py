"""C20, tighter tie: translate bardic/stdlib/*.py to Gallina on every run and re-check the proofs over it.

    check_translation(chk_or_none, stdlib_dir=None) -> dict
        1. harness/c20_translate.py reads the CURRENT <repo>/bardic/stdlib/{economy,inventory,relationship}.py
           and writes GameGen.v (fail closed: TranslationError names file:line and node);
        2. coqc GameGen.v;
        3. coqc a copy of coq/Stdlib/GameGenEq.v.in (fixed script): Gen.f = Game.f for every function, then every
           C20 property theorem over the generated functions, each with Print Assumptions.
       Everything happens in a fresh directory under the system temp dir, removed afterwards.

    python -m harness.c20_gen              one run, prints the dict
    python -m harness.c20_gen --selftest   seeded single-site edits of a scratch copy of the stdlib directory:
                                           each must be refused (translation or equivalence failure naming the
                                           edited function); harmless rewrites must pass or be refused (fail closed)
"""
from __future__ import annotations

import json
import os
import re
import shutil
import sys
import tempfile
import time

from . import common as C
from . import c20_translate as T

SCRIPT = os.path.join(C.COQ, "Stdlib", "GameGenEq.v.in")
COQC_TIMEOUT = 180

# which operation kinds of c20.py's world / relationship generators exercise a generated function
# (for the caller: "intensify the search around the named function")
FOCUS = {
    "wallet_new": ["spend", "earn"], "wallet_gold": ["spend", "earn", "set_gold"], "set_gold": ["set_gold"],
    "can_afford": ["spend", "buy"], "spend": ["spend", "buy"], "earn": ["earn", "buy", "sell"],
    "wallet_to_dict": [], "wallet_from_dict": [],
    "inv_new": ["add"], "current_weight": ["add", "buy"], "inv_add": ["add", "buy"], "inv_remove": ["remove", "sell"],
    "inv_remove_all": ["remove_all"], "inv_has": ["sell"], "inv_count": ["add"], "inv_get": ["sell"],
    "inv_total_value": ["add"], "inv_clear": ["clear"], "inv_to_dict": [], "inv_from_dict": [],
    "shop_new": ["buy", "sell"], "find_item": ["buy"], "get_buy_price": ["buy", "set_discount"], "get_sell_price": ["sell"],
    "buy": ["buy", "add", "set_discount"], "sell": ["sell", "add"], "set_discount": ["set_discount", "buy"],
    "shop_to_dict": [], "shop_from_dict": [],
    "set_trust": ["set_trust", "add_trust"], "set_comfort": ["add_comfort"], "set_openness": ["add_openness"],
    "rel_new": [], "add_trust": ["add_trust"], "add_comfort": ["add_comfort"], "add_openness": ["add_openness"],
    "discuss": ["discuss"], "quality": ["add_trust", "set_trust"], "rel_to_dict": [], "rel_from_dict": [],
}


def focus_ops(function: str | None):
    return FOCUS.get(function or "", [])


def focused_cases(gen_case, rng, maxops: int, function: str | None, n: int):
    """`n` extra cases from c20.py's own generator (gen_world_case / gen_rel_case), kept only when at least two of
    their operations exercise `function` (rejection sampling, at most 30*n draws).  Used by c20.run on a translation
    failure to look for a concrete failing input around the function whose source changed."""
    focus = set(focus_ops(function))
    out = []
    for _ in range(30 * n):
        if len(out) >= n:
            break
        c = gen_case(rng, maxops)
        if not focus or sum(1 for o in c["ops"] if o[0] in focus) >= 2:
            out.append(c)
    return out


def _enclosing(text: str, line: int, kinds=("Lemma", "Theorem", "Example", "Definition", "Fixpoint")):
    """name of the last `Lemma|Theorem|... name` at or before `line` (1-based)"""
    name = None
    pat = re.compile(r"^\s*(?:%s)\s+([A-Za-z0-9_']+)" % "|".join(kinds))
    for i, l in enumerate(text.split("\n"), 1):
        if i > line:
            break
        m = pat.match(l)
        if m:
            name = m.group(1)
    return name


def _first_error(out: str, fname: str):
    """-> (line or None, message)"""
    m = re.search(r'File "[^"]*%s", line (\d+), characters [^\n]*\n(.*)' % re.escape(fname), out, re.S)
    if not m:
        return None, out.strip()[-600:]
    return int(m.group(1)), m.group(2).strip()[:600]


def check_translation(chk=None, stdlib_dir: str | None = None, keep: bool = False) -> dict:
    t0 = time.time()
    src = stdlib_dir or os.path.join(C.REPO, "bardic", "stdlib")
    script = open(SCRIPT).read()
    n_theorems = len(re.findall(r"^Theorem\s", script, re.M))
    n_print = len(re.findall(r"^Print Assumptions\s", script, re.M))
    theorems = re.findall(r"^Theorem\s+([A-Za-z0-9_']+)", script, re.M)
    res = {"ok": False, "stage": "translate", "failed_lemma": None, "function": None, "detail": "",
           "n_functions": 0, "n_theorems": n_theorems, "source": src}
    tmp = tempfile.mkdtemp(prefix="bardic_c20gen_")
    try:
        # the fixed script itself must be free of escape hatches (it is not in _CoqProject, so the shared scan skips it)
        plain = re.sub(r'"(?:[^"]|"")*"', '""', C.strip_coq_comments(script))
        bad = C.FORBIDDEN.findall(plain)
        if bad or n_print < n_theorems:
            res.update(stage="equivalence", detail=f"GameGenEq.v.in: forbidden construct {bad} or a theorem without Print Assumptions")
            return res
        # 1. translate
        try:
            tr = T.Translator(src)
            text, names = tr.translate_all()
            where = {sg.coq: f"{sg.file}:{sg.line} {sg.cls}.{sg.name}" for sg in tr.sigs.values()}
        except T.TranslationError as ex:
            res.update(detail=str(ex), function=ex.function, failed_lemma=ex.function)
            return res
        except (OSError, UnicodeDecodeError, RecursionError) as ex:
            res.update(detail=f"{type(ex).__name__}: {ex}")
            return res
        res["n_functions"] = len(names)
        if C.FORBIDDEN.search(re.sub(r'"(?:[^"]|"")*"', '""', C.strip_coq_comments(text))):
            res.update(detail="forbidden construct in the generated text")
            return res
        gen = os.path.join(tmp, "GameGen.v")
        open(gen, "w").write(text)
        args = ["coqc", "-Q", C.COQ, "Bardic", "-Q", tmp, "BardicGen"]
        # 2. the generated module
        res["stage"] = "gen-compile"
        rc, out = C.sh(args + [gen], timeout=COQC_TIMEOUT, cwd=tmp)
        if rc != 0:
            line, msg = _first_error(out, "GameGen.v")
            fn = _enclosing(text, line, ("Definition",)) if line else None
            res.update(detail=f"GameGen.v line {line}: {msg}", function=fn, failed_lemma=fn)
            return res
        # 3. equalities and theorems
        res["stage"] = "equivalence"
        eq = os.path.join(tmp, "GameGenEq.v")
        open(eq, "w").write(script)
        rc, out = C.sh(args + [eq], timeout=COQC_TIMEOUT, cwd=tmp)
        if rc != 0:
            line, msg = _first_error(out, "GameGenEq.v")
            lemma = _enclosing(script, line, ("Lemma", "Theorem", "Example")) if line else None
            fn = lemma[:-3] if lemma and lemma.endswith("_eq") else lemma
            at = f"Gen.{fn} ({where[fn]}) is no longer proved equal to the model: " if fn in where else ""
            res.update(failed_lemma=lemma, function=fn, detail=f"{at}GameGenEq.v line {line} ({lemma}): {msg}")
            return res
        closed = out.count("Closed under the global context")
        if "Axioms:" in out or closed != n_print:
            res.update(detail=f"{closed} of {n_print} Print Assumptions are closed" + (" (axioms reported)" if "Axioms:" in out else ""))
            return res
        res.update(ok=True, stage="done", detail=f"{len(names)} functions equal to the model; {n_theorems} theorems closed")
        return res
    except Exception as ex:  # noqa  (timeouts etc.): fail closed
        res.update(ok=False, detail=f"{type(ex).__name__}: {ex}")
        return res
    finally:
        res["wall_s"] = round(time.time() - t0, 2)
        if keep:
            res["kept"] = tmp
        else:
            shutil.rmtree(tmp, ignore_errors=True)
        if chk is not None:
            chk.notes["translation"] = {k: res[k] for k in ("ok", "stage", "failed_lemma", "function", "detail",
                                                             "n_functions", "n_theorems", "wall_s")}
            chk.notes["translation"]["theorems_over_generated_functions"] = theorems if res["ok"] else []


# ----------------------------------------------------------------------------------------------------
# self-test
# ----------------------------------------------------------------------------------------------------
# (id, file, old text (must occur exactly once), new text, functions one of which must be named; None = any refusal)
MUTANTS = [
    ("can_afford >= -> >", "economy.py", "return self.gold >= price", "return self.gold > price", ["can_afford"]),
    ("earn drops max(0, amount)", "economy.py", "self._gold += max(0, amount)", "self._gold += amount", ["earn"]),
    ("spend without the can_afford test", "economy.py",
     "        if self.can_afford(amount):\n            self._gold -= amount\n            return True\n        return False",
     "        self._gold -= amount\n        return True", ["spend"]),
    ("buy: refund removed", "economy.py", "            wallet.earn(price)\n            return False",
     "            return False", ["buy"]),
    ("buy: refund of the list value instead of the price", "economy.py", "            wallet.earn(price)\n",
     "            wallet.earn(item.get(\"value\", 0))\n", ["buy"]),
    ("buy: refund of item[\"value\"] (unguarded subscript)", "economy.py", "            wallet.earn(price)\n",
     "            wallet.earn(item[\"value\"])\n", ["buy"]),
    ("buy: reports success on the refund path", "economy.py", "            wallet.earn(price)\n            return False",
     "            wallet.earn(price)\n            return True", ["buy"]),
    ("Inventory.add <= -> <", "inventory.py", "self.current_weight + item_weight <= self.max_weight",
     "self.current_weight + item_weight < self.max_weight", ["inv_add"]),
    ("Inventory.add ignores the item's weight", "inventory.py", "self.current_weight + item_weight <= self.max_weight",
     "self.current_weight <= self.max_weight", ["inv_add"]),
    ("trust clamp upper bound 100 -> 101", "relationship.py", "self._trust = max(0, min(100, value))",
     "self._trust = max(0, min(101, value))", ["set_trust"]),
    ("openness clamp lower bound dropped", "relationship.py", "self._openness = max(-10, min(10, value))",
     "self._openness = min(10, value)", ["set_openness"]),
    ("80 threshold: if -> elif", "relationship.py", "        if old_trust < 80 <= self.trust:",
     "        elif old_trust < 80 <= self.trust:", ["add_trust"]),
    ("old_trust < 60 -> <=", "relationship.py", "if old_trust < 60 <= self.trust:", "if old_trust <= 60 <= self.trust:",
     ["add_trust"]),
    ("add_trust reads old_trust after the update", "relationship.py",
     "        old_trust = self.trust\n        self.trust += amount  # Uses setter, auto-clamps\n",
     "        self.trust += amount  # Uses setter, auto-clamps\n        old_trust = self.trust\n", ["add_trust"]),
    ("sell pays before remove succeeds", "economy.py",
     "        if inventory.remove(item_name):\n            wallet.earn(sell_price)\n            return True\n        return False",
     "        wallet.earn(sell_price)\n        if inventory.remove(item_name):\n            return True\n        return False",
     ["sell"]),
    ("sell price from discount instead of sell_back_rate", "economy.py", "return int(item_value * self.sell_back_rate)",
     "return int(item_value * self.discount)", ["get_sell_price"]),
    ("set_discount without max", "economy.py", "self.discount = max(0.0, discount)", "self.discount = discount",
     ["set_discount"]),
    ("Shop.from_dict forgets discount", "economy.py", "            discount=data[\"discount\"],\n", "", ["shop_from_dict"]),
    ("Inventory.from_dict forgets the items", "inventory.py", "        inv.items = data[\"items\"]\n", "", ["inv_from_dict"]),
    ("Relationship.to_dict forgets comfort", "relationship.py", "            \"comfort\": self.comfort,\n", "", ["rel_to_dict"]),
    ("Relationship.from_dict swaps trust and comfort", "relationship.py",
     "            trust=data[\"trust\"],\n            comfort=data[\"comfort\"],",
     "            trust=data[\"comfort\"],\n            comfort=data[\"trust\"],", ["rel_from_dict"]),
    ("Wallet.__init__ drops max(0, gold)", "economy.py", "self._gold = max(0, gold)  # Never less than 0",
     "self._gold = gold", ["wallet_new"]),
    ("remove_all keeps the matching items", "inventory.py", "if item[\"name\"] != item_name]", "if item[\"name\"] == item_name]",
     ["inv_remove_all"]),
    ("quality constant 80 -> 85", "relationship.py", "        if self.trust >= 80:\n            return \"close_confidant\"",
     "        if self.trust >= 85:\n            return \"close_confidant\"", ["quality"]),
    ("get_buy_price without int()", "economy.py", "return int(item[\"value\"] * self.discount)",
     "return item[\"value\"] * self.discount", ["get_buy_price"]),
    ("unrecognised construct (while) in earn", "economy.py", "        self._gold += max(0, amount)  # Can't earn negative",
     "        while amount > 0:\n            self._gold += 1\n            amount -= 1", ["earn"]),
    ("add_trust bypasses the clamping setter", "relationship.py", "        self.trust += amount  # Uses setter, auto-clamps",
     "        self._trust += amount", ["add_trust"]),
    ("discuss_topic replaces the set", "relationship.py", "        self.topics_discussed.add(topic)",
     "        self.topics_discussed = {topic}", ["discuss"]),
    ("buy spends through a second name for the wallet (aliasing)", "economy.py", "        if not wallet.spend(price):",
     "        w = wallet\n        if not w.spend(price):", ["buy"]),
    ("earn prints (an effect the translator does not know)", "economy.py", "        self._gold += max(0, amount)  # Can't earn negative",
     "        print(amount)\n        self._gold += max(0, amount)", ["earn"]),
    ("a new mutating method appears in Wallet", "economy.py", "    def to_dict(self) -> dict:\n        \"\"\"Serialize for save/load.\"\"\"\n        return {\"gold\": self.gold}",
     "    def steal(self):\n        self._gold = -1\n\n    def to_dict(self) -> dict:\n        \"\"\"Serialize for save/load.\"\"\"\n        return {\"gold\": self.gold}",
     None),
]
HARMLESS = [
    ("spend: early `if not self.can_afford(amount): return False`", "economy.py",
     "        if self.can_afford(amount):\n            self._gold -= amount\n            return True\n        return False",
     "        if not self.can_afford(amount):\n            return False\n        self._gold -= amount\n        return True"),
    ("earn: temporary variable", "economy.py", "        self._gold += max(0, amount)  # Can't earn negative",
     "        gain = max(0, amount)\n        self._gold += gain"),
    ("spend: self._gold = self._gold - amount", "economy.py", "            self._gold -= amount\n",
     "            self._gold = self._gold - amount\n"),
    ("can_afford: price <= self.gold", "economy.py", "return self.gold >= price", "return price <= self.gold"),
    ("add_trust: temporary for the new value", "relationship.py",
     "        if old_trust < 60 <= self.trust:\n            self.on_trust_threshold_60()\n        if old_trust < 80 <= self.trust:",
     "        new_trust = self.trust\n        if old_trust < 60 <= new_trust:\n            self.on_trust_threshold_60()\n        if old_trust < 80 <= new_trust:"),
    ("buy: `if not inventory.add(...)` with the refund first", "economy.py",
     "        if inventory.add(item.copy()):  # Copy so shop inventory isn't modified\n            return True\n        else:\n"
     "            # Inventory full - refund\n            wallet.earn(price)\n            return False",
     "        if not inventory.add(item.copy()):\n            wallet.earn(price)\n            return False\n        return True"),
    ("Inventory.add: explicit else", "inventory.py",
     "            self.items.append(item)\n            return True\n        return False",
     "            self.items.append(item)\n            return True\n        else:\n            return False"),
]


# edits that change the behaviour of the Python but NOT the generated text: the representation has no object
# identity (item dicts and lists are values).  Listed so that the table is honest about the blind spot; these are
# the business of c20.py's own oracles (buy-aliases-stock, stock-mutated) and of C16.
BLIND = [
    ("buy: the bought item is not copied (inventory holds the shop's own dict)", "economy.py",
     "inventory.add(item.copy())", "inventory.add(item)"),
]


def _scratch_stdlib(src):
    d = tempfile.mkdtemp(prefix="bardic_c20gen_src_")
    for f, _ in T.FILES:
        shutil.copy(os.path.join(src, f), os.path.join(d, f))
    return d


def _apply(d, fname, old, new):
    p = os.path.join(d, fname)
    s = open(p, encoding="utf-8").read()
    if s.count(old) != 1:
        return False
    open(p, "w", encoding="utf-8").write(s.replace(old, new))
    return True


def selftest(src=None) -> int:
    src = src or os.path.join(C.REPO, "bardic", "stdlib")
    rows, failures = [], 0
    base = check_translation(None, src)
    rows.append(("unchanged tree", "pass", "ok" if base["ok"] else "NOT OK", base["stage"], base["function"], base["detail"][:90]))
    if not base["ok"]:
        failures += 1
    for (mid, fname, old, new, expect) in MUTANTS:
        d = _scratch_stdlib(src)
        try:
            if not _apply(d, fname, old, new):
                rows.append((mid, "refused", "NOT APPLICABLE", "-", None, "the seeded text does not occur exactly once"))
                failures += 1
                continue
            r = check_translation(None, d)
        finally:
            shutil.rmtree(d, ignore_errors=True)
        good = (not r["ok"]) and (expect is None or r["function"] in expect)
        if not good:
            failures += 1
        rows.append((mid, "refused, naming " + ("/".join(expect) if expect else "anything"),
                     "ok" if good else "MISSED", r["stage"], r["function"], r["detail"][:90].replace("\n", " ")))
    for (mid, fname, old, new) in HARMLESS:
        d = _scratch_stdlib(src)
        try:
            if not _apply(d, fname, old, new):
                rows.append((mid, "pass or refused", "NOT APPLICABLE", "-", None, "the seeded text does not occur exactly once"))
                failures += 1
                continue
            r = check_translation(None, d)
        finally:
            shutil.rmtree(d, ignore_errors=True)
        rows.append((mid, "pass (or fail closed)", "pass" if r["ok"] else "refused", r["stage"], r["function"],
                     r["detail"][:90].replace("\n", " ")))
    for (mid, fname, old, new) in BLIND:
        d = _scratch_stdlib(src)
        try:
            if not _apply(d, fname, old, new):
                rows.append((mid, "pass (blind spot)", "NOT APPLICABLE", "-", None, "the seeded text does not occur exactly once"))
                failures += 1
                continue
            r = check_translation(None, d)
        finally:
            shutil.rmtree(d, ignore_errors=True)
        rows.append((mid, "pass (known blind spot: aliasing)", "pass" if r["ok"] else "refused", r["stage"], r["function"],
                     r["detail"][:90].replace("\n", " ")))
    w = max(len(r[0]) for r in rows)
    print(f"{'edit'.ljust(w)} | expected | result | stage | function | detail")
    for r in rows:
        print(f"{r[0].ljust(w)} | {r[1]} | {r[2]} | {r[3]} | {r[4]} | {r[5]}")
    print(f"selftest: {len(MUTANTS)} seeded edits, {len(HARMLESS)} harmless rewrites, {len(BLIND)} known blind spot, "
          f"{failures} unexpected")
    return 1 if failures else 0


def main(argv=None) -> int:
    argv = sys.argv[1:] if argv is None else argv
    if "--selftest" in argv:
        return selftest()
    d = next((a for a in argv if not a.startswith("-")), None)
    r = check_translation(None, d, keep="--keep" in argv)
    print(json.dumps(r, indent=1))
    return 0 if r["ok"] else 1


if __name__ == "__main__":
    sys.exit(main())
