"""C20 translator: bardic/stdlib/{economy,inventory,relationship}.py  ->  Gallina (`GameGen.v`).

A fail-closed translator driven by Python's `ast`.  Every method of the four stdlib classes is turned, by
symbolic execution of its statement list, into one Gallina function over the SAME record types as the hand
model `coq/Stdlib/Game.v`, inside `Module Gen`.  `coq/Stdlib/GameGenEq.v.in` then proves, on every run,
`Gen.f = Game.f` for each function and re-states the C20 property theorems over the generated functions.

What is trusted here (and nowhere else): the tables in the section "TRUSTED CONFIGURATION" below, and the
meaning given to each recognised construct (section "constructs").  Everything that is not recognised raises
`TranslationError` naming file:line and the AST node.  Operators, constants and branch order are emitted as
the source has them, so an edit of the source changes the generated text.

    translate(stdlib_dir) -> (gallina_text, [generated function names])
"""
from __future__ import annotations

import ast
import os
import re

# ======================================================================================================
# TRUSTED CONFIGURATION
# ======================================================================================================
# -- types ---------------------------------------------------------------------------------------------
#   INT   plain Python int                                  -> Z
#   Q     "quarter-unit rational": a Python float that is a multiple of 0.25, represented by 4*x  -> Z
#         (the same convention as Game.v: weights, max_weight, discount, sell_back_rate).
#         int(q) is Z.quot q 4; INT*Q is Q (v * (4r) = 4 (v r)); an INT used where a Q is expected is 4*i;
#         Q*Q is not representable and is refused.
#   BOOL, STR, ITEM (an item dict = Game.item), LIST t, SET STR (a Python set of strings, represented by a
#   duplicate-free list in insertion order, as in Game.v), OPT t, OBJ cls, PAYLOAD cls (what to_dict returns).
INT, Q, BOOL, STR, ITEM, NONE = ("int",), ("q",), ("bool",), ("str",), ("item",), ("none",)


def LIST(t):
    return ("list", t)


def SET(t):
    return ("set", t)


def OPT(t):
    return ("opt", t)


def OBJ(c):
    return ("obj", c)


def PAYLOAD(c):
    return ("payload", c)


# -- which files / classes -------------------------------------------------------------------------------
FILES = [("economy.py", ["Wallet", "Shop"]), ("inventory.py", ["Inventory"]), ("relationship.py", ["Relationship"])]

# -- records: python attribute -> (Game.v projection, type).  The typed environment: which quantities are
#    plain ints and which are quarter-unit rationals is decided HERE (fields), by ITEM_KEYS (item dicts) and
#    by the parameter annotations (`float` -> Q, `int` -> INT).
RECORDS = {
    "Wallet": ("Game.wallet", "Game.mkWallet", [("_gold", "Game.gold", INT)]),
    "Inventory": ("Game.inventory", "Game.mkInv", [("items", "Game.items", LIST(ITEM)), ("max_weight", "Game.max_weight", Q)]),
    "Shop": ("Game.shop", "Game.mkShop", [("items", "Game.stock", LIST(ITEM)), ("sell_back_rate", "Game.sell_back_rate", Q),
                                          ("discount", "Game.discount", Q)]),
    "Relationship": ("Game.rel", "Game.mkRel", [("name", "Game.rname", STR), ("_trust", "Game.trust", INT),
                                                ("_comfort", "Game.comfort", INT), ("_openness", "Game.openness", INT),
                                                ("topics_discussed", "Game.topics", SET(STR))]),
}
# item dicts: key -> (projection of Game.item (an option), type of the value)
ITEM_KEYS = {"name": ("Game.iname", STR), "weight": ("Game.iweight", Q), "value": ("Game.ivalue", INT),
             "category": ("Game.icat", STR)}
# what to_dict builds / from_dict reads: key order = order of the components of the Gallina tuple
PAYLOADS = {
    "Wallet": [("gold", INT)],
    "Inventory": [("items", LIST(ITEM)), ("max_weight", Q)],
    "Shop": [("items", LIST(ITEM)), ("sell_back_rate", Q), ("discount", Q)],
    "Relationship": [("name", STR), ("trust", INT), ("comfort", INT), ("openness", INT), ("topics_discussed", LIST(STR))],
}
# -- methods: (class, python name, kind) -> name of the generated Gallina function.  kind is one of
#    init | method | getter | setter | classmethod.  A method found in the source that is in none of
#    METHODS / SKIPPED / EVENT_HOOKS stops the translation (so does a listed one that is missing).
METHODS = {
    ("Wallet", "__init__", "init"): "wallet_new",
    ("Wallet", "gold", "getter"): "wallet_gold",
    ("Wallet", "gold", "setter"): "set_gold",
    ("Wallet", "can_afford", "method"): "can_afford",
    ("Wallet", "spend", "method"): "spend",
    ("Wallet", "earn", "method"): "earn",
    ("Wallet", "to_dict", "method"): "wallet_to_dict",
    ("Wallet", "from_dict", "classmethod"): "wallet_from_dict",
    ("Inventory", "__init__", "init"): "inv_new",
    ("Inventory", "current_weight", "getter"): "current_weight",
    ("Inventory", "add", "method"): "inv_add",
    ("Inventory", "remove", "method"): "inv_remove",
    ("Inventory", "remove_all", "method"): "inv_remove_all",
    ("Inventory", "has", "method"): "inv_has",
    ("Inventory", "count", "method"): "inv_count",
    ("Inventory", "get", "method"): "inv_get",
    ("Inventory", "get_all", "method"): "inv_get_all",
    ("Inventory", "filter_by_category", "method"): "inv_filter_by_category",
    ("Inventory", "is_full", "getter"): "inv_is_full",
    ("Inventory", "is_empty", "getter"): "inv_is_empty",
    ("Inventory", "space_remaining", "getter"): "inv_space_remaining",
    ("Inventory", "total_value", "getter"): "inv_total_value",
    ("Inventory", "clear", "method"): "inv_clear",
    ("Inventory", "to_dict", "method"): "inv_to_dict",
    ("Inventory", "from_dict", "classmethod"): "inv_from_dict",
    ("Shop", "__init__", "init"): "shop_new",
    ("Shop", "find_item", "method"): "find_item",
    ("Shop", "get_buy_price", "method"): "get_buy_price",
    ("Shop", "get_sell_price", "method"): "get_sell_price",
    ("Shop", "buy", "method"): "buy",
    ("Shop", "sell", "method"): "sell",
    ("Shop", "set_discount", "method"): "set_discount",
    ("Shop", "to_dict", "method"): "shop_to_dict",
    ("Shop", "from_dict", "classmethod"): "shop_from_dict",
    ("Relationship", "__init__", "init"): "rel_new",
    ("Relationship", "trust", "getter"): "rel_trust",
    ("Relationship", "trust", "setter"): "set_trust",
    ("Relationship", "comfort", "getter"): "rel_comfort",
    ("Relationship", "comfort", "setter"): "set_comfort",
    ("Relationship", "openness", "getter"): "rel_openness",
    ("Relationship", "openness", "setter"): "set_openness",
    ("Relationship", "add_trust", "method"): "add_trust",
    ("Relationship", "add_comfort", "method"): "add_comfort",
    ("Relationship", "add_openness", "method"): "add_openness",
    ("Relationship", "discuss_topic", "method"): "discuss",
    ("Relationship", "has_discussed", "method"): "rel_has_discussed",
    ("Relationship", "is_ready_for_deep_conversation", "getter"): "rel_is_ready",
    ("Relationship", "relationship_quality", "getter"): "quality",
    ("Relationship", "is_defensive", "getter"): "rel_is_defensive",
    ("Relationship", "is_vulnerable", "getter"): "rel_is_vulnerable",
    ("Relationship", "to_dict", "method"): "rel_to_dict",
    ("Relationship", "from_dict", "classmethod"): "rel_from_dict",
}
# display only; nothing else in these classes may be left untranslated
SKIPPED = {("Wallet", "__repr__", "method"), ("Shop", "__repr__", "method"), ("Inventory", "__repr__", "method")}
# overridable hooks whose body must be `pass`: calling one appends the event to the method's event list
EVENT_HOOKS = {("Relationship", "on_trust_threshold_60"): "Game.E60", ("Relationship", "on_trust_threshold_80"): "Game.E80"}
# class-level aliases that are allowed (and ignored): name = other method
ALIASES = {("Relationship", "to_save_dict", "to_dict"), ("Relationship", "from_save_dict", "from_dict")}

# -- further conventions (the same ones the hand model makes; stated, not checked) -------------------------
#  * `d[k] == x` / `d[k] != x` on an item dict whose key k is not known to be present is "no match" when k is
#    absent (the KeyError is not modelled; items held by inventories and shops carry a name).  Any other use
#    of `d[k]` needs a dominating `k in d` test, otherwise the translation is refused.
#  * truthiness of an Optional[dict] is "is not None" (an item returned by a name lookup is a non-empty dict).
#  * an Optional[Set[str]] parameter is a list; None is the empty list.  list(set) and set(list) are the identity
#    on the representation.  dict.copy() is the identity (Gallina values are immutable).
#  * sum() over integers is emitted as fold_right (Z addition is associative and commutative).
#  * L.remove(x) inside the remove-first loop idiom removes the element the loop stands on (the first one
#    satisfying the test: any earlier equal element would have satisfied the test earlier).

PREAMBLE = """From Coq Require Import ZArith List Bool String Ascii.
From Bardic Require Import PyStr Game.
Import ListNotations.
Local Open Scope list_scope.
Local Open Scope Z_scope.

(* fixed idiom library of the translator (part of its trusted meaning of the two loop idioms) *)
Fixpoint remove_first_by {A : Type} (p : A -> bool) (l : list A) : option (list A) :=
  match l with
  | [] => None
  | i :: r => if p i then Some r
              else match remove_first_by p r with Some r' => Some (i :: r') | None => None end
  end.
"""


# ======================================================================================================
class TranslationError(Exception):
    def __init__(self, file, node, msg):
        self.file, self.node, self.msg = file, node, msg
        line = getattr(node, "lineno", 0) if node is not None else 0
        kind = type(node).__name__ if node is not None else "-"
        self.where = f"{file}:{line}"
        self.function = None
        super().__init__(f"{file}:{line}: {kind}: {msg}")


class Val:
    __slots__ = ("e", "ty", "keyerr")

    def __init__(self, e, ty, keyerr=False):
        self.e, self.ty, self.keyerr = e, ty, keyerr


_ATOM = re.compile(r"^[A-Za-z_][\w.']*$|^\d+$")


def par(s: str) -> str:
    return s if _ATOM.match(s) else "(" + s + ")"


def ind(s: str, n=2) -> str:
    pad = " " * n
    return "\n".join(pad + l if l else l for l in s.split("\n"))


def coq_string(s: str) -> str:
    if any(ord(c) < 32 or ord(c) > 126 for c in s):
        raise ValueError("non-printable character in a string constant")
    return '"' + s.replace('"', '""') + '"%string'


def coq_ty(t) -> str:
    k = t[0]
    if k in ("int", "q"):
        return "Z"
    if k == "bool":
        return "bool"
    if k == "str":
        return "string"
    if k == "item":
        return "Game.item"
    if k in ("list", "set"):
        return "list " + par(coq_ty(t[1]))
    if k == "opt":
        return "option " + par(coq_ty(t[1]))
    if k == "obj":
        return RECORDS[t[1]][0]
    if k == "payload":
        return " * ".join(par(coq_ty(x)) for _, x in PAYLOADS[t[1]])
    raise ValueError(t)


class Env:
    def __init__(self):
        self.vars = {}       # python name -> Val (expression is always a let/pattern/parameter-bound Gallina name)
        self.known = {}      # (gallina name of an item, key) -> Val : the key is known to be present
        self.payload = {}    # (python name of the payload parameter, key) -> Val
        self.partial = None  # in __init__ before every field is assigned: python field -> gallina name
        self.locals_obj = set()

    def copy(self):
        e = Env()
        e.vars, e.known, e.payload = dict(self.vars), dict(self.known), dict(self.payload)
        e.partial = None if self.partial is None else dict(self.partial)
        e.locals_obj = set(self.locals_obj)
        return e


class Sig:
    def __init__(self):
        self.cls = self.name = self.kind = self.coq = None
        self.params = []      # [(python name, type, default ast or None)] without self/cls
        self.mutates = []     # subset of ['self'] + parameter names, in that order
        self.raises = False
        self.events = False
        self.ret_ty = None
        self.text = None
        self.line = 0
        self.file = None

    def pure(self):
        return not self.mutates and not self.raises and not self.events

    def result_ty(self) -> str:
        if self.kind == "init":
            return coq_ty(OBJ(self.cls))
        comps = []
        for m in self.mutates:
            t = OBJ(self.cls) if m == "self" else next(ty for n, ty, _ in self.params if n == m)
            comps.append(par(coq_ty(t)))
        if self.events:
            comps.append("list Game.revent")
        if self.raises:
            comps.append("Game.outcome " + par(coq_ty(self.ret_ty) if self.ret_ty else "unit"))
        elif self.ret_ty:
            comps.append(par(coq_ty(self.ret_ty)))
        return " * ".join(comps) if comps else "unit"


class Ctx:
    def __init__(self, sg, file, pass1):
        self.sg, self.file, self.pass1 = sg, file, pass1
        self.mutated, self.raises, self.events = set(), False, False
        self.rets = []
        self.n = 0

    def fresh(self, base):
        self.n += 1
        return f"{base}{self.n}"


class Translator:
    def __init__(self, stdlib_dir: str):
        self.dir = stdlib_dir
        self.methods = {}   # (cls, name, kind) -> (file, FunctionDef)
        self.hooks = {}     # (cls, name) -> (file, FunctionDef)
        self.classes = {}
        self.sigs = {}
        self.order = []
        self.in_progress = []
        self.scan()

    # ---------------------------------------------------------------------------------------------
    def err(self, file, node, msg):
        e = TranslationError(file, node, msg)
        if self.in_progress:
            k = self.in_progress[-1]
            e.function = METHODS.get(k, f"{k[0]}.{k[1]}")
        return e

    def scan(self):
        for fname, classes in FILES:
            path = os.path.join(self.dir, fname)
            if not os.path.isfile(path):
                raise TranslationError(fname, None, "source file is missing")
            try:
                tree = ast.parse(open(path, encoding="utf-8").read(), filename=fname)
            except SyntaxError as ex:
                raise TranslationError(fname, None, f"does not parse: {ex}")
            seen = []
            for n in tree.body:
                if isinstance(n, ast.Expr) and isinstance(n.value, ast.Constant) and isinstance(n.value.value, str):
                    continue
                if isinstance(n, (ast.Import, ast.ImportFrom)):
                    continue
                if isinstance(n, ast.ClassDef):
                    if n.name not in classes:
                        raise self.err(fname, n, f"class {n.name} is not in the translator's table")
                    if n.bases or n.keywords or n.decorator_list:
                        raise self.err(fname, n, "class with bases/keywords/decorators")
                    seen.append(n.name)
                    self.scan_class(fname, n)
                    continue
                raise self.err(fname, n, "module-level statement of an unrecognised shape")
            for c in classes:
                if c not in seen:
                    raise TranslationError(fname, None, f"class {c} not found")
        for key in METHODS:
            if key not in self.methods:
                raise TranslationError(dict((c, f) for f, cs in FILES for c in cs)[key[0]], None,
                                       f"method {key[0]}.{key[1]} ({key[2]}) not found in the source")
        for key in EVENT_HOOKS:
            if key not in self.hooks:
                raise TranslationError("relationship.py", None, f"hook {key[0]}.{key[1]} not found")

    def scan_class(self, fname, c):
        self.classes[c.name] = fname
        for n in c.body:
            if isinstance(n, ast.Expr) and isinstance(n.value, ast.Constant) and isinstance(n.value.value, str):
                continue
            if isinstance(n, ast.Assign) and len(n.targets) == 1 and isinstance(n.targets[0], ast.Name) \
                    and isinstance(n.value, ast.Name) and (c.name, n.targets[0].id, n.value.id) in ALIASES:
                continue
            if not isinstance(n, ast.FunctionDef):
                raise self.err(fname, n, "class-level statement of an unrecognised shape")
            decs = n.decorator_list
            if not decs:
                kind = "init" if n.name == "__init__" else "method"
            elif len(decs) == 1 and isinstance(decs[0], ast.Name) and decs[0].id == "property":
                kind = "getter"
            elif len(decs) == 1 and isinstance(decs[0], ast.Name) and decs[0].id == "classmethod":
                kind = "classmethod"
            elif len(decs) == 1 and isinstance(decs[0], ast.Attribute) and decs[0].attr == "setter" \
                    and isinstance(decs[0].value, ast.Name) and decs[0].value.id == n.name:
                kind = "setter"
            else:
                raise self.err(fname, n, "decorator of an unrecognised shape")
            key = (c.name, n.name, kind)
            if (c.name, n.name) in EVENT_HOOKS and kind == "method":
                body = [s for s in n.body if not (isinstance(s, ast.Expr) and isinstance(s.value, ast.Constant)
                                                  and isinstance(s.value.value, str))]
                if not (len(body) == 1 and isinstance(body[0], ast.Pass)) or len(n.args.args) != 1:
                    raise self.err(fname, n, "an event hook must have the body `pass` and no parameters")
                self.hooks[(c.name, n.name)] = (fname, n)
                continue
            if key in SKIPPED:
                continue
            if key not in METHODS:
                raise self.err(fname, n, f"method {c.name}.{n.name} ({kind}) is not in the translator's table")
            if key in self.methods:
                raise self.err(fname, n, "method defined twice")
            self.methods[key] = (fname, n)

    # ---------------------------------------------------------------------------------------------
    # types of parameters
    def ann_ty(self, file, cls, kind, a: ast.arg):
        t = a.annotation
        if t is None:
            raise self.err(file, a, f"parameter {a.arg} has no annotation")
        if isinstance(t, ast.Name):
            if t.id in ("int", "float", "str", "bool"):
                return {"int": INT, "float": Q, "str": STR, "bool": BOOL}[t.id]
            if t.id == "dict":
                return PAYLOAD(cls) if kind == "classmethod" else ITEM
            if t.id in RECORDS:
                return OBJ(t.id)
        if isinstance(t, ast.Constant) and t.value in RECORDS:
            return OBJ(t.value)
        d = ast.dump(t)
        if d == ast.dump(ast.parse("list[dict]", mode="eval").body):
            return LIST(ITEM)
        if d == ast.dump(ast.parse("Optional[Set[str]]", mode="eval").body):
            return SET(STR)
        raise self.err(file, a, f"annotation of an unrecognised shape for parameter {a.arg}")

    # ---------------------------------------------------------------------------------------------
    def sig(self, cls, name, kind, at=None, file=None) -> Sig:
        key = (cls, name, kind)
        if key in self.sigs:
            return self.sigs[key]
        if key not in self.methods:
            raise self.err(file or "?", at, f"{cls}.{name} ({kind}) is not a translated method")
        if key in self.in_progress:
            raise self.err(file or "?", at, f"recursive call of {cls}.{name}")
        fname, node = self.methods[key]
        self.in_progress.append(key)
        try:
            sg = self.translate_method(cls, name, kind, fname, node)
        finally:
            self.in_progress.pop()
        self.sigs[key] = sg
        self.order.append(key)
        return sg

    def translate_method(self, cls, name, kind, fname, node) -> Sig:
        sg = Sig()
        sg.cls, sg.name, sg.kind, sg.coq, sg.file, sg.line = cls, name, kind, METHODS[(cls, name, kind)], fname, node.lineno
        a = node.args
        if a.vararg or a.kwarg or a.kwonlyargs or a.posonlyargs or a.kw_defaults:
            raise self.err(fname, node, "parameter list of an unrecognised shape")
        if not a.args or a.args[0].arg != ("cls" if kind == "classmethod" else "self"):
            raise self.err(fname, node, "first parameter is not self/cls")
        ps = a.args[1:]
        defaults = [None] * (len(ps) - len(a.defaults)) + list(a.defaults)
        for p, d in zip(ps, defaults):
            sg.params.append((p.arg, self.ann_ty(fname, cls, kind, p), d))
        if kind == "getter" and ps or kind == "setter" and len(ps) != 1:
            raise self.err(fname, node, "property with an unexpected parameter list")
        # pass 1: effects and result type
        c1 = Ctx(sg, fname, True)
        self.run(node, sg, c1)
        if kind == "init":
            if c1.raises or c1.events or c1.mutated - {"self"}:
                raise self.err(fname, node, "__init__ with effects other than building self")
            if any(r is not None for r in c1.rets):
                raise self.err(fname, node, "__init__ returns a value")
            sg.ret_ty = OBJ(cls)
        else:
            sg.mutates = [m for m in ["self"] + [p for p, _, _ in sg.params] if m in c1.mutated]
            sg.raises, sg.events = c1.raises, c1.events
            sg.ret_ty = self.unify(fname, node, c1.rets)
            # a simple return annotation must agree with what the body returns (int vs quarter-unit rational ...)
            if isinstance(node.returns, ast.Name) and node.returns.id in ("int", "float", "bool", "str"):
                want = {"int": (INT,), "float": (Q, INT), "bool": (BOOL,), "str": (STR,)}[node.returns.id]
                if sg.ret_ty not in want:
                    raise self.err(fname, node, f"annotated `-> {node.returns.id}` but the body returns {sg.ret_ty}")
        c2 = Ctx(sg, fname, False)
        body = self.run(node, sg, c2)
        if (c2.mutated, c2.raises, c2.events) != (c1.mutated, c1.raises, c1.events):
            raise self.err(fname, node, "internal: the two passes disagree")
        first = "v_self : " + coq_ty(OBJ(cls))
        params = ([] if kind in ("init", "classmethod") else [f"({first})"]) + \
                 [f"(v_{p} : {coq_ty(t)})" for p, t, _ in sg.params]
        head = f"(* {fname}:{node.lineno}  {cls}.{name}" + ("" if kind in ("method", "init") else f" [{kind}]") + " *)\n"
        sg.text = head + f"Definition {sg.coq} {' '.join(params)} : {sg.result_ty()} :=\n{ind(body)}.\n"
        return sg

    def unify(self, file, node, rets):
        tys = [r for r in rets if r is not None and r != NONE]
        nones = len(tys) != len(rets)
        if not tys:
            return None
        t = tys[0]
        for u in tys[1:]:
            if u == t:
                continue
            if {u, t} == {INT, Q}:
                t = Q
            elif u == OPT(t):
                t = u
            elif t == OPT(u):
                pass
            else:
                raise self.err(file, node, f"return statements of different types: {t} / {u}")
        if nones and t[0] != "opt":
            t = OPT(t)
        return t

    def run(self, node, sg, ctx) -> str:
        env = Env()
        prefix = []
        for p, t, _ in sg.params:
            env.vars[p] = Val("v_" + p, t)
            if t[0] == "payload":
                names = []
                for k, kt in PAYLOADS[t[1]]:
                    env.payload[(p, k)] = Val("d_" + k, kt)
                    names.append("d_" + k)
                prefix.append(f"let '({', '.join(names)}) := v_{p} in" if len(names) > 1 else f"let {names[0]} := v_{p} in")
        if sg.kind == "init":
            env.vars["self"] = Val("v_self", OBJ(sg.cls))
            env.partial = {}
        elif sg.kind == "classmethod":
            env.vars["cls"] = Val(None, ("class", sg.cls))
        else:
            env.vars["self"] = Val("v_self", OBJ(sg.cls))
        body = self.xb(list(node.body), env, ctx, lambda e: self.finish(ctx, e, None, node))
        if not ctx.pass1 and sg.events:
            prefix.append("let evs := @nil Game.revent in")
        return "\n".join(prefix + [body])

    # ---------------------------------------------------------------------------------------------
    # leaving the function
    def finish(self, ctx, env, val, node):
        sg = ctx.sg
        if sg.kind == "init":
            if val is not None and val.ty != NONE:
                ctx.rets.append(val.ty)
            if env.partial is not None:
                missing = [f for f, _, _ in RECORDS[sg.cls][2] if f not in env.partial]
                raise self.err(ctx.file, node, f"__init__ ends without assigning {missing}")
            return "v_self"
        if ctx.pass1:
            ctx.rets.append(None if val is None else val.ty)
            return "?"
        comps = ["v_" + m for m in sg.mutates]
        if sg.events:
            comps.append("evs")
        r = None
        if sg.ret_ty is not None:
            if val is None or val.ty == NONE:
                if sg.ret_ty[0] != "opt":
                    raise self.err(ctx.file, node, "a path returns None from a function that returns a value")
                r = "None"
            elif val.ty == sg.ret_ty:
                r = val.e
            elif OPT(val.ty) == sg.ret_ty:
                r = "Some " + par(val.e)
            elif val.ty == INT and sg.ret_ty == Q:
                r = "4 * " + par(val.e)
            else:
                raise self.err(ctx.file, node, f"return of type {val.ty} where {sg.ret_ty} is expected")
        if sg.raises:
            comps.append("Game.Ret " + par(r if r is not None else "tt"))
        elif r is not None:
            comps.append(r)
        if not comps:
            return "tt"
        return comps[0] if len(comps) == 1 else "(" + ", ".join(comps) + ")"

    def finish_raise(self, ctx, env, node):
        ctx.raises = True
        if ctx.pass1:
            return "?"
        sg = ctx.sg
        comps = ["v_" + m for m in sg.mutates] + (["evs"] if sg.events else []) + ["Game.RaiseValueError"]
        return comps[0] if len(comps) == 1 else "(" + ", ".join(comps) + ")"

    # ---------------------------------------------------------------------------------------------
    # statements (symbolic execution; `kend` is what happens when the block falls off its end)
    @staticmethod
    def is_doc(s):
        return isinstance(s, ast.Expr) and isinstance(s.value, ast.Constant) and isinstance(s.value.value, str)

    def xb(self, stmts, env, ctx, kend) -> str:
        if not stmts:
            return kend(env)
        s, rest = stmts[0], stmts[1:]
        F = ctx.file

        def nxt(e):
            return self.xb(rest, e, ctx, kend)

        if self.is_doc(s) or isinstance(s, ast.Pass):
            return nxt(env)
        if isinstance(s, ast.Return):
            if rest:
                raise self.err(F, rest[0], "statement after return")
            if s.value is None:
                return self.finish(ctx, env, None, s)
            return self.et(s.value, env, ctx, lambda v, e: self.finish(ctx, e, v, s))
        if isinstance(s, ast.Raise):
            if rest:
                raise self.err(F, rest[0], "statement after raise")
            x = s.exc
            ok = s.cause is None and (
                (isinstance(x, ast.Call) and isinstance(x.func, ast.Name) and x.func.id == "ValueError")
                or (isinstance(x, ast.Name) and x.id == "ValueError"))
            if not ok:
                raise self.err(F, s, "only `raise ValueError(...)` is recognised")
            return self.finish_raise(ctx, env, s)
        if isinstance(s, ast.If):
            return self.cond(s.test, env, ctx,
                             lambda e: self.xb(list(s.body), e, ctx, nxt),
                             lambda e: self.xb(list(s.orelse), e, ctx, nxt), False)
        if isinstance(s, ast.Expr):
            v = s.value
            if isinstance(v, ast.Call):
                lo = self.list_op(v, env, ctx)
                if lo is not None:
                    obj, field, newexpr = lo
                    return self.set_field(obj, field, newexpr, env, ctx, s, nxt)
                hk = self.hook_call(v, env, ctx)
                if hk is not None:
                    ctx.events = True
                    return f"let evs := evs ++ [{hk}] in\n" + nxt(env)
                if self.is_effectful_call(v, env, ctx):
                    return self.eff_call(v, env, ctx, lambda val, e: nxt(e))
            raise self.err(F, s, "expression statement of an unrecognised shape")
        if isinstance(s, (ast.Assign, ast.AnnAssign, ast.AugAssign)):
            if isinstance(s, ast.Assign):
                if len(s.targets) != 1:
                    raise self.err(F, s, "multiple assignment targets")
                tgt, value = s.targets[0], s.value
            elif isinstance(s, ast.AnnAssign):
                if s.value is None:
                    raise self.err(F, s, "annotation without a value")
                tgt, value = s.target, s.value
            else:
                tgt = s.target
                load = ast.copy_location(ast.Name(tgt.id, ast.Load()), tgt) if isinstance(tgt, ast.Name) else \
                    ast.copy_location(ast.Attribute(tgt.value, tgt.attr, ast.Load()), tgt) if isinstance(tgt, ast.Attribute) else None
                if load is None:
                    raise self.err(F, s, "augmented assignment to an unrecognised target")
                value = ast.copy_location(ast.BinOp(load, s.op, s.value), s)
            if isinstance(tgt, ast.Name):
                fresh_obj = isinstance(value, ast.Call) and isinstance(value.func, ast.Name) and (
                    value.func.id in RECORDS or (value.func.id in env.vars and env.vars[value.func.id].ty[0] == "class"))

                def bind(v, e):
                    if v.ty[0] == "obj" and not fresh_obj:
                        raise self.err(F, s, "a second name for an existing object (aliasing is not represented)")
                    return self.bind_local(tgt.id, v, e, ctx, s, nxt)
                return self.et(value, env, ctx, bind)
            if isinstance(tgt, ast.Attribute) and isinstance(tgt.value, ast.Name):
                return self.et(value, env, ctx, lambda v, e: self.assign_attr(tgt, v, e, ctx, s, nxt))
            raise self.err(F, s, "assignment target of an unrecognised shape")
        if isinstance(s, ast.For):
            return self.loop(s, rest, env, ctx, kend)
        raise self.err(F, s, "statement of an unrecognised kind")

    def bind_local(self, name, v, env, ctx, node, nxt):
        if v.keyerr or v.ty == NONE or v.ty[0] in ("class",):
            raise self.err(ctx.file, node, "value that cannot be bound to a local variable")
        if name in ("self", "cls") or (name in env.vars and env.vars[name].ty[0] == "obj" and name not in env.locals_obj):
            raise self.err(ctx.file, node, f"re-binding of {name}")
        e = env.copy()
        e.vars[name] = Val("v_" + name, v.ty)
        e.known = {k: x for k, x in e.known.items() if k[0] != "v_" + name}
        if v.ty[0] == "obj":
            e.locals_obj.add(name)
        return f"let v_{name} := {v.e} in\n" + nxt(e)

    def fields(self, cls):
        return RECORDS[cls][2]

    def set_field(self, obj, field, newexpr, env, ctx, node, nxt):
        """obj.field := newexpr  (record update by rebuilding the record; the Gallina name is shadowed)"""
        ov = env.vars[obj]
        cls = ov.ty[1]
        if env.partial is not None and obj == "self":
            e = env.copy()
            fname = "f_" + field.lstrip("_")
            e.partial[field] = fname
            out = f"let {fname} := {newexpr} in\n"
            if all(f in e.partial for f, _, _ in self.fields(cls)):
                args = " ".join(e.partial[f] for f, _, _ in self.fields(cls))
                out += f"let v_self := {RECORDS[cls][1]} {args} in\n"
                e.partial = None
            return out + nxt(e)
        if obj not in env.locals_obj:
            ctx.mutated.add(obj)
        args = " ".join(par(newexpr) if f == field else f"({proj} {ov.e})" for f, proj, _ in self.fields(cls))
        return f"let {ov.e} := {RECORDS[cls][1]} {args} in\n" + nxt(env)

    def assign_attr(self, tgt, v, env, ctx, node, nxt):
        obj, attr = tgt.value.id, tgt.attr
        ov = env.vars.get(obj)
        if ov is None or ov.ty[0] != "obj":
            raise self.err(ctx.file, node, f"assignment to an attribute of {obj}, which is not a known object")
        cls = ov.ty[1]
        if (cls, attr, "setter") in self.methods:
            if env.partial is not None and obj == "self":
                raise self.err(ctx.file, node, "property setter used before every field of self is assigned")
            sg = self.sig(cls, attr, "setter", node, ctx.file)
            return self.emit_call(sg, obj, [self.coerce(v, sg.params[0][1], ctx, node)], [None], env, ctx, node,
                                  lambda val, e: nxt(e))
        for f, proj, ty in self.fields(cls):
            if f == attr:
                return self.set_field(obj, attr, self.coerce(v, ty, ctx, node).e, env, ctx, node, nxt)
        raise self.err(ctx.file, node, f"{cls} has no field or property setter {attr}")

    def field_of(self, node, env, ctx):
        """node = <object variable>.<list field>  ->  (obj, field, Val) or None"""
        if isinstance(node, ast.Attribute) and isinstance(node.value, ast.Name):
            ov = env.vars.get(node.value.id)
            if ov is not None and ov.ty[0] == "obj" and (ov.ty[1], node.attr, "getter") not in self.methods:
                for f, proj, ty in self.fields(ov.ty[1]):
                    if f == node.attr:
                        return node.value.id, f, self.pe(node, env, ctx)
        return None

    def list_op(self, call, env, ctx):
        """X.append(e) / X.clear() / X.add(e) with X a list/set field of an object variable"""
        fn = call.func
        if not (isinstance(fn, ast.Attribute) and fn.attr in ("append", "clear", "add") and not call.keywords):
            return None
        fo = self.field_of(fn.value, env, ctx)
        if fo is None:
            return None
        obj, field, cur = fo
        if fn.attr == "clear" and not call.args and cur.ty[0] == "list":
            return obj, field, "[]"
        if fn.attr == "append" and len(call.args) == 1 and cur.ty[0] == "list":
            a = self.coerce(self.pe(call.args[0], env, ctx), cur.ty[1], ctx, call)
            return obj, field, f"{cur.e} ++ [{a.e}]"
        if fn.attr == "add" and len(call.args) == 1 and cur.ty == SET(STR):
            a = self.coerce(self.pe(call.args[0], env, ctx), STR, ctx, call)
            return obj, field, f"if PyStr.str_in {par(a.e)} {par(cur.e)} then {cur.e} else {cur.e} ++ [{a.e}]"
        raise self.err(ctx.file, call, f"list operation {fn.attr} of an unrecognised shape")

    def hook_call(self, call, env, ctx):
        fn = call.func
        if isinstance(fn, ast.Attribute) and isinstance(fn.value, ast.Name) and fn.value.id == "self" \
                and "self" in env.vars and (env.vars["self"].ty[1], fn.attr) in EVENT_HOOKS:
            if call.args or call.keywords:
                raise self.err(ctx.file, call, "event hook called with arguments")
            return EVENT_HOOKS[(env.vars["self"].ty[1], fn.attr)]
        return None

    # -- the two loop idioms ------------------------------------------------------------------------
    def loop(self, s, rest, env, ctx, kend):
        F = ctx.file
        if s.orelse or not isinstance(s.target, ast.Name) or len(s.body) != 1 or not isinstance(s.body[0], ast.If) \
                or s.body[0].orelse:
            raise self.err(F, s, "loop that is not one of the two recognised idioms (for x in L: if P(x): ...)")
        x = s.target.id
        L = self.pe(s.iter, env, ctx)
        if L.ty[0] != "list":
            raise self.err(F, s, "loop over something that is not a list")
        inner = env.copy()
        inner.vars[x] = Val("v_" + x, L.ty[1])
        inner.known = {k: v for k, v in inner.known.items() if k[0] != "v_" + x}
        test = self.pe(s.body[0].test, inner, ctx)
        if test.ty != BOOL:
            raise self.err(F, s.body[0], "loop test is not a boolean")
        pred = f"(fun v_{x} => {test.e})"
        body = list(s.body[0].body)

        def must_return(e):
            raise self.err(F, s, "the body of a first-match loop must end in return on every path")

        b0 = body[0]
        is_remove = (isinstance(b0, ast.Expr) and isinstance(b0.value, ast.Call) and isinstance(b0.value.func, ast.Attribute)
                     and b0.value.func.attr == "remove")
        if is_remove:
            c = b0.value
            fo = self.field_of(c.func.value, env, ctx)
            if not (fo and ast.dump(c.func.value) == ast.dump(s.iter) and len(c.args) == 1 and not c.keywords
                    and isinstance(c.args[0], ast.Name) and c.args[0].id == x):
                raise self.err(F, b0, "L.remove(x) that is not the remove-first idiom (same list, loop variable)")
            obj, field, _ = fo
            found = self.set_field(obj, field, "l_rest", env, ctx, b0,
                                   lambda e: self.xb(body[1:], e, ctx, must_return))
            notfound = self.xb(rest, env, ctx, kend)
            return (f"match remove_first_by {pred} {par(L.e)} with\n| Some l_rest =>\n{ind(found)}\n"
                    f"| None =>\n{ind(notfound)}\nend")
        # first-match: for x in L: if P(x): <... return>
        if len(body) == 1 and isinstance(body[0], ast.Return) and isinstance(body[0].value, ast.Name) \
                and body[0].value.id == x and len(rest) == 1 and isinstance(rest[0], ast.Return) \
                and (rest[0].value is None or (isinstance(rest[0].value, ast.Constant) and rest[0].value.value is None)):
            return self.finish(ctx, env, Val(f"List.find {pred} {par(L.e)}", OPT(L.ty[1])), s)
        found = self.xb(body, inner, ctx, must_return)
        notfound = self.xb(rest, env, ctx, kend)
        return (f"match List.find {pred} {par(L.e)} with\n| Some v_{x} =>\n{ind(found)}\n| None =>\n{ind(notfound)}\nend")

    # -- conditions -----------------------------------------------------------------------------------
    def cond(self, test, env, ctx, kt, kf, flip):
        if isinstance(test, ast.BoolOp):
            first = test.values[0]
            others = test.values[1:]
            restop = others[0] if len(others) == 1 else ast.copy_location(ast.BoolOp(test.op, others), test)
            if isinstance(test.op, ast.And):
                return self.cond(first, env, ctx, lambda e: self.cond(restop, e, ctx, kt, kf, flip), kf, flip)
            return self.cond(first, env, ctx, kt, lambda e: self.cond(restop, e, ctx, kt, kf, flip), flip)
        if isinstance(test, ast.UnaryOp) and isinstance(test.op, ast.Not):
            return self.cond(test.operand, env, ctx, kf, kt, not flip)
        F = ctx.file
        # "k" in d / "k" not in d  on an item dict: refine the environment in the branch where the key is present
        if isinstance(test, ast.Compare) and len(test.ops) == 1 and isinstance(test.ops[0], (ast.In, ast.NotIn)) \
                and isinstance(test.left, ast.Constant) and isinstance(test.left.value, str) \
                and isinstance(test.comparators[0], ast.Name):
            d = self.pe(test.comparators[0], env, ctx)
            if d.ty == ITEM:
                key = test.left.value
                if key not in ITEM_KEYS:
                    raise self.err(F, test, f"unknown item key {key!r}")
                proj, kty = ITEM_KEYS[key]
                kv = ctx.fresh("k_" + key)
                present = env.copy()
                present.known[(d.e, key)] = Val(kv, kty)
                is_in = isinstance(test.ops[0], ast.In)
                some = f"| Some {kv} =>\n" + ind((kt if is_in else kf)(present))
                none = "| None =>\n" + ind((kf if is_in else kt)(env))
                first_some = is_in != flip
                return f"match {proj} {d.e} with\n" + (some + "\n" + none if first_some else none + "\n" + some) + "\nend"

        def leaf(v, e):
            if v.keyerr:
                raise self.err(F, test, "d[k] used as a condition")
            if v.ty == BOOL:
                if flip:
                    return f"if negb {par(v.e)}\nthen\n{ind(kf(e))}\nelse\n{ind(kt(e))}"
                return f"if {v.e}\nthen\n{ind(kt(e))}\nelse\n{ind(kf(e))}"
            if v.ty[0] == "opt":
                some_env = e
                nm = ctx.fresh("o")
                if isinstance(test, ast.Name):
                    nm = "v_" + test.id + "_some"
                    some_env = e.copy()
                    some_env.vars[test.id] = Val(nm, v.ty[1])
                    some_env.known = {k: x for k, x in some_env.known.items() if k[0] != nm}
                some = f"| Some {nm} =>\n" + ind(kt(some_env))
                none = "| None =>\n" + ind(kf(e))
                return f"match {v.e} with\n" + (none + "\n" + some if flip else some + "\n" + none) + "\nend"
            if v.ty[0] in ("list", "set"):
                cons = "| _ :: _ =>\n" + ind(kt(e))
                nil = "| [] =>\n" + ind(kf(e))
                return f"match {v.e} with\n" + (nil + "\n" + cons if flip else cons + "\n" + nil) + "\nend"
            raise self.err(F, test, f"condition of type {v.ty}")

        return self.et(test, env, ctx, leaf)

    # -- expressions that may be one effectful call -----------------------------------------------------
    def is_effectful_call(self, e, env, ctx):
        if isinstance(e, ast.Call) and isinstance(e.func, ast.Attribute) and isinstance(e.func.value, ast.Name):
            ov = env.vars.get(e.func.value.id)
            if ov is not None and ov.ty[0] == "obj" and (ov.ty[1], e.func.attr, "method") in self.methods:
                return not self.sig(ov.ty[1], e.func.attr, "method", e, ctx.file).pure()
        return False

    def et(self, e, env, ctx, k):
        if self.is_effectful_call(e, env, ctx):
            return self.eff_call(e, env, ctx, k)
        return k(self.pe(e, env, ctx), env)

    def bind_args(self, call, sg, env, ctx):
        """-> ([Val] coerced to the parameter types, [ast node or None])"""
        got = {}
        if len(call.args) > len(sg.params):
            raise self.err(ctx.file, call, "too many arguments")
        for (p, _, _), a in zip(sg.params, call.args):
            if isinstance(a, ast.Starred):
                raise self.err(ctx.file, call, "starred argument")
            got[p] = a
        for kw in call.keywords:
            if kw.arg is None or kw.arg in got or kw.arg not in [p for p, _, _ in sg.params]:
                raise self.err(ctx.file, call, f"keyword argument {kw.arg} does not bind a parameter")
            got[kw.arg] = kw.value
        vals, nodes = [], []
        for p, t, d in sg.params:
            a = got.get(p, d)
            if a is None:
                raise self.err(ctx.file, call, f"no argument for parameter {p}")
            if p not in got:
                v = self.pe(a, Env(), ctx)          # a default: a constant
                if v.ty == NONE and t[0] == "set":
                    v = Val("(@nil string)", t)
            else:
                v = self.pe(a, env, ctx)
            vals.append(self.coerce(v, t, ctx, call))
            nodes.append(a if p in got else None)
        return vals, nodes

    def eff_call(self, call, env, ctx, k):
        recv = call.func.value.id
        sg = self.sig(env.vars[recv].ty[1], call.func.attr, "method", call, ctx.file)
        vals, nodes = self.bind_args(call, sg, env, ctx)
        return self.emit_call(sg, recv, vals, nodes, env, ctx, call, k)

    def emit_call(self, sg, recv, vals, nodes, env, ctx, at, k):
        """A call of a generated function, its results threaded back into the caller's variables."""
        ov = env.vars[recv]
        if env.partial is not None and recv == "self":
            raise self.err(ctx.file, at, "method of self called before every field is assigned")
        callexpr = f"Gen.{sg.coq} {ov.e} " + " ".join(par(v.e) for v in vals)
        if sg.pure():
            return k(Val(callexpr.strip(), sg.ret_ty if sg.ret_ty else NONE), env)
        pat = []
        for m in sg.mutates:
            if m == "self":
                name = recv
            else:
                i = [p for p, _, _ in sg.params].index(m)
                a = nodes[i]
                if not (isinstance(a, ast.Name) and a.id in env.vars and env.vars[a.id].ty[0] == "obj"):
                    raise self.err(ctx.file, at, f"the callee mutates its parameter {m}; the argument must be an object variable")
                name = a.id
            if name not in env.locals_obj:
                ctx.mutated.add(name)
            if env.vars[name].e in pat:
                raise self.err(ctx.file, at, "the same object is passed twice to a call that mutates it")
            pat.append(env.vars[name].e)
        ev = None
        if sg.events:
            ctx.events = True
            ev = ctx.fresh("ev")
            pat.append(ev)
        rn = None
        has_r = sg.raises or sg.ret_ty is not None
        if has_r:
            rn = ctx.fresh("r") if sg.ret_ty is not None else "_"
        tail = ("let evs := evs ++ " + ev + " in\n" if ev else "")
        res = Val(rn, sg.ret_ty) if sg.ret_ty is not None else Val("tt", NONE)
        if not sg.raises:
            if has_r:
                pat.append(rn)
            lhs = pat[0] if len(pat) == 1 else "'(" + ", ".join(pat) + ")"
            return f"let {lhs} := {callexpr.strip()} in\n" + tail + k(res, env)
        ctx.raises = True
        okp = pat + ["Game.Ret " + rn]
        bad = pat + ["Game.RaiseValueError"]

        def tup(xs):
            return xs[0] if len(xs) == 1 else "(" + ", ".join(xs) + ")"

        return (f"match {callexpr.strip()} with\n| {tup(okp)} =>\n{ind(tail + k(res, env))}\n"
                f"| {tup(bad)} =>\n{ind(tail + self.finish_raise(ctx, env, at))}\nend")

    # ---------------------------------------------------------------------------------------------
    # pure expressions
    def coerce(self, v: Val, ty, ctx, node) -> Val:
        if v.keyerr:
            raise self.err(ctx.file, node, "d[k] on a key that is not known to be present (no dominating `k in d`)")
        if v.ty == ty:
            return v
        if v.ty == INT and ty == Q:
            return Val("4 * " + par(v.e), Q)
        if {v.ty[0], ty[0]} == {"list", "set"} and v.ty[1] == ty[1]:
            return Val(v.e, ty)
        if v.ty in (("emptylist",), ("emptyset",)) and ty[0] == ("list" if v.ty[0] == "emptylist" else "set"):
            return Val("@nil " + par(coq_ty(ty[1])), ty)
        if v.ty == NONE and ty[0] == "opt":
            return Val("None", ty)
        if ty[0] == "opt" and v.ty == ty[1]:
            return Val("Some " + par(v.e), ty)
        raise self.err(ctx.file, node, f"a value of type {v.ty} where {ty} is expected")

    def num2(self, a: Val, b: Val, ctx, node):
        for v in (a, b):
            if v.keyerr or v.ty not in (INT, Q):
                raise self.err(ctx.file, node, f"arithmetic on a value of type {v.ty}")
        if a.ty == b.ty:
            return a, b, a.ty
        return self.coerce(a, Q, ctx, node), self.coerce(b, Q, ctx, node), Q

    CMP = {ast.Lt: "<?", ast.LtE: "<=?", ast.Gt: ">?", ast.GtE: ">=?"}

    def compare1(self, a: Val, op, b: Val, ctx, node) -> str:
        F = ctx.file
        if isinstance(op, (ast.Eq, ast.NotEq)):
            neg = isinstance(op, ast.NotEq)

            def wrap(s):
                return f"negb ({s})" if neg else s
            if a.ty in (INT, Q) and b.ty in (INT, Q) and not a.keyerr and not b.keyerr:
                x, y, _ = self.num2(a, b, ctx, node)
                return wrap(f"{par(x.e)} =? {par(y.e)}")
            if a.ty == STR and b.ty == STR and not a.keyerr and not b.keyerr:
                return wrap(f"String.eqb {par(a.e)} {par(b.e)}")
            if a.ty == OPT(STR) and b.ty == STR:
                return wrap(f"match {a.e} with Some m => String.eqb m {par(b.e)} | None => false end")
            if b.ty == OPT(STR) and a.ty == STR:
                return wrap(f"match {b.e} with Some m => String.eqb {par(a.e)} m | None => false end")
            if a.ty[0] == "opt" and a.ty[1] in (INT, Q) and b.ty in (INT, Q):
                if a.ty[1] != b.ty:
                    raise self.err(F, node, "comparison of an optional number with a number of another unit")
                return wrap(f"match {a.e} with Some m => m =? {par(b.e)} | None => false end")
            raise self.err(F, node, f"== / != between {a.ty} and {b.ty}")
        if isinstance(op, (ast.In, ast.NotIn)):
            if a.ty == STR and b.ty == SET(STR) and not a.keyerr:
                s = f"PyStr.str_in {par(a.e)} {par(b.e)}"
                return f"negb ({s})" if isinstance(op, ast.NotIn) else s
            raise self.err(F, node, f"`in` between {a.ty} and {b.ty}")
        if type(op) in self.CMP:
            x, y, _ = self.num2(a, b, ctx, node)
            return f"{par(x.e)} {self.CMP[type(op)]} {par(y.e)}"
        raise self.err(F, node, "comparison operator of an unrecognised kind")

    def pe(self, e, env, ctx) -> Val:
        F = ctx.file
        if isinstance(e, ast.Constant):
            c = e.value
            if c is None:
                return Val("None", NONE)
            if isinstance(c, bool):
                return Val("true" if c else "false", BOOL)
            if isinstance(c, int):
                return Val(str(c) if c >= 0 else f"({c})", INT)
            if isinstance(c, float):
                q = c * 4
                if q != int(q) or abs(q) > 10 ** 12:
                    raise self.err(F, e, f"float constant {c!r} is not a multiple of 0.25")
                return Val(f"{int(q)} (* = 4 * {c!r} *)" if int(q) >= 0 else f"({int(q)}) (* = 4 * {c!r} *)", Q)
            if isinstance(c, str):
                try:
                    return Val(coq_string(c), STR)
                except ValueError as ex:
                    raise self.err(F, e, str(ex))
            raise self.err(F, e, "constant of an unrecognised kind")
        if isinstance(e, ast.Name):
            v = env.vars.get(e.id)
            if v is None:
                raise self.err(F, e, f"unknown name {e.id}")
            if v.ty[0] == "class":
                raise self.err(F, e, "the class object used as a value")
            if v.ty[0] == "obj" and env.partial is not None and e.id == "self":
                raise self.err(F, e, "self used as a value before every field is assigned")
            return v
        if isinstance(e, ast.UnaryOp):
            if isinstance(e.op, ast.USub):
                if isinstance(e.operand, ast.Constant) and isinstance(e.operand.value, (int, float)) \
                        and not isinstance(e.operand.value, bool):
                    return self.pe(ast.copy_location(ast.Constant(-e.operand.value), e), env, ctx)
                v = self.pe(e.operand, env, ctx)
                if v.ty in (INT, Q) and not v.keyerr:
                    return Val("- " + par(v.e), v.ty)
            if isinstance(e.op, ast.Not):
                v = self.pe(e.operand, env, ctx)
                if v.ty == BOOL:
                    return Val("negb " + par(v.e), BOOL)
            raise self.err(F, e, "unary operation of an unrecognised shape")
        if isinstance(e, ast.BinOp):
            a, b = self.pe(e.left, env, ctx), self.pe(e.right, env, ctx)
            if isinstance(e.op, (ast.Add, ast.Sub)):
                x, y, t = self.num2(a, b, ctx, e)
                return Val(f"{par(x.e)} {'+' if isinstance(e.op, ast.Add) else '-'} {par(y.e)}", t)
            if isinstance(e.op, ast.Mult):
                for v in (a, b):
                    if v.keyerr or v.ty not in (INT, Q):
                        raise self.err(F, e, f"arithmetic on a value of type {v.ty}")
                if a.ty == Q and b.ty == Q:
                    raise self.err(F, e, "product of two quarter-unit rationals is not representable")
                return Val(f"{par(a.e)} * {par(b.e)}", Q if Q in (a.ty, b.ty) else INT)
            raise self.err(F, e, "binary operator of an unrecognised kind")
        if isinstance(e, ast.Compare):
            operands = [self.pe(x, env, ctx) for x in [e.left] + list(e.comparators)]
            parts = [self.compare1(operands[i], op, operands[i + 1], ctx, e) for i, op in enumerate(e.ops)]
            return Val(parts[0] if len(parts) == 1 else " && ".join(f"({p})" for p in parts), BOOL)
        if isinstance(e, ast.BoolOp):
            vs = [self.pe(x, env, ctx) for x in e.values]
            if any(v.ty != BOOL for v in vs):
                raise self.err(F, e, "and/or on non-boolean operands outside a condition")
            return Val((" && " if isinstance(e.op, ast.And) else " || ").join(par(v.e) for v in vs), BOOL)
        if isinstance(e, ast.IfExp):
            a, b = self.pe(e.body, env, ctx), self.pe(e.orelse, env, ctx)
            if b.ty == ("emptyset",) and a.ty[0] == "set":
                b = Val("(@nil " + par(coq_ty(a.ty[1])) + ")", a.ty)
            if a.ty != b.ty or a.keyerr or b.keyerr:
                raise self.err(F, e, f"conditional expression with branches of types {a.ty} / {b.ty}")
            t = self.pe(e.test, env, ctx)
            if t.ty == BOOL:
                return Val(f"if {t.e} then {a.e} else {b.e}", a.ty)
            if t.ty[0] in ("list", "set"):
                return Val(f"match {t.e} with _ :: _ => {a.e} | [] => {b.e} end", a.ty)
            raise self.err(F, e, f"conditional expression on a test of type {t.ty}")
        if isinstance(e, ast.Attribute):
            if not isinstance(e.value, ast.Name):
                raise self.err(F, e, "attribute of something that is not a variable")
            ov = env.vars.get(e.value.id)
            if ov is None or ov.ty[0] != "obj":
                raise self.err(F, e, f"attribute of {e.value.id}, which is not a known object")
            cls = ov.ty[1]
            partial = env.partial is not None and e.value.id == "self"
            if (cls, e.attr, "getter") in self.methods:
                if partial:
                    raise self.err(F, e, "property read before every field of self is assigned")
                sg = self.sig(cls, e.attr, "getter", e, F)
                if not sg.pure() or sg.ret_ty is None:
                    raise self.err(F, e, "property getter with effects or without a value")
                return Val(f"Gen.{sg.coq} {ov.e}", sg.ret_ty)
            for f, proj, ty in self.fields(cls):
                if f == e.attr:
                    if partial:
                        if f not in env.partial:
                            raise self.err(F, e, f"field {f} read before it is assigned")
                        return Val(env.partial[f], ty)
                    return Val(f"{proj} {ov.e}", ty)
            raise self.err(F, e, f"{cls} has no field or property {e.attr}")
        if isinstance(e, ast.Subscript):
            if not (isinstance(e.slice, ast.Constant) and isinstance(e.slice.value, str) and isinstance(e.value, ast.Name)):
                raise self.err(F, e, "subscript of an unrecognised shape")
            key = e.slice.value
            if (e.value.id, key) in env.payload:
                return env.payload[(e.value.id, key)]
            d = self.pe(e.value, env, ctx)
            if d.ty == ITEM:
                if key not in ITEM_KEYS:
                    raise self.err(F, e, f"unknown item key {key!r}")
                if (d.e, key) in env.known:
                    return env.known[(d.e, key)]
                proj, kty = ITEM_KEYS[key]
                return Val(f"{proj} {d.e}", OPT(kty), keyerr=True)
            raise self.err(F, e, f"subscript {key!r} of a value of type {d.ty}")
        if isinstance(e, ast.Dict):
            keys = []
            for kx in e.keys:
                if not (isinstance(kx, ast.Constant) and isinstance(kx.value, str)):
                    raise self.err(F, e, "dict literal with a non-constant key")
                keys.append(kx.value)
            cls = ctx.sg.cls
            schema = PAYLOADS[cls]
            if sorted(keys) != sorted(k for k, _ in schema) or len(set(keys)) != len(keys):
                raise self.err(F, e, f"dict literal with keys {keys}; the payload of {cls} has {[k for k, _ in schema]}")
            comps = []
            for k, t in schema:
                v = self.coerce(self.pe(e.values[keys.index(k)], env, ctx), t, ctx, e)
                comps.append(v.e)
            return Val(comps[0] if len(comps) == 1 else "(" + ", ".join(comps) + ")", PAYLOAD(cls))
        if isinstance(e, ast.List) and not e.elts:
            return Val("[]", ("emptylist",))
        if isinstance(e, ast.ListComp):
            L, x, conds, inner = self.generator(e, env, ctx)
            if not (isinstance(e.elt, ast.Name) and e.elt.id == x):
                raise self.err(F, e, "list comprehension whose element is not the loop variable")
            if not conds:
                return L
            return Val(f"filter (fun v_{x} => {conds}) {par(L.e)}", L.ty)
        if isinstance(e, ast.Call):
            return self.pcall(e, env, ctx)
        raise self.err(F, e, "expression of an unrecognised kind")

    def generator(self, e, env, ctx):
        """one `for x in L [if c]*` clause -> (L, x, conjunction text or None, inner env)"""
        F = ctx.file
        if len(e.generators) != 1:
            raise self.err(F, e, "comprehension with several for clauses")
        g = e.generators[0]
        if g.is_async or not isinstance(g.target, ast.Name):
            raise self.err(F, e, "comprehension of an unrecognised shape")
        L = self.pe(g.iter, env, ctx)
        if L.ty[0] != "list":
            raise self.err(F, e, "comprehension over something that is not a list")
        x = g.target.id
        inner = env.copy()
        inner.vars[x] = Val("v_" + x, L.ty[1])
        inner.known = {k: v for k, v in inner.known.items() if k[0] != "v_" + x}
        cs = []
        for c in g.ifs:
            v = self.pe(c, inner, ctx)
            if v.ty != BOOL:
                raise self.err(F, c, "comprehension filter is not a boolean")
            cs.append(v.e)
        conds = None if not cs else cs[0] if len(cs) == 1 else " && ".join(f"({c})" for c in cs)
        return L, x, conds, inner

    def pcall(self, e, env, ctx) -> Val:
        F = ctx.file
        fn = e.func
        if isinstance(fn, ast.Name):
            name = fn.id
            if name in env.vars and env.vars[name].ty[0] == "class" or name in RECORDS:
                cls = env.vars[name].ty[1] if name in env.vars else name
                sg = self.sig(cls, "__init__", "init", e, F)
                vals, _ = self.bind_args(e, sg, env, ctx)
                return Val(f"Gen.{sg.coq} " + " ".join(par(v.e) for v in vals), OBJ(cls))
            if e.keywords:
                raise self.err(F, e, f"{name}() with keyword arguments")
            if name in ("max", "min") and len(e.args) == 2:
                a, b, t = self.num2(self.pe(e.args[0], env, ctx), self.pe(e.args[1], env, ctx), ctx, e)
                return Val(f"Z.{name} {par(a.e)} {par(b.e)}", t)
            if name == "int" and len(e.args) == 1:
                v = self.pe(e.args[0], env, ctx)
                if v.keyerr:
                    raise self.err(F, e, "int() of d[k] on a key not known to be present")
                if v.ty == Q:
                    return Val(f"Z.quot {par(v.e)} 4", INT)
                if v.ty == INT:
                    return v
                raise self.err(F, e, f"int() of a value of type {v.ty}")
            if name == "len" and len(e.args) == 1:
                v = self.pe(e.args[0], env, ctx)
                if v.ty[0] in ("list", "set"):
                    return Val(f"Z.of_nat (List.length {par(v.e)})", INT)
                raise self.err(F, e, f"len() of a value of type {v.ty}")
            if name in ("sum", "any") and len(e.args) == 1 and isinstance(e.args[0], ast.GeneratorExp):
                g = e.args[0]
                L, x, conds, inner = self.generator(g, env, ctx)
                src = L.e if not conds else f"filter (fun v_{x} => {conds}) {par(L.e)}"
                elt = self.pe(g.elt, inner, ctx)
                if elt.keyerr:
                    raise self.err(F, e, "d[k] on a key not known to be present")
                if name == "any":
                    if elt.ty != BOOL:
                        raise self.err(F, e, "any() over non-booleans")
                    return Val(f"existsb (fun v_{x} => {elt.e}) {par(src)}", BOOL)
                if elt.ty not in (INT, Q):
                    raise self.err(F, e, f"sum() over values of type {elt.ty}")
                return Val(f"fold_right (fun v_{x} acc => {par(elt.e)} + acc) 0 {par(src)}", elt.ty)
            if name in ("list", "set") and len(e.args) == 1:
                v = self.pe(e.args[0], env, ctx)
                if v.ty[0] in ("list", "set"):
                    return Val(v.e, (name, v.ty[1]))
                raise self.err(F, e, f"{name}() of a value of type {v.ty}")
            if name == "set" and not e.args:
                return Val("[]", ("emptyset",))
            raise self.err(F, e, f"call of {name} of an unrecognised shape")
        if isinstance(fn, ast.Attribute):
            # methods of item dicts
            if fn.attr in ("get", "copy") and not e.keywords:
                d = self.pe(fn.value, env, ctx)
                if d.ty == ITEM:
                    if fn.attr == "copy" and not e.args:
                        return d
                    if fn.attr == "get" and len(e.args) in (1, 2) and isinstance(e.args[0], ast.Constant) \
                            and e.args[0].value in ITEM_KEYS:
                        key = e.args[0].value
                        proj, kty = ITEM_KEYS[key]
                        if (d.e, key) in env.known:
                            return env.known[(d.e, key)] if len(e.args) == 2 else \
                                Val("Some " + par(env.known[(d.e, key)].e), OPT(kty))
                        if len(e.args) == 1:
                            return Val(f"{proj} {d.e}", OPT(kty))
                        dv = self.coerce(self.pe(e.args[1], env, ctx), kty, ctx, e)
                        return Val(f"match {proj} {d.e} with Some x => x | None => {dv.e} end", kty)
                    raise self.err(F, e, "item-dict method call of an unrecognised shape")
            # pure methods of objects
            if isinstance(fn.value, ast.Name):
                ov = env.vars.get(fn.value.id)
                if ov is not None and ov.ty[0] == "obj":
                    if (ov.ty[1], fn.attr) in EVENT_HOOKS:
                        raise self.err(F, e, "event hook called inside an expression")
                    sg = self.sig(ov.ty[1], fn.attr, "method", e, F)
                    if not sg.pure():
                        raise self.err(F, e, f"call of {sg.cls}.{sg.name}, which has effects, nested inside an expression")
                    if sg.ret_ty is None:
                        raise self.err(F, e, f"call of {sg.cls}.{sg.name}, which returns nothing, used as a value")
                    if env.partial is not None and fn.value.id == "self":
                        raise self.err(F, e, "method of self called before every field is assigned")
                    vals, _ = self.bind_args(e, sg, env, ctx)
                    return Val((f"Gen.{sg.coq} {ov.e} " + " ".join(par(v.e) for v in vals)).strip(), sg.ret_ty)
                if ov is not None and ov.ty[0] == "class" and (ov.ty[1], fn.attr, "classmethod") in self.methods:
                    raise self.err(F, e, "call of another classmethod")
        raise self.err(F, e, "call of an unrecognised shape")

    # ---------------------------------------------------------------------------------------------
    def translate_all(self):
        for key in METHODS:
            self.sig(*key)
        out = [f"(* GENERATED by harness/c20_translate.py from {self.dir} -- do not edit.\n"
               f"   {len(self.order)} functions, one per method of bardic/stdlib/{{economy,inventory,relationship}}.py. *)",
               PREAMBLE, "Module Gen.", ""]
        for key in self.order:
            out.append(self.sigs[key].text)
        out.append("End Gen.")
        return "\n".join(out) + "\n", [self.sigs[k].coq for k in self.order]


def translate(stdlib_dir: str):
    """-> (text of GameGen.v, names of the generated functions in definition order)"""
    return Translator(stdlib_dir).translate_all()


if __name__ == "__main__":
    import sys
    d = sys.argv[1] if len(sys.argv) > 1 else os.path.join(os.environ.get("BARDIC_REPO", "/repo"), "bardic", "stdlib")
    try:
        text, names = translate(d)
    except TranslationError as ex:
        print("TranslationError:", ex, file=sys.stderr)
        sys.exit(2)
    sys.stdout.write(text)
