"""Shared machinery for the bardic verification checks.

Every check (harness/cNN.py) does the same five things through this module:
  1. build the Coq development (full .vo build, under a lock) and re-check Props/Cnn.v,
     collecting the Print Assumptions output under every theorem;
  2. run generated cases against the real implementation in /repo's working tree;
  3. evaluate the Gallina model on the same cases inside Coq (vm_compute, sharded);
  4. run the property's direct oracle on the implementation (failing-input search);
  5. decide, write evidence/Cnn.json and, on a violation, a replay file.
"""
from __future__ import annotations

import contextlib
import fcntl
import hashlib
import io
import json
import os
import random
import re
import shutil
import signal
import subprocess
import sys
import tempfile
import time
from concurrent.futures import ThreadPoolExecutor

VERIF = os.path.dirname(os.path.dirname(os.path.abspath(__file__)))
REPO = os.environ.get("BARDIC_REPO", "/repo")
COQ = os.path.join(VERIF, "coq")
EVIDENCE = os.path.join(VERIF, "evidence")
REPLAYS = os.path.join(EVIDENCE, "replays")
KNOWN = os.environ.get("BARDIC_KNOWN") or os.path.join(VERIF, "known_findings.json")  # env override: development only
GUARD = "BARDIC_VERIF"

STD_AXIOMS_ALLOWED: set[str] = set()  # the development is closed; nothing is expected here


def use_repo():
    """Make `import bardic` resolve to REPO's current working tree (fresh import)."""
    os.environ.setdefault(GUARD, "1")
    for k in [k for k in sys.modules if k == "bardic" or k.startswith("bardic.")]:
        del sys.modules[k]
    if REPO in sys.path:
        sys.path.remove(REPO)
    sys.path.insert(0, REPO)
    import bardic  # noqa

    got = os.path.realpath(os.path.dirname(os.path.dirname(bardic.__file__)))
    if got != os.path.realpath(REPO):
        raise RuntimeError(f"bardic imported from {got}, expected {REPO}")


@contextlib.contextmanager
def quiet():
    """The engine prints warnings to stdout; keep them out of the check's output."""
    buf = io.StringIO()
    with contextlib.redirect_stdout(buf), contextlib.redirect_stderr(buf):
        yield buf


class Timeout(Exception):
    pass


@contextlib.contextmanager
def alarm(seconds: int):
    def handler(signum, frame):
        raise Timeout()

    old = signal.signal(signal.SIGALRM, handler)
    signal.alarm(seconds)
    try:
        yield
    finally:
        signal.alarm(0)
        signal.signal(signal.SIGALRM, old)


# ----------------------------------------------------------------------------------------------
# Coq side
# ----------------------------------------------------------------------------------------------

def sh(cmd, timeout=None, cwd=None, env=None):
    p = subprocess.run(cmd, shell=isinstance(cmd, str), cwd=cwd, env=env, timeout=timeout,
                       stdout=subprocess.PIPE, stderr=subprocess.STDOUT, text=True)
    return p.returncode, p.stdout


def build_coq(timeout=3000):
    """Full make of /verif/coq under a lock (several checks may start at once)."""
    if os.environ.get("BARDIC_SKIP_BUILD") == "1":   # development only: files compiled by hand
        return True, "skipped"
    lock = open(os.path.join(COQ, ".build.lock"), "w")
    fcntl.flock(lock, fcntl.LOCK_EX)
    try:
        if not os.path.exists(os.path.join(COQ, "Makefile")) or \
           os.path.getmtime(os.path.join(COQ, "Makefile")) < os.path.getmtime(os.path.join(COQ, "_CoqProject")):
            rc, out = sh("coq_makefile -f _CoqProject -o Makefile", cwd=COQ, timeout=120)
            if rc != 0:
                return False, out
        rc, out = sh("make -j16", cwd=COQ, timeout=timeout)
        return rc == 0, out
    finally:
        fcntl.flock(lock, fcntl.LOCK_UN)
        lock.close()


FORBIDDEN = re.compile(
    r"\b(Admitted|admit|Axiom|Axioms|Parameter|Parameters|Conjecture|Conjectures|Admit Obligations|"
    r"Unset Guard Checking|Unset Positivity Checking|Unset Universe Checking|bypass_check|"
    r"type-in-type|impredicative-set)\b")


def strip_coq_comments(text: str) -> str:
    out, depth, i = [], 0, 0
    while i < len(text):
        if text.startswith("(*", i):
            depth += 1
            i += 2
        elif text.startswith("*)", i) and depth:
            depth -= 1
            i += 2
        else:
            if depth == 0:
                out.append(text[i])
            i += 1
    return "".join(out)


def integrity_scan():
    """No Admitted/admit/Axiom/Parameter/... anywhere; Variable/Hypothesis only inside sections."""
    bad = []
    # the development is exactly the files _CoqProject lists (make builds nothing else, so nothing else can be imported)
    listed = {l.strip() for l in open(os.path.join(COQ, "_CoqProject")) if l.strip().endswith(".v")}
    for root, _, files in os.walk(COQ):
        for f in files:
            if not f.endswith(".v"):
                continue
            p = os.path.join(root, f)
            if os.path.relpath(p, COQ) not in listed:
                continue
            text = strip_coq_comments(open(p).read())
            # string literals may mention these words; drop them
            text_ns = re.sub(r'"(?:[^"]|"")*"', '""', text)
            for m in FORBIDDEN.finditer(text_ns):
                bad.append(f"{os.path.relpath(p, COQ)}: {m.group(0)}")
            depth = 0
            for line in text_ns.split("\n"):
                s = line.strip()
                if re.match(r"Section\s+\w+", s):
                    depth += 1
                elif re.match(r"End\s+\w+", s) and depth:
                    depth -= 1
                elif depth == 0 and re.match(r"(Variable|Variables|Hypothesis|Hypotheses|Context)\b", s):
                    bad.append(f"{os.path.relpath(p, COQ)}: {s[:40]} outside a section")
    for f in ("_CoqProject",):
        t = open(os.path.join(COQ, f)).read()
        if "-type-in-type" in t or "impredicative" in t:
            bad.append(f"{f}: forbidden flag")
    return bad


def check_props(pid: str, scratch: str):
    """Re-compile Props/<pid>.v and read the Print Assumptions output under every theorem.

    Returns dict(obligations, discharged, theorems=[(name, assumptions)], ok, log)."""
    src = os.path.join(COQ, "Props", f"{pid}.v")
    text = strip_coq_comments(open(src).read())
    names = re.findall(r"^\s*(?:Theorem|Lemma|Corollary)\s+([A-Za-z0-9_']+)", text, re.M)
    printed = re.findall(r"Print Assumptions\s+([A-Za-z0-9_']+)\s*\.", text)
    os.makedirs(os.path.join(scratch, "props"), exist_ok=True)
    out_vo = os.path.join(scratch, "props", f"{pid}.vo")
    rc, out = sh(["coqc", "-Q", COQ, "Bardic", "-o", out_vo, src], timeout=1200)
    res = {"obligations": len(names), "discharged": 0, "theorems": [], "ok": False, "log": out[-4000:],
           "names": names}
    if rc != 0:
        return res
    # split the output into one block per Print Assumptions, in order
    blocks = re.split(r"(?=Closed under the global context|Axioms:)", out)
    blocks = [b for b in blocks if b.startswith("Closed under") or b.startswith("Axioms:")]
    ok = len(blocks) == len(printed) and set(printed) >= set(names)
    for name, b in zip(printed, blocks):
        if b.startswith("Closed under"):
            res["theorems"].append((name, []))
        else:
            axs = re.findall(r"^([A-Za-z0-9_.']+)\s*:", b, re.M)
            res["theorems"].append((name, axs))
            if not set(axs) <= STD_AXIOMS_ALLOWED:
                ok = False
    res["discharged"] = len([n for n in names if n in printed]) if ok else 0
    res["ok"] = ok
    return res


# ---- printing Python data as Coq terms ----

def coq_str(s: str) -> str:
    """A Coq term of type string for an ASCII python string."""
    parts, cur = [], []

    def flush():
        if cur:
            parts.append('"' + "".join(cur) + '"')
            cur.clear()

    for ch in s:
        o = ord(ch)
        if ch == '"':
            cur.append('""')
        elif 32 <= o < 127 or ch == "\n":
            cur.append(ch)
        else:
            flush()
            if o > 255:
                raise ValueError("non-latin1 character in model input")
            parts.append(f'(String (Ascii.ascii_of_nat {o}) "")')
    flush()
    if not parts:
        return '""'
    if len(parts) == 1:
        return parts[0]
    return "(" + " ++ ".join(parts) + ")%string"


class TooBig(ValueError):
    """An integer too large to be worth printing as a Coq literal (the case is outside the modelled domain)."""


def coq_Z(n: int) -> str:
    if isinstance(n, int) and abs(n) > 10 ** 60:
        from .pymini import Unsupported
        raise Unsupported("integer beyond 10^60")
    return f"({n})%Z"


def coq_nat(n: int) -> str:
    return f"{n}%nat"


def coq_bool(b: bool) -> str:
    return "true" if b else "false"


def coq_list(items) -> str:
    return "[" + "; ".join(items) + "]"


def coq_opt(x, f) -> str:
    return "None" if x is None else f"(Some {f(x)})"


def is_ascii(s: str) -> bool:
    return all(ord(c) < 128 for c in s)


def run_coq_cases(scratch: str, header: str, case_terms: list[str], case_type: str, mismatch_fn: str,
                  shard=300, show_fn: str | None = None, jobs=16, timeout=600):
    """Evaluate `mismatch_fn : <case_type> -> bool` on every case inside Coq.

    Returns (list of mismatching indices, dict index -> model's own output string, log)."""
    shards = [case_terms[i:i + shard] for i in range(0, len(case_terms), shard)]
    files = []
    for k, sh_cases in enumerate(shards):
        path = os.path.join(scratch, f"cases_{k}.v")
        with open(path, "w") as f:
            f.write(header + "\n")
            f.write("Import ListNotations.\nLocal Open Scope string_scope.\nLocal Open Scope list_scope.\n")
            f.write(f"Definition cases : list ({case_type}) :=\n[\n")
            f.write(";\n".join(sh_cases))
            f.write("\n].\n")
            f.write("Fixpoint bad_idx (i : nat) (l : list (" + case_type + ")) : list nat :=\n"
                    "  match l with [] => [] | c :: r => if " + mismatch_fn +
                    " c then i :: bad_idx (S i) r else bad_idx (S i) r end.\n")
            f.write("Set Printing Width 1000000.\nSet Printing Depth 1000000.\n")
            f.write("Eval vm_compute in (bad_idx 0 cases).\n")
        files.append(path)

    def one(path):
        return sh(f"ulimit -s unlimited 2>/dev/null; exec coqc -Q {COQ} Bardic {path}", timeout=timeout, cwd=scratch)

    bad, logs = [], []
    with ThreadPoolExecutor(max_workers=jobs) as ex:
        results = list(ex.map(one, files))
    for k, (rc, out) in enumerate(results):
        if rc != 0:
            logs.append(f"shard {k}: coqc failed\n{out[-3000:]}")
            bad.append(("coqc-failed", k))
            continue
        m = re.search(r"=\s*\[(.*?)\]\s*:\s*list nat", out, re.S)
        if not m:
            logs.append(f"shard {k}: unparsable output\n{out[-2000:]}")
            bad.append(("coqc-failed", k))
            continue
        for tok in re.findall(r"\d+", m.group(1)):
            bad.append(k * shard + int(tok))
    shown = {}
    idx = [b for b in bad if isinstance(b, int)]
    if show_fn and idx:
        path = os.path.join(scratch, "show.v")
        with open(path, "w") as f:
            f.write(header + "\nImport ListNotations.\nLocal Open Scope string_scope.\nLocal Open Scope list_scope.\n")
            f.write("Set Printing Width 1000000.\nSet Printing Depth 1000000.\n")
            for i in idx[:5]:
                f.write(f"Eval vm_compute in ({show_fn} ({case_terms[i]})).\n")
        rc, out = sh(f"ulimit -s unlimited 2>/dev/null; exec coqc -Q {COQ} Bardic {path}", timeout=timeout, cwd=scratch)
        chunks = re.split(r"^\s*=\s", out, flags=re.M)[1:]
        for i, c in zip(idx[:5], chunks):
            shown[i] = c.strip()[:4000]
    return bad, shown, "\n".join(logs)


# ----------------------------------------------------------------------------------------------
# known findings, replay, evidence, decision
# ----------------------------------------------------------------------------------------------

def load_known():
    if not os.path.exists(KNOWN):
        return {"findings": [], "fixed": []}
    return json.load(open(KNOWN))


class Check:
    """Accumulates what one run covered and decides."""

    LEVELS = ("exploration", "fault_enumeration", "model_checking", "proof", "translation_validation", "other")

    def __init__(self, pid: str, tier: str, seed: int, level: str):
        # the evidence schema only knows the plain level names; anything more specific goes into level_detail
        self.level_detail = level
        if level not in self.LEVELS:
            level = next((l for l in self.LEVELS if level.startswith(l)), "other")
        self.pid, self.tier, self.seed, self.level = pid, tier, seed, level
        self.t0 = time.time()
        self.scratch = tempfile.mkdtemp(prefix=f"bardic_verif_{pid}_")
        self.violations = []       # (signature, description, replay dict)
        self.known_hits = []       # (signature, description)
        self.cov = {"evaluations": 0, "distinct_nontrivial": 0, "rule": "", "samples": [],
                    "programs": 0, "disagreements_checked": 0}
        self.assumptions = []
        self.distinct = set()
        self.known = load_known()
        self.rng = random.Random(seed)
        self.notes = {}
        self.sig_counts = {}

    # -- known findings --
    def known_signatures(self):
        return {f["signature"]: f for f in self.known.get("findings", []) if f["property"] == self.pid}

    def report(self, signature: str, what: str, replay: dict):
        """An oracle failure on the implementation (a concrete failing input)."""
        ks = self.known_signatures()
        if signature in ks:
            if signature not in [s for s, _ in self.known_hits]:
                self.known_hits.append((signature, ks[signature].get("what", what)))
            return
        self.sig_counts[signature] = self.sig_counts.get(signature, 0) + 1
        if self.sig_counts[signature] <= 3:
            self.violations.append((signature, what, replay))

    def disagree(self, label: str, what: str, replay: dict):
        """Model and implementation differ on a case (no concrete property failure shown by this alone)."""
        sig = f"correspondence-{label}"
        self.sig_counts[sig] = self.sig_counts.get(sig, 0) + 1
        if self.sig_counts[sig] <= 3:
            replay = dict(replay)
            replay["no_failing_input_found"] = True
            replay.setdefault("obligation", f"correspondence:{label}")
            self.violations.append((sig, what, replay))

    def count(self, key, nontrivial: bool):
        self.cov["evaluations"] += 1
        if nontrivial:
            h = hashlib.sha1(repr(key).encode()).hexdigest()
            self.distinct.add(h)

    def sample(self, s):
        if len(self.cov["samples"]) < 5:
            self.cov["samples"].append(s)

    # -- finish --
    def finish(self, props: dict | None, trusted_base: list[str], checker_cmd: str):
        self.cov["distinct_nontrivial"] = len(self.distinct)
        if props is not None:
            self.cov["obligations"] = props["obligations"]
            self.cov["discharged"] = props["discharged"]
            self.cov["theorems"] = [{"name": n, "assumptions": a or "Closed under the global context"}
                                    for n, a in props["theorems"]]
        self.cov["checker_cmd"] = checker_cmd
        self.cov["trusted_base"] = trusted_base
        self.cov.update(self.notes)
        self.cov["level_detail"] = self.level_detail
        for sig, what in self.known_hits:
            print(f"KNOWN-FINDING: property={self.pid} {what}")
        rc = 0
        replay_path = None
        if self.violations:
            os.makedirs(REPLAYS, exist_ok=True)
            replay_path = os.path.join(REPLAYS, f"{self.pid}_{self.tier}_{self.seed}.json")
            with open(replay_path, "w") as f:
                json.dump({"property": self.pid, "seed": self.seed, "tier": self.tier,
                           "violations": [{"signature": s, "what": w, "replay": r}
                                          for s, w, r in self.violations[:200]]}, f, indent=1, default=repr)
            nf = all(r.get("no_failing_input_found") for _, _, r in self.violations)
            for s, w, _ in self.violations[:10]:
                print(f"  violation[{s}]: {w}")
            print(f"VIOLATION property={self.pid} replay={replay_path}" + (" no-failing-input-found" if nf else ""))
            rc = 1
        ev = {"property_id": self.pid, "tier": self.tier, "seed": self.seed, "level": self.level,
              "coverage": self.cov, "assumptions": self.assumptions,
              "wall_s": round(time.time() - self.t0, 2), "violations": len(self.violations),
              "known_findings_reproduced": [s for s, _ in self.known_hits],
              "violation_signatures": self.sig_counts}
        os.makedirs(EVIDENCE, exist_ok=True)
        tmp = os.path.join(EVIDENCE, f".{self.pid}.json.tmp")
        with open(tmp, "w") as f:
            json.dump(ev, f, indent=1, default=repr)
        os.replace(tmp, os.path.join(EVIDENCE, f"{self.pid}.json"))
        shutil.rmtree(self.scratch, ignore_errors=True)
        print(f"{self.pid} {self.tier}: evaluations={self.cov['evaluations']} distinct={self.cov['distinct_nontrivial']} "
              f"obligations={self.cov.get('obligations')} discharged={self.cov.get('discharged')} "
              f"violations={len(self.violations)} known={len(self.known_hits)} wall={ev['wall_s']}s")
        return rc


BASE_TRUST = [
    "Coq 8.16.1 kernel (coqc); vm_compute used to evaluate the model on the generated cases, in the "
    "*_refuted witnesses and in the non-vacuity Examples; no native_compute",
    "no axioms: every theorem in Props/ prints 'Closed under the global context' (checked on this run)",
    "the hand-written Gallina model is tied to /repo only by the correspondence run of this check "
    "(same inputs through the real code and through the model, compared inside Coq)",
    "the Python harness: generators, Python-value -> Coq-term printer, canonicaliser, known-findings matcher",
    "no extraction is used",
]


def coq_gate(chk: Check):
    """Steps shared by all checks: build, integrity scan, property file. Returns props dict."""
    ok, out = build_coq()
    if not ok:
        chk.violations.append(("coq-build", "the Coq development does not build",
                               {"no_failing_input_found": True, "obligation": "make -C coq", "log": out[-3000:]}))
        return {"obligations": 1, "discharged": 0, "theorems": [], "ok": False}
    bad = integrity_scan()
    if bad:
        chk.violations.append(("coq-integrity", "forbidden construct in the development: " + "; ".join(bad[:5]),
                               {"no_failing_input_found": True, "obligation": "integrity scan", "hits": bad}))
    props = check_props(chk.pid, chk.scratch)
    if not props["ok"]:
        chk.violations.append(("coq-props", f"Props/{chk.pid}.v does not check or depends on axioms",
                               {"no_failing_input_found": True, "obligation": f"Props/{chk.pid}.v",
                                "log": props.get("log", "")}))
    return props
