"""Tie between coq/Codec/DeepCopy.v and the real copies (copy.deepcopy, bardic.runtime.engine._copy_state).

A Python state (dict: variable -> nested lists / dicts / plain objects, possibly SHARING containers between
variables or inside one) is printed as a `DeepCopy.state` term whose cell identities are the objects' id()s
renumbered in first-occurrence (pre-order) order.  The copy made by the real code is printed with the SAME
numbering table continued: an object that is new gets the next number (k, k+1, ... where k = number of cells
of the original), an object that the copy reused from the original keeps its old number (< k).  The model
allocates new identities in the same first-occurrence order, so a correspondence case can ask inside Coq for
plain equality `snapshot k original = real copy` (DeepCopyCheck.dcase_bad) -- which is equality of the object
graphs up to renaming -- and, independently of the model's deepcopy, for the three properties on the real
copy (only new cells / same value / same sharing pattern: DeepCopyCheck.dcase_props_bad).

    from harness import deepcopy_tie as T
    term = T.case_term(state, copier)           # "(original, k, copy)" : DeepCopyCheck.dcase
    bad  = T.run_cases([term, ...], ["dcase_bad", "dcase_props_bad"])   # {fn: [indices]}, via coqc

`selftest()` generates random shared structures and runs the comparison for copy.deepcopy, for the repository's
_copy_state, and (as a control that the comparison can fail) for a per-variable copier, which must be flagged
on exactly the states that share a container between two variables and must agree with the model's
`copy_per_variable` everywhere.
"""
from __future__ import annotations

import copy
import math
import os
import random
import re
import shutil
import subprocess
import sys
import tempfile
import types
import zlib

VERIF = os.path.dirname(os.path.dirname(os.path.abspath(__file__)))
COQ = os.path.join(VERIF, "coq")

try:  # as part of the harness package
    from .common import coq_str, coq_nat, coq_Z, coq_list
except ImportError:  # run as a script
    sys.path.insert(0, VERIF)
    from harness.common import coq_str, coq_nat, coq_Z, coq_list


class Unsupported(ValueError):
    """The structure is outside what a finite cval denotes (cycle, tuple/set, non-string key)."""


class Bag:
    """A plain object: deepcopy makes a new instance first and then copies its __dict__ (a cell with fields)."""

    def __init__(self, **kw):
        self.__dict__.update(kw)


ATOMIC = (type(None), bool, int, float, str, types.ModuleType, type, types.FunctionType, types.BuiltinFunctionType)


def atom_code(x) -> int:
    """Immutable scalars and import bindings (modules, classes, functions) as integers; ints stay themselves."""
    if isinstance(x, int) and not isinstance(x, bool) and abs(x) < 10 ** 6:
        return x
    if isinstance(x, (types.ModuleType, type, types.FunctionType, types.BuiltinFunctionType)):
        return 10 ** 7 + zlib.crc32(("binding:" + getattr(x, "__name__", "?")).encode()) % 10 ** 6
    return 10 ** 6 + zlib.crc32((type(x).__name__ + ":" + repr(x)).encode()) % 10 ** 6


def is_plain_object(x) -> bool:
    return hasattr(x, "__dict__") and not isinstance(x, ATOMIC) and not callable(x) \
        and type(x).__module__ != "builtins"


def cval_term(x, ids: dict, stack=None) -> str:
    """Python value -> Cells.cval term.  `ids`: id(obj) -> number, filled in first-occurrence order."""
    stack = set() if stack is None else stack
    if isinstance(x, ATOMIC):
        return f"(CAtom {coq_Z(atom_code(x))})"
    if isinstance(x, (list, dict)) or is_plain_object(x):
        if id(x) in stack:
            raise Unsupported("cyclic structure")
        i = ids.setdefault(id(x), len(ids))
        stack.add(id(x))
        try:
            if isinstance(x, list):
                return f"(CList {coq_nat(i)} {coq_list(cval_term(y, ids, stack) for y in x)})"
            items = x.items() if isinstance(x, dict) else vars(x).items()
            out = []
            for k, v in items:
                if not isinstance(k, str) or not all(32 <= ord(ch) < 127 for ch in k):
                    raise Unsupported("non-ASCII-string key")
                out.append(f"({coq_str(k)}, {cval_term(v, ids, stack)})")
            return f"(CDict {coq_nat(i)} {coq_list(out)})"
        finally:
            stack.discard(id(x))
    raise Unsupported(f"value of type {type(x).__name__}")


def state_term(state: dict, ids: dict) -> str:
    """Python state dict -> DeepCopy.state term (variables in dict order)."""
    out = []
    for k, v in state.items():
        if not isinstance(k, str):
            raise Unsupported("non-string variable name")
        out.append(f"({coq_str(k)}, {cval_term(v, ids)})")
    return coq_list(out)


def terms(state: dict, copier=copy.deepcopy):
    """(original term, k, copy term).  Both objects stay alive while they are printed, so id()s are not reused."""
    ids: dict = {}
    orig = state_term(state, ids)
    k = len(ids)
    real = copier(state)
    cpy = state_term(real, ids)
    del real
    return orig, k, cpy


def case_term(state: dict, copier=copy.deepcopy) -> str:
    orig, k, cpy = terms(state, copier)
    return f"({orig}, {coq_nat(k)}, {cpy})"


HEADER = ("From Coq Require Import String Ascii List Bool ZArith Arith.\n"
          "From Bardic Require Import Cells DeepCopy DeepCopyCheck.\n"
          "Import ListNotations.\nLocal Open Scope string_scope.\nLocal Open Scope list_scope.\n")


def run_cases(case_terms, fns=("dcase_bad", "dcase_props_bad"), scratch=None, timeout=900, show=3):
    """Evaluate each `fn : dcase -> bool` on every case inside Coq.  -> ({fn: [bad indices]}, shown, log)."""
    own = scratch is None
    scratch = scratch or tempfile.mkdtemp(prefix="deepcopy_tie_")
    try:
        path = os.path.join(scratch, "cases.v")
        with open(path, "w") as f:
            f.write(HEADER)
            f.write("Definition cases : list dcase :=\n[\n" + ";\n".join(case_terms) + "\n].\n")
            f.write("Fixpoint bad_idx (bad : dcase -> bool) (i : nat) (l : list dcase) : list nat :=\n"
                    "  match l with [] => [] | c :: r => if bad c then i :: bad_idx bad (S i) r else bad_idx bad (S i) r end.\n")
            f.write("Set Printing Width 1000000.\nSet Printing Depth 1000000.\n")
            for fn in fns:
                f.write(f"Eval vm_compute in (bad_idx {fn} 0 cases).\n")
        p = subprocess.run(["coqc", "-Q", COQ, "Bardic", "cases.v"], cwd=scratch, timeout=timeout,
                           stdout=subprocess.PIPE, stderr=subprocess.STDOUT, text=True)
        if p.returncode != 0:
            raise RuntimeError("coqc failed on generated cases:\n" + p.stdout[-3000:])
        found = re.findall(r"=\s*\[(.*?)\]\s*:\s*list nat", p.stdout, re.S)
        if len(found) != len(fns):
            raise RuntimeError("unparsable coqc output:\n" + p.stdout[-3000:])
        bad = {fn: [int(t) for t in re.findall(r"\d+", body)] for fn, body in zip(fns, found)}
        shown = {}
        first = sorted({i for v in bad.values() for i in v})[:show]
        if first:
            spath = os.path.join(scratch, "show.v")
            with open(spath, "w") as f:
                f.write(HEADER + "Set Printing Width 1000000.\nSet Printing Depth 1000000.\n")
                for i in first:
                    f.write(f"Eval vm_compute in (dcase_show ({case_terms[i]})).\n")
            q = subprocess.run(["coqc", "-Q", COQ, "Bardic", "show.v"], cwd=scratch, timeout=timeout,
                               stdout=subprocess.PIPE, stderr=subprocess.STDOUT, text=True)
            chunks = re.split(r"^\s*=\s", q.stdout, flags=re.M)[1:]
            for i, c in zip(first, chunks):
                shown[i] = c.strip()[:3000]
        return bad, shown, p.stdout[-2000:]
    finally:
        if own:
            shutil.rmtree(scratch, ignore_errors=True)


# ---- random states with sharing --------------------------------------------------------------------------------

def gen_state(rng: random.Random, objects=True, bindings=False):
    """A random state whose containers are shared with probability ~0.35 per container slot.

    Only containers that are already finished are reused, so the result is acyclic."""
    pool: list = []
    names = ["hp", "gold", "inventory", "backpack", "party", "flags", "seen", "log", "stats", "bag", "tmp", "q"]
    keys = ["n", "items", "name", "tags", "left", "right", "hp", "x"]

    def atom():
        return rng.choice([None, True, False, 0, 1, 2, 7, -3, 10 ** 9, "sword", "", "a b", 1.5])

    def value(depth):
        r = rng.random()
        if r < 0.35 or depth <= 0:
            return atom()
        if pool and r < 0.60:
            return rng.choice(pool)
        kind = rng.random()
        n = rng.randrange(0, 4)
        if kind < 0.5:
            c = [value(depth - 1) for _ in range(n)]
        elif kind < 0.85 or not objects:
            c = {k: value(depth - 1) for k in rng.sample(keys, n)}
        else:
            c = Bag(**{k: value(depth - 1) for k in rng.sample(keys, n)})
        pool.append(c)
        return c

    state = {"_inputs": {}}
    pool.append(state["_inputs"])
    for name in rng.sample(names, rng.randrange(1, 7)):
        state[name] = value(rng.randrange(1, 4))
    if bindings:
        if rng.random() < 0.5:
            state["math"] = math
        if rng.random() < 0.5:
            state["Bag"] = Bag
        if rng.random() < 0.3:
            state["floor"] = math.floor
        if rng.random() < 0.3:
            state["helper"] = is_plain_object
    return state


def containers(x, acc):
    if isinstance(x, (list, dict)) or is_plain_object(x):
        if id(x) in acc:
            return acc
        acc.add(id(x))
        it = x if isinstance(x, list) else (x.values() if isinstance(x, dict) else vars(x).values())
        for y in it:
            containers(y, acc)
    return acc


def shares_between_variables(state) -> bool:
    seen: set = set()
    for v in state.values():
        mine = containers(v, set())
        if mine & seen:
            return True
        seen |= mine
    return False


def shares_anything(state) -> bool:
    ids: dict = {}
    t = state_term(state, ids)
    return t.count("(CList ") + t.count("(CDict ") > len(ids)


def shares_inside_a_variable(state) -> bool:
    return any(shares_anything({k: v}) for k, v in state.items())


def per_variable_copier(state):
    """The seeded change C04_3: every top-level variable deep-copied with its own memo."""
    return {k: copy.deepcopy(v) for k, v in state.items()}


def repo_copy_state():
    """The repository's own _copy_state (honours BARDIC_REPO through harness.common.use_repo)."""
    try:
        from . import common as C
    except ImportError:
        from harness import common as C
    C.use_repo()
    import bardic.runtime.engine as E
    return E._copy_state


def selftest(n=200, seed=20261001, verbose=True) -> int:
    """0 when the model agrees with the real copies on n random shared structures (and the control is flagged)."""
    rng = random.Random(seed)
    states = [gen_state(rng, bindings=False) for _ in range(n)]
    states_b = [gen_state(rng, bindings=True) for _ in range(n)]
    stats = {
        "cases": n,
        "with_sharing": sum(shares_anything(s) for s in states),
        "with_sharing_between_variables": sum(shares_between_variables(s) for s in states),
        "with_sharing_inside_one_variable": sum(shares_inside_a_variable(s) for s in states),
        "with_plain_objects": sum(any(is_plain_object(o) for o in _walk(s)) for s in states),
        "max_cells": max(len(containers(s, set())) - 1 for s in states),
    }
    failures = 0
    log = []

    def report(label, bad, shown, expect_none=True):
        nonlocal failures
        for fn, idx in bad.items():
            log.append(f"{label}: {fn}: {len(idx)} mismatches")
            if expect_none and idx:
                failures += len(idx)
                for i in idx[:3]:
                    log.append(f"   case {i}: model/real = {shown.get(i, '?')}")

    # 1. copy.deepcopy of the whole state (what _copy_state does, minus the import bindings)
    bad, shown, _ = run_cases([case_term(s, copy.deepcopy) for s in states])
    report("copy.deepcopy", bad, shown)
    # 2. the repository's _copy_state, on states that also hold modules / classes / functions
    cs = repo_copy_state()
    bad, shown, _ = run_cases([case_term(s, cs) for s in states_b])
    report("engine._copy_state", bad, shown)
    # 3. control: the per-variable copier is the model's copy_per_variable, and is flagged exactly where a
    #    container is shared between two variables
    bad, shown, _ = run_cases([case_term(s, per_variable_copier) for s in states],
                              fns=("dcase_bad", "dcase_props_bad", "dcase_split_bad"))
    report("per-variable copier vs copy_per_variable", {"dcase_split_bad": bad["dcase_split_bad"]}, shown)
    expected = [i for i, s in enumerate(states) if shares_between_variables(s)]
    for fn in ("dcase_bad", "dcase_props_bad"):
        log.append(f"control (per-variable copier): {fn} flags {len(bad[fn])} cases, expected {len(expected)}")
        if bad[fn] != expected:
            failures += 1
            log.append(f"   CONTROL DISAGREES: flagged {bad[fn][:10]} expected {expected[:10]}")
    if verbose:
        print("deepcopy_tie selftest:", stats)
        print("\n".join(log))
        print("RESULT:", "ok, 0 mismatches" if failures == 0 else f"{failures} MISMATCHES")
    return 0 if failures == 0 else 1


def _walk(x, seen=None):
    seen = set() if seen is None else seen
    if isinstance(x, (list, dict)) or is_plain_object(x):
        if id(x) in seen:
            return
        seen.add(id(x))
        yield x
        it = x if isinstance(x, list) else (x.values() if isinstance(x, dict) else vars(x).values())
        for y in it:
            yield from _walk(y, seen)


if __name__ == "__main__":
    sys.exit(selftest())
