"""dev helper: python -m harness.dev_c01 SUBSEED [depth] -> prints source and ccase_detail"""
import random, subprocess, sys, os, tempfile
from . import common as C, c01, story2coq as S
def main():
    sub = int(sys.argv[1]); depth = int(sys.argv[2]) if len(sys.argv) > 2 else 2
    C.use_repo()
    from bardic.compiler.compiler import BardCompiler
    r = random.Random(sub)
    g = c01.SrcGen(r, depth=depth)
    ast_ = g.story(); src = c01.decorate(c01.print_story(ast_), random.Random(sub ^ 0x5EED), g.stats)
    print(src)
    real = BardCompiler().compile_string(src)
    tb = S.Tables()
    d = tempfile.mkdtemp(prefix="c01dev_")
    f = os.path.join(d, "x.v")
    open(f, "w").write(c01.HEADER + "\nImport ListNotations.\nOpen Scope string_scope.\nDefinition c : ccase := (%s, %s).\nEval vm_compute in ccase_detail c.\n"
                       % (c01.t_story(ast_), S.story(real, tb)))
    out = subprocess.run(["coqc", "-Q", "/verif/coq", "Bardic", f], capture_output=True, text=True)
    print(out.stdout[-6000:], out.stderr[-3000:])
    import shutil; shutil.rmtree(d)
main()
