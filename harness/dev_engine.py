"""Development driver: engine correspondence on generated stories.  usage: dev_engine.py N [seed]"""
import sys, os, random, tempfile, shutil, json
sys.path.insert(0, os.path.dirname(os.path.dirname(os.path.abspath(__file__))))
from harness import common as C, enginegen as G, enginerun as R
from harness.pymini import Unsupported

def main():
    n = int(sys.argv[1]); seed = int(sys.argv[2]) if len(sys.argv) > 2 else 1
    faults = float(os.environ.get("FAULTS", "0"))
    C.use_repo()
    rng = random.Random(seed)
    terms, metas = [], []
    skipped = {"compile": 0, "unsupported": 0, "timeout": 0}
    for i in range(n):
        sub = rng.randrange(10**9)
        r = random.Random(sub)
        g = G.Gen(r, G.Profile(faults=faults))
        src = g.source()
        try:
            story = R.compile_story(src)
        except Exception as e:
            skipped["compile"] += 1
            if os.environ.get("SHOWCOMPILE"): print("COMPILE FAIL", type(e).__name__, str(e)[:300]); print(src)
            continue
        ops = G.gen_ops(r, r.randint(3, 12))
        recs, eng = R.run_history(story, ops)
        if any(x["obs"][0] == "timeout" for x in recs):
            skipped["timeout"] += 1; continue
        try:
            terms.append(R.case_term(story, recs)); metas.append((sub, src, recs))
        except Unsupported as e:
            skipped["unsupported"] += 1
            if os.environ.get("SHOWUNSUP"): print("UNSUPPORTED", e)
    print("cases", len(terms), "skipped", skipped)
    d = tempfile.mkdtemp(prefix="dev_engine_")
    bad, shown, log = C.run_coq_cases(d, R.HEADER, terms, "ecase", "ecase_bad", shard=40, show_fn="ecase_show")
    print("mismatches", len(bad), bad[:20]); print(log[:3000])
    for b in bad[:3]:
        if isinstance(b, int):
            sub, src, recs = metas[b]
            print("=" * 80); print("subseed", sub); print(src)
            print("--- ops/obs")
            for k, rc in enumerate(recs): print(k, rc["op"], rc["obs"])
            print("--- model at first diff:", shown.get(b))
            m = __import__("re").match(r"\(Some (\d+)", shown.get(b, "") or "")
            if m:
                k = int(m.group(1)); v = recs[k]["view"]
                print("--- impl view at", k, json.dumps({kk: vv for kk, vv in v.items() if kk != "raw_content"}, default=repr)[:3000])
    if not os.environ.get("KEEP"): shutil.rmtree(d, ignore_errors=True)
    else: print("kept", d)

main()
