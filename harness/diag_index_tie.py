"""The index tie of C14: the line the REAL compiler names in a SyntaxError = the index of the parser model's
`DSyntax site i` + 1.

Why: the correspondence runs of C11/C12 compare only the exception class of a diagnostic (ParseCheck.agrees), while
the theorems of Proofs/DiagCulprit.v (Props/C14.v, second half) are about the index the MODEL carries.  This phase
compares the two, story by story, inside Coq:

  * kinds (a)/(b) of DiagCulprit.diag_classified (located diagnostics, and block diagnostics raised while a @for body
    is re-parsed: an index into the dedented copy, which the real compiler passes to format_error just the same):
    the real message must say "on line i + 1";
  * kinds (c)/(d) (content errors inside @if/@for blocks, `call:*` sites of the post pass: the model's index is the
    dummy 0): the real message must name no line at all.
  A difference is `chk.disagree("diag-index", ...)`.

For a `~` statement that spans several lines the real compiler adds Python's `e.lineno - 1`, clamped to the lines the
statement consumed (fix F14c), to the index (it names the continuation line Python blames).  The model does the same
through the oracle py_stmt_errline (Compiler/ParseBase.v), which c11.Probe records from the real SyntaxError for every
statement the compiler handed to ast.parse (`probe.errline`); nothing is compensated here.  Kind (s) of
DiagCulprit.diag_classified: the real message must say "on line i + 1" and line i must lie inside a `~` statement of the
pre-passed text (inside_statement_b; DiagCulprit.culprit_stmt_site proves it for every oracle).
Counted as evidence: "stmt_blamed_continuation_line" = cases whose blamed line is not the `~` line;
"stmt_offset_beyond_text" = rejected statements for which Python blames a line past the text it was given (the premise
errline_inside of DiagCulprit.clamp_is_identity fails and the clamp acts; needs a bare carriage return, which the
generators do not write -- the two F14c witnesses are fixed cases of the phase).

Stories: every diagnosable construct of harness/c14.py CONSTRUCTS that compile_string can diagnose, placed at every
position of the single-file hosts of c14 (plain, blocks, join, struct: top level, inside @if / @for bodies, inside
`-> @join` blocks, after multi-line statements / comments / @py blocks), with and without trailing `// comments` on
the story's text lines and on the construct; a list of extra constructs (legacy <<if / <<for forms, elif/for/py
inside nested blocks, choice-text and inline-nesting-cap errors in every context, the block nesting cap, every
validate_choice_syntax check); and mutated random stories of harness/c11.py (gen_story_lines + mutate).
Python's parser enters the model as per-case tables recorded from the real `ast.parse` calls (c11.Probe), evaluated
with both defaults, as in C11.
"""
from __future__ import annotations

import os
import re
import sys

if __package__ in (None, ""):                      # `python harness/diag_index_tie.py`
    sys.path.insert(0, os.path.dirname(os.path.dirname(os.path.abspath(__file__))))
    __package__ = "harness"

from . import common as C
from . import c11 as P
from . import c14 as L
from .common import coq_list, coq_bool, coq_nat, coq_opt

HEADER = ("From Coq Require Import List String Ascii Bool Arith.\n"
          "From Bardic Require Import PyStr Value Compiled Lex ParseBase ParseLine ParseMain ParseCheck.\n"
          "From Bardic Require Import ParseBlocks ParseBlocksInst ParseAllProofs DiagCulprit.\n"
          "Definition icase := (list string * stmt_table * errline_table * call_table * option nat)%type.\n"
          "Definition imodel (dflt : bool) (c : icase) : pres story :=\n"
          "  let '(lines, st, et, ct, _) := c in\n"
          "  parse (table_pyparse_e st et ct dflt) (table_is_call ct) real_extractors lines.\n"
          "(* kinds (c)/(d) of DiagCulprit.diag_classified: the index is the dummy 0 *)\n"
          "Definition no_line_kind (s : string) (i : nat) : bool := callsite s || (csite s && Nat.eqb i 0).\n"
          "Definition iagree (m : pres story) (r : option nat) : bool :=\n"
          "  match m with\n"
          "  | PDiag (DSyntax s i) =>\n"
          "      if no_line_kind s i then match r with None => true | Some _ => false end\n"
          "      else match r with Some n => Nat.eqb n (S i) | None => false end\n"
          "  | _ => false\n"
          "  end.\n"
          "Definition icase_bad (c : icase) : bool :=\n"
          "  let '(_, _, _, _, r) := c in negb (iagree (imodel false c) r && iagree (imodel true c) r).\n"
          "(* culprit_on_it: kind (a) -- or, for the site stmt:python-syntax, kind (s): line i lies inside a `~` statement *)\n"
          "Inductive ishow := IDiag (site : string) (idx : nat) (no_line : bool) (culprit_on_it : bool)\n"
          "                 | IValue (site : string) | IOk | IOther.\n"
          "Definition ishow_of (m : pres story) (lines : list string) : ishow :=\n"
          "  match m with\n"
          "  | PDiag (DSyntax s i) =>\n"
          "      IDiag s i (no_line_kind s i)\n"
          "            (if String.eqb s stmt_site then inside_statement_b (prepass lines) i\n"
          "             else match nth_error (prepass lines) i with Some l => culprit s l | None => false end)\n"
          "  | PDiag (DValue s) => IValue s | POk _ => IOk | _ => IOther\n"
          "  end.\n"
          "Definition icase_show (c : icase) : ishow * ishow :=\n"
          "  let '(lines, _, _, _, _) := c in (ishow_of (imodel false c) lines, ishow_of (imodel true c) lines).\n"
          "Definition icase_site (c : icase) : ishow := fst (icase_show c).")

MAX_LINE = 1500      # the model's string accumulators are quadratic (same bound as c11.MAX_MODEL_LINE)

# constructs of c14.CONSTRUCTS that compile_string cannot diagnose as a SyntaxError with or without a line
# (@include is resolved by compile_file only; duplicates / @start are ValueErrors: no index in the model)
SKIP_KINDS = {"include-no-path", "include-two-files", "include-missing-file", "include-circular", "start-unknown",
              "passage-duplicate"}


def nested_inline(n):
    s = "x"
    for _ in range(n):
        s = "{c ? " + s + " | y}"
    return s


# extra constructs: kind -> lines to insert (placed like the constructs of c14, indented inside blocks)
EXTRA = {
    "legacy-if-no-close": ["<<if gold > 1", "    Rich.", "<<endif>>"],
    "legacy-elif-no-close": ["<<if gold > 1>>", "    Rich.", "<<elif gold", "    Some.", "<<endif>>"],
    "legacy-for-invalid": ["<<for q", "    Q", "<<endfor>>"],
    "nested-if-no-colon": ["@if gold > 1:", "    Rich.", "    @if gold", "        Very.", "    @endif", "@endif"],
    "nested-for-no-colon": ["@if gold > 1:", "    Rich.", "    @for q in [1]", "        Q", "    @endfor", "@endif"],
    "nested-py-no-colon": ["@if gold > 1:", "    Rich.", "    @py", "    zz = 1", "    @endpy", "@endif"],
    "nested-endif-colon": ["@if gold > 1:", "    @if gold:", "        Very.", "    @endif:", "    @endif", "@endif"],
    "nested-if-unclosed": ["@if gold > 1:", "    Rich.", "    @if gold:", "    Very.", "@endif"],
    "if-in-for-no-colon": ["@for q in [1]:", "    Q {q}", "    @if gold", "    Rich.", "    @endif", "@endfor"],
    "py-in-for-unclosed": ["@for q in [1]:", "    Q {q}", "    @py:", "    zz = 1", "@endfor"],
    "brace-in-for": ["@for q in [1]:", "    Q {q", "@endfor"],
    "brace-in-if": ["@if gold > 1:", "    Rich {gold", "@endif"],
    "choice-brace-in-if": ["@if gold > 1:", "    + [Take {gold] -> End", "@endif"],
    "join-block-brace": ["+ [Pick] -> @join", "    Fine.", "    # note", "    Bad {gold", "@join"],
    "join-block-brace-deep-indent": ["+ [Pick] -> @join", "        Fine.", "", "          Bad gold}", "@join"],
    "join-block-depth-cap": ["+ [Pick] -> @join", "    " + nested_inline(52), "@join"],
    "content-depth-cap": ["Deep " + nested_inline(52)],
    "content-depth-cap-glue": ["Deep " + nested_inline(52) + " <>"],
    "choice-text-depth-cap": ["+ [Take " + nested_inline(52) + "] -> End"],
    "choice-text-brace-extra": ["* [Take gold}] -> End"],
    "choice-text-brace-cond": ["+ {gold > 1} [Take {gold] -> End"],
    "block-depth-cap": ["@if gold:"] * 101 + ["x"] + ["@endif"] * 101,
    "choice-close-brace": ["+ gold} [Go] -> End"],
    "choice-open-after-cond": ["+ {gold [a]} Go -> End"],
    "choice-close-after-cond": ["+ {gold]} [Go -> End"],
    "choice-bracket-order": ["+ ]Go[ -> End"],
    "choice-unparsed": ["+ x [Go] -> End"],
    "name-empty": [":: ^tag", "Text."],
    "name-digit": [":: 9lives", "Text."],
    "param-reserved": [":: P6(arg_0)", "Text."],
    "call-in-if-unknown": ["@if gold > 1:", "    -> Nowhere", "@endif"],
}

COMMENTS = [" // note", "  // a -> b {x", " //c", "\t// [x] }"]


# fixed cases outside the generators' domain: the witnesses of finding F14c (a bare carriage return inside a `~`
# statement is a line break for CPython only; the repaired compiler keeps the reported line inside the statement:
# "on line 2" and "on line 5")
FIXED = [("fixed:F14c-cr9-one-line", [":: Start", "~ a = 1" + "\r" * 9 + " b c", "hello", ""]),
         ("fixed:F14c-cr8-in-multi-line", [":: Start", "t", "~ xs = [", "  1," + "\r" * 8 + "  2 3,", "]", "after", ""])]


def commentable(ctx, text):
    """Lines that may get a trailing // comment without changing what they are: text, choices, headers, directives
    of the story (not Python code: @py bodies, continuation lines of a multi-line ~ statement, the preamble)."""
    if ctx in ("py", "-", "pre") or text is None:
        return False
    s = text.strip()
    return bool(s) and not s.startswith(("#", "~ ", "@py", "@endpy")) and "//" not in s


def host_story(host, rng, comments):
    """The host's lines, some with a trailing comment."""
    out = []
    for ctx, t in host:
        if t is None:
            continue
        out.append(t + rng.choice(COMMENTS) if comments and commentable(ctx, t) and rng.random() < 0.5 else t)
    return out


def placements(rng, n):
    """(label, lines): constructs of c14 and EXTRA placed in the single-file hosts of c14."""
    hosts = {"plain": L.HOST_PLAIN, "blocks": L.HOST_BLOCKS, "join": L.HOST_JOIN, "struct": L.HOST_STRUCT}
    kinds = [(k, list(v[0])) for k, v in L.CONSTRUCTS.items() if k not in SKIP_KINDS] + list(EXTRA.items())
    allp = []
    for hn, host in hosts.items():
        for pos in range(len(host)):
            if host[pos][0] == "-":
                continue
            for k, ins in kinds:
                allp.append((hn, pos, k, ins))
    rng.shuffle(allp)
    # every (kind, context) pair first, then the rest in random order
    seen, first, rest = set(), [], []
    for p in allp:
        key = (p[2], hosts[p[0]][p[1]][0])
        (rest if key in seen else first).append(p)
        seen.add(key)
    out = []
    for hn, pos, k, ins in (first + rest)[:n]:
        host = hosts[hn]
        ctx = host[pos][0]
        if ctx == "py":
            continue                      # inside @py the construct is Python text, not a construct
        comments = rng.random() < 0.4
        base_before = host_story(host[:pos], rng, comments)
        base_after = host_story(host[pos:], rng, comments)
        ind = L.INDENTED_CTX.get(ctx, "")
        body = []
        for j, l in enumerate(ins):
            tilde_cont = k.startswith("tilde-syntax-multiline") and j > 0
            if comments and not tilde_cont and l.strip() and "//" not in l and not l.strip().startswith(("~ ", "@py", "zz =", "#")) \
                    and rng.random() < 0.6:
                l = l + rng.choice(COMMENTS)
            body.append(ind + l)
        out.append((f"{k}@{ctx}:{hn}" + (":comments" if comments else ""), base_before + body + base_after))
    return out


def mutated(rng, n):
    out = []
    for _ in range(n):
        lines = P.gen_story_lines(rng, True)
        lines, names = P.mutate(rng, lines)
        out.append(("mutated:" + "+".join(sorted(set(names))), [P.to_ascii(l) for l in lines]))
    return out


def real_diag(lines):
    """('syntax', line or None, head, probe) | ('other', what)."""
    from bardic.compiler.compiler import BardCompiler
    text = "\n".join(lines)
    with P.Probe() as pr:
        try:
            with C.alarm(P.ALARM_S), C.quiet():
                BardCompiler().compile_string(text)
            return ("other", "compiles")
        except C.Timeout:
            return ("other", "timeout")
        except SyntaxError as e:
            msg = str(e)
        except ValueError:
            return ("other", "ValueError")
        except BaseException as e:  # noqa
            return ("other", type(e).__name__)
    if pr.oracle_escapes:
        return ("other", "oracle-escape")
    kind, locs = L.parse_location(msg, None)
    line = locs[0][1] if kind == "fmt" else None
    return ("syntax", line, msg.split("\n")[0][:80] + (" | " + msg.split("\n")[1].strip() if "\n" in msg else ""), pr)


def icase_term(lines, pr, expect):
    st = coq_list(f"({P.cs(k)}, {coq_bool(v)})" for k, v in pr.stmt.items())

    def shape(v):
        return coq_opt(v, lambda x: f"({coq_nat(x[0])}, {coq_list(P.cs(k) for k in x[1])})")
    ct = coq_list(f"({P.cs(k)}, ({shape(v[0])}, {coq_bool(v[1])}))" for k, v in pr.calls.items())
    et = coq_list(f"({P.cs(k)}, {coq_nat(v)})" for k, v in pr.errline.items())
    return f"({coq_list(P.cs(l) for l in lines)}, {st}, {et}, {ct}, {coq_opt(expect, coq_nat)})"


def model_sites(scratch, terms, shard=300, timeout=600):
    """What the model says for each case (site, index, no-line kind, culprit on that line): evidence only."""
    out = {}
    for k in range(0, len(terms), shard):
        path = os.path.join(scratch, f"sites_{k // shard}.v")
        with open(path, "w") as f:
            f.write(HEADER + "\nImport ListNotations.\nLocal Open Scope string_scope.\nLocal Open Scope list_scope.\n")
            f.write("Set Printing Width 1000000.\nSet Printing Depth 1000000.\n")
            f.write("Definition cases : list icase :=\n[\n" + ";\n".join(terms[k:k + shard]) + "\n].\n")
            f.write("Eval vm_compute in (map icase_site cases).\n")
        rc, txt = C.sh(["coqc", "-Q", C.COQ, "Bardic", path], timeout=timeout, cwd=scratch)
        if rc != 0:
            continue
        items = re.findall(r'IDiag "([^"]*)" (\d+) (true|false) (true|false)|(IValue "[^"]*"|IOk|IOther)', txt)
        for j, it in enumerate(items):
            out[k + j] = (it[0], int(it[1]), it[2] == "true", it[3] == "true") if it[0] or it[1] else (it[4],)
    return out


def phase(chk, rng, n):
    """Compare the real compiler's "line N" with the model's DSyntax index + 1 on about n malformed stories."""
    C.use_repo()
    stories = FIXED + placements(rng, max(1, (n * 4) // 5)) + mutated(rng, max(1, n // 2))
    cases, skipped, continuation, beyond = [], {}, 0, 0
    for label, lines in stories:
        if not all(C.is_ascii(l) and "\n" not in l and ("\r" not in l or label.startswith("fixed:"))
                   and len(l) <= MAX_LINE for l in lines):
            skipped["outside-model-domain"] = skipped.get("outside-model-domain", 0) + 1
            continue
        r = real_diag(lines)
        if r[0] != "syntax":
            skipped[r[1]] = skipped.get(r[1], 0) + 1
            continue
        _, line, head, pr = r
        if len(cases) >= n:
            break
        expect = line
        adj = max(pr.errline.values(), default=0)
        if adj and head.startswith("✗ Invalid Python Syntax"):
            continuation += 1
        beyond += sum(1 for src, off in pr.errline.items() if off > src.count("\n"))
        try:
            term = icase_term(lines, pr, expect)
        except ValueError:
            skipped["outside-model-domain"] = skipped.get("outside-model-domain", 0) + 1
            continue
        cases.append((label, lines, line, adj, head, term))
    terms = [c[5] for c in cases]
    bad, shown, log = C.run_coq_cases(chk.scratch, HEADER, terms, "icase", "icase_bad", show_fn="icase_show")
    sites = model_sites(chk.scratch, terms)
    for b in bad:
        if not isinstance(b, int):
            chk.disagree("diag-index", "the Coq evaluation of a shard of index-tie cases failed", {"log": log[-2000:]})
            continue
        label, lines, line, adj, head, _ = cases[b]
        chk.disagree("diag-index",
                     f"{label}: the real compiler says {'line ' + str(line) if line is not None else 'no line'}"
                     f"{' (Python blames line ' + str(adj + 1) + ' of the statement)' if adj else ''}; the model says "
                     f"{shown.get(b, sites.get(b, '?'))}",
                     {"lines": lines, "real_message_head": head, "real_line": line, "model": shown.get(b, str(sites.get(b)))})
    # evidence
    by_kind, by_site, fams = {"located(a)": 0, "statement(s)": 0, "loop-body(b)": 0, "no-line(c/d)": 0, "?": 0}, {}, set()
    for idx, (label, lines, line, adj, head, _) in enumerate(cases):
        s = sites.get(idx)
        fams.add(label.split(":")[0])
        chk.count(("diag-index", label, line), True)
        if not s or len(s) != 4:
            by_kind["?"] += 1
            continue
        site, i, noline, culp = s
        by_site[site] = by_site.get(site, 0) + 1
        by_kind["no-line(c/d)" if noline else
                (("statement(s)" if site == "stmt:python-syntax" else "located(a)") if culp else "loop-body(b)")] += 1
    info = {"stories_compared": len(cases), "disagreements": len(bad), "by_kind": by_kind,
            "distinct_sites": len(by_site), "by_site": dict(sorted(by_site.items())),
            "construct_context_families": len(fams), "stmt_blamed_continuation_line": continuation,
            "stmt_offset_beyond_text": beyond,
            "not_compared": skipped,
            "rule": "a story counts when the real compiler raises SyntaxError on it; kind (a) = the model's culprit "
                    "predicate holds of the indexed line, (s) = site stmt:python-syntax and the indexed line lies inside "
                    "a `~` statement, (b) = neither (index into a dedented loop body), "
                    "(c/d) = content site with index 0 or call site (the real message must name no line)"}
    chk.notes["diag_index_tie"] = info
    for label, lines, line, adj, head, _ in cases[:2]:
        chk.sample({"diag-index": label, "real": head, "line": line})
    return info


# ----------------------------------------------------------------------------------------------
# selftest: `python -m harness.diag_index_tie [n] [seed]`
# ----------------------------------------------------------------------------------------------

class DummyCheck:
    def __init__(self, seed):
        import random
        import tempfile
        self.rng = random.Random(seed)
        self.scratch = tempfile.mkdtemp(prefix="bardic_verif_diag_index_")
        self.notes, self.disagreements, self.reports, self.counted, self.samples = {}, [], [], 0, []

    def disagree(self, label, what, replay):
        self.disagreements.append((label, what, replay))

    def report(self, signature, what, replay):
        self.reports.append((signature, what, replay))

    def count(self, key, nontrivial):
        self.counted += 1

    def sample(self, s):
        self.samples.append(s)


def main(argv):
    import json
    import shutil
    n = int(argv[1]) if len(argv) > 1 else 300
    seed = int(argv[2]) if len(argv) > 2 else 1
    chk = DummyCheck(seed)
    try:
        info = phase(chk, chk.rng, n)
    finally:
        shutil.rmtree(chk.scratch, ignore_errors=True)
    print(json.dumps(info, indent=1))
    for label, what, _ in chk.disagreements[:10]:
        print(f"DISAGREE[{label}]: {what}")
    print(f"stories={info['stories_compared']} disagreements={len(chk.disagreements)} counted={chk.counted}")
    return 1 if chk.disagreements else 0


if __name__ == "__main__":
    sys.exit(main(sys.argv))
