"""Shared driver for the engine properties (C02 C03 C04 C07 C08 C09 C10 C15).

Every one of them runs (1) the Coq gate for its own Props/Cnn.v, (2) the correspondence between
Engine/Engine.v and the real BardEngine on generated stories x histories, with a generator profile that
stresses the property's mechanism, and (3) the property's direct oracles on the implementation
(model independent: they read only what the real engine did)."""
from __future__ import annotations

import copy
import os
import random
import re

from . import common as C
from . import enginegen as G
from . import enginerun as R
from .pymini import Unsupported

MARK = re.compile(r"\[(Start|P\d+[a-z.]*|J\d+)\]")
HOOKMARK = re.compile(r"\[(H\d+(?:\.e)?) ran")


def strip_flags(v):
    return {k: x for k, x in v.items() if k not in ("can_undo", "can_redo", "raw_content")}


def tr_of(v):
    t = v["vars"].get("tr", [])
    return list(t) if isinstance(t, list) else []


# ------------------------------------------------------------------------------------------------
# oracles: each takes (story, recs, report) ; report(signature, what, step)
# ------------------------------------------------------------------------------------------------

def o_common(story, recs, report):
    saved = None
    for k, r in enumerate(recs[1:], 1):
        v = r["view"]
        if v is None:
            continue
        op0 = r["op"][0]
        if op0 in ("reload", "save", "load") and r["obs"][0] != "ok":
            report(f"{op0}-raised", f"{op0} of a reachable situation raised {r['obs']}", k)
        elif op0 == "save":
            saved = r["before"]
            if v != r["before"]:
                report("save-changed-the-game", f"save_state() changed {[kk for kk in v if v[kk] != r['before'][kk]]}", k)
        elif op0 == "reload":
            want, got = strip_flags(r["before"]), strip_flags(v)
            if want != got:
                report("reload-not-faithful", "save -> JSON -> load into a fresh engine differs in "
                       f"{[kk for kk in want if want[kk] != got[kk]]}", k)
            if v["can_undo"] or v["can_redo"]:
                report("load-kept-history", "undo/redo available right after a load", k)
        elif op0 == "load" and saved is not None:
            want, got = strip_flags(saved), strip_flags(v)
            if want != got:
                report("load-not-faithful", "loading the saved document into the running engine differs from the saved "
                       f"situation in {[kk for kk in want if want[kk] != got[kk]]}", k)
            if v["can_undo"] or v["can_redo"]:
                report("load-kept-history", "undo/redo available right after a load", k)
        if v["depth"] != 0:
            report("scope-stack-not-empty-after-call", f"{v['depth']} parameter scope(s) left on the stack after {r['op']}", k)
        if r["obs"][0] == "exc":
            kind = r["obs"][1]
            if r["op"][0] == "choose":
                n = len(r["before"]["choices"])
                bad_index = r["op"][1] < 0 or r["op"][1] >= n
                if bad_index and kind != "IndexError":
                    report("bad-index-not-IndexError", f"choose({r['op'][1]}) with {n} offered raised {r['obs'][2]}", k)
                if not bad_index and kind not in ("RuntimeError", "ValueError"):
                    report(f"choose-raised-{kind}", f"choose raised {r['obs'][2]} (only RuntimeError/ValueError may surface)", k)


def tainted_upto(recs):
    """taint[k]: an earlier navigation failed half-way.  Its post-state (position ahead of what is shown, the
    one-time mark already set) can be reached again by redo, so 'the current situation' is ambiguous from
    then on; the rule 'a used one-time choice is not offered' is judged on untainted prefixes only."""
    t, out = False, []
    for r in recs:
        out.append(t)
        if r["obs"][0] == "exc" and r["obs"][1] != "IndexError":
            t = True
    return out


def o_c02(story, recs, report):
    ps = story["passages"]
    taint = tainted_upto(recs)
    for k, r in enumerate(recs[1:], 1):
        v, b = r["view"], r["before"]
        if v is None:
            continue
        if r["op"][0] == "choose":
            n = len(b["choices"])
            i = r["op"][1]
            if i < 0 or i >= n:
                if r["obs"][0] != "exc":
                    report("bad-index-accepted", f"choose({i}) with {n} offered did not raise", k)
                if {kk: vv for kk, vv in v.items() if kk != "raw_content"} != {kk: vv for kk, vv in b.items() if kk != "raw_content"}:
                    diff = [kk for kk in v if v[kk] != b[kk]]
                    report("rejected-choose-changed-state", f"choose({i}) rejected but changed {diff}", k)
            elif r["obs"][0] == "ok":
                text, target, args = b["choices"][i]
                new = tr_of(v)[len(tr_of(b)):]
                if target != "@join":
                    if not new or new[0] != target:
                        report("choose-went-elsewhere", f"choice {i} targets {target} but the first passage entered was {new[:1]}", k)
        # offered = enabled, recomputed for passage-level choices of parameterless passages when no hook ran
        if r["obs"][0] in ("ok", "bool") and v["pid"] in ps and not ps[v["pid"]].get("params"):
            entered = tr_of(v)[len(tr_of(b)):] if b else []
            hooks_ran = any(x.startswith("H") for x in entered)
            # a passage reached by a jump from a parameterised passage is rendered while that passage's parameters are
            # still in scope (one navigation = one scope lifetime): the recomputation below knows only the globals
            scoped = any(ps.get(x, {}).get("params") for x in entered)
            if r["op"][0] in ("choose", "goto") and not hooks_ran and not scoped and r["obs"][0] == "ok":
                exp = expected_offer(story, v)
                if exp is not None:
                    got = [c for c in v["choices"]]
                    # block choices (from @if/@for) are appended after the passage's own ones
                    if got[:len(exp)] != exp and not any(t.get("type") in ("conditional", "for_loop") for t in ps[v["pid"]]["content"]):
                        report("offered-not-enabled", f"offered {got} but enabled passage choices are {exp}", k)
        # a one-time choice already used from this passage is never offered
        # (not judged in the half-navigated state a failed choose leaves: the shown output is the old one)
        for (t, tg, a) in (v["choices"] if r["obs"][0] != "exc" and v["cur"] == v["pid"] and not taint[k] else []):
            cid = f"{v['cur']}:{t}:{tg}"
            if cid in v["used"]:
                # (a sticky choice may have the same text and target as a used one-time choice: it is rightly offered)
                same = [c for c in ps.get(v["pid"], {}).get("choices", [])
                        if c["target"] == tg and isinstance(c["text"], list) and all(x["type"] == "text" for x in c["text"])
                        and "".join(x["value"] for x in c["text"]) == t]
                if same and not any(c.get("sticky", True) for c in same):
                    report("one-time-reoffered", f"one-time choice {t!r} offered again from {v['cur']}", k)


def find_choice(p, text, target):
    for c in p.get("choices", []):
        if c["target"] == target and isinstance(c["text"], list) and all(t["type"] == "text" for t in c["text"]) \
                and "".join(t["value"] for t in c["text"]) == text:
            return c
    return None


def expected_offer(story, v):
    """Enabled passage-level choices recomputed with Python's own eval on the engine's variables."""
    p = story["passages"][v["pid"]]
    sec = v["join"].get(v["pid"], 0)
    out = []
    env = dict(v["vars"])
    env["_state"] = env
    env["_local"] = {}
    for c in p["choices"]:
        if c.get("section", 0) != sec:
            continue
        if not all(t["type"] in ("text", "expression") and ":" not in t.get("code", "") for t in c["text"]):
            return None
        try:
            text = "".join(t["value"] if t["type"] == "text" else str(eval(t["code"], {"__builtins__": {"len": len, "str": str}}, dict(env)))
                           for t in c["text"])
        except Exception:
            return None
        if not c.get("sticky", True) and f"{v['cur']}:{text}:{c['target']}" in v["used"]:
            continue
        cond = c.get("condition")
        if cond:
            try:
                if not eval(cond, {"__builtins__": {"len": len, "str": str}}, dict(env)):
                    continue
            except Exception:
                continue
        out.append((text, c["target"], c.get("args", "") or ""))
    return out


def o_c03(story, recs, report):
    for k, r in enumerate(recs[1:], 1):
        v, b = r["view"], r["before"]
        if v is None:
            continue
        if r["op"][0] == "read" and v != b:
            report("read-call-changed-state", f"read-only calls changed {[kk for kk in v if v[kk] != b[kk]]}", k)
        if r["op"][0] in ("choose", "goto") and r["obs"][0] == "ok":
            res = r.get("result")
            if res is not None and (R.canon_content(res.content) != v["content"] or res.passage_id != v["pid"]
                                    or [(c["text"], c["target"], c.get("args", "") or "") for c in res.choices] != v["choices"]):
                report("current-differs-from-last-result", "current() is not what the navigation call returned", k)
            new = tr_of(v)[len(tr_of(b)):] if tr_of(v)[:len(tr_of(b))] == tr_of(b) else None
            if new is not None:
                chain = [x for x in new if not x.startswith("H")]
                if len(set(chain)) != len(chain):
                    report("passage-entered-twice-in-one-navigation", f"entries {new}", k)


def o_c04(story, recs, report):
    for k in range(1, len(recs)):
        r = recs[k]
        v, b = r["view"], r["before"]
        if v is None:
            continue
        op = r["op"][0]
        if op == "choose" and r["obs"][0] == "ok" and v["can_redo"]:
            report("choose-kept-redo", "can_redo() is true right after a new choice", k)
        if op == "choose" and r["obs"][0] == "ok" and not v["can_undo"]:
            report("choose-not-undoable", "can_undo() false after a choice", k)
        if op in ("undo", "redo") and r["obs"] == ("bool", False) and v != b:
            report(f"{op}-noop-changed-state", f"{op}() returned False but changed state", k)
        if op == "undo" and r["obs"] == ("bool", True):
            # find the matching choose/redo that created this restore point: the previous record when it was a choose
            p = recs[k - 1]
            if p["op"][0] == "choose" and p["obs"][0] in ("ok", "exc") and p["before"] is not None:
                n = len(p["before"]["choices"])
                if 0 <= p["op"][1] < n:
                    want, got = strip_flags(p["before"]), strip_flags(v)
                    if want != got:
                        report("undo-not-exact", f"undo after choose differs in {[kk for kk in want if want[kk] != got[kk]]}", k)
                    if v["can_undo"] != p["before"]["can_undo"] and len([x for x in recs[:k] if x["op"][0] == "choose"]) < 50:
                        report("undo-availability-wrong", "can_undo() differs from before the choice", k)
                    if not v["can_redo"]:
                        report("undo-no-redo", "can_redo() false right after undo", k)
        if op == "redo" and r["obs"] == ("bool", True):
            p = recs[k - 1]
            if p["op"][0] == "undo" and p["obs"] == ("bool", True) and p["before"] is not None:
                want, got = strip_flags(p["before"]), strip_flags(v)
                if want != got:
                    report("redo-not-exact", f"redo after undo differs in {[kk for kk in want if want[kk] != got[kk]]}", k)
                if v["can_redo"] != p["before"]["can_redo"]:
                    report("redo-availability-wrong", "can_redo() after redo(undo) differs", k)
    # bound: count how many undos succeed in a row at the end is done by the thorough driver (long histories)


def o_c07(story, recs, report):
    params = set()
    for p in story["passages"].values():
        for prm in p.get("params", []) or []:
            params.add(prm["name"])
    for k, r in enumerate(recs[1:], 1):
        v = r["view"]
        if v is None:
            continue
        # (parameters named like a global - 'a', 'b' - shadow it; whether the global then keeps its value is judged by
        #  the correspondence with the model, not here)
        leaked = (params - {"a", "b", "c"}) & set(v["vars"].keys())
        if leaked:
            report("parameter-in-globals", f"parameter name(s) {sorted(leaked)} appeared in the global variables", k)
        # binding like a Python call: the PARAMS line shows what the passage saw
        if r["op"][0] == "choose" and r["obs"][0] == "ok" and r["before"] is not None:
            i = r["op"][1]
            if 0 <= i < len(r["before"]["choices"]):
                text, target, args = r["before"]["choices"][i]
                p = story["passages"].get(target)
                if p and p.get("params") and target != "@join":
                    exp = py_bind(p["params"], args, r["before"]["vars"])
                    m = re.search(r"\[" + re.escape(target) + r"\]\nPARAMS ([^\n]*)", v["raw_content"])
                    if exp is not None and m:
                        got = m.group(1).split(" ")
                        if got != [str(x) for x in exp]:
                            report("binding-not-python-call", f"{target}({args}) bound {got}, Python call rules give {exp}", k)


def py_bind(params, args, gvars):
    """Python's call rule with defaults that may use earlier parameters (independent 15-line spec)."""
    env = dict(gvars)
    env["_state"] = gvars
    try:
        pos, kw = eval(f"(lambda *a, **k: (a, k))({args})", {"__builtins__": {"len": len}}, dict(env))
    except Exception:
        return None
    out, bound = [], {}
    pos = list(pos)
    for i, prm in enumerate(params):
        if i < len(pos):
            val = pos[i]
        elif prm["name"] in kw:
            val = kw[prm["name"]]
        elif prm["default"] is not None:
            try:
                val = eval(prm["default"], {"__builtins__": {"len": len}}, {**env, **bound})
            except Exception:
                return None
        else:
            return None
        bound[prm["name"]] = val
        out.append(val)
    return out


def o_c08(story, recs, report):
    for k, r in enumerate(recs[1:], 1):
        if r["obs"][0] == "timeout":
            report("navigation-did-not-terminate", f"{r['op']} still running after the per-call alarm", k)
            continue
        v, b = r["view"], r["before"]
        if v is None or b is None:
            continue
        if r["op"][0] in ("choose", "goto") and r["obs"][0] == "ok":
            if tr_of(v)[:len(tr_of(b))] != tr_of(b):
                continue
            new = [x for x in tr_of(v)[len(tr_of(b)):] if not x.startswith("H")]
            if r["op"][0] == "choose" and 0 <= r["op"][1] < len(b["choices"]) and b["choices"][r["op"][1]][1] == "@join":
                continue
            shown = MARK.findall(v["raw_content"])
            if shown != new:
                report("chain-text-not-in-entry-order", f"passages entered {new}, markers shown {shown}", k)
            if new and v["pid"] != new[-1]:
                report("chain-final-passage-wrong", f"result is for {v['pid']}, chain ended at {new[-1]}", k)
            if "never shown" in v["raw_content"]:
                report("text-after-jump-shown", "text after a jump was rendered", k)
            for nm in new:
                p = story["passages"][nm]
                has_before = (any(t.get("type") == "text" and t.get("value") == "Before the jump." for t in p["content"])
                              and json_count(p["content"], "jump") == 1 and "{ERROR" not in v["raw_content"])
                if has_before and "Before the jump." not in v["raw_content"]:
                    report("text-before-jump-lost", f"text before the jump of {nm} is missing", k)
        if r["obs"][0] == "exc" and r["obs"][2] == "RecursionError":
            report("cycle-ended-in-RecursionError", "a jump cycle surfaced as RecursionError", k)


def json_count(ts, kind):
    n = 0
    for t in ts:
        if isinstance(t, dict):
            if t.get("type") == kind:
                n += 1
            for key in ("content", "truthy", "falsy"):
                if isinstance(t.get(key), list):
                    n += json_count(t[key], kind)
            for br in t.get("branches", []) or []:
                n += json_count(br.get("content", []), kind)
    return n


def o_c09(story, recs, report):
    touch = {}

    def touchers(h):
        if h not in touch:
            touch[h] = {nm for nm, p in story["passages"].items() if passage_touches(p, h)}
        return touch[h]

    for k, r in enumerate(recs[1:], 1):
        v, b = r["view"], r["before"]
        if v is None or b is None:
            continue
        tb, tv = tr_of(b), tr_of(v)
        op = r["op"][0]
        if op in ("read", "reset", "save", "reload") and tv != tb:
            report(f"passage-ran-on-{op}", f"{tv[len(tb):]} ran during {op}", k)
        if op == "goto" and r["obs"][0] == "ok" and tv[:len(tb)] == tb:
            target = r["op"][1].split("(")[0]
            if any(x.startswith("H") and x != target for x in tv[len(tb):]) and not target.startswith("H"):
                chain_hooks = [x for x in tv[len(tb):] if x.startswith("H")]
                # a hook passage can only be entered here through the chain itself; generated jumps never target hooks
                report("hook-ran-on-goto", f"turn_end hook(s) {chain_hooks} ran during goto", k)
        if op == "choose" and r["obs"][0] == "ok" and tv[:len(tb)] == tb:
            new = tv[len(tb):]
            ran = [x for x in new if x.startswith("H")]
            entered = set(new) | {b["pid"]}
            before = b["hooks"].get("turn_end", [])
            untouched = [h for h in before if not (touchers(h) & entered)]
            for h in untouched:
                if ran.count(h) != 1:
                    report("registered-hook-ran-%d-times" % ran.count(h),
                           f"{h} stayed registered through the turn and ran {ran.count(h)} times ({ran})", k)
            if [h for h in ran if h in untouched] != untouched:
                report("hooks-not-fifo", f"registered {before}, ran {ran}", k)
            for h in set(ran):
                if h not in before and not (touchers(h) & entered):
                    report("unregistered-hook-ran", f"{h} ran but was not registered and nothing registered it", k)
            chain_len = len([x for x in new if not x.startswith("H")])
            if ran and any(x.startswith("H") for x in new[:chain_len]):
                report("hook-ran-before-turn", f"entries {new}", k)
            hm = [m.start() for m in HOOKMARK.finditer(v["raw_content"])]
            pm = [m.start() for m in MARK.finditer(v["raw_content"])]
            if hm and pm and min(hm) < max(pm):
                report("hook-text-before-turn-text", "hook text precedes the turn's own text", k)
        for ev, l in v["hooks"].items():
            if len(set(l)) != len(l):
                report("hook-registered-twice", f"{ev}: {l}", k)


def passage_touches(p, h):
    def walk(ts):
        for t in ts:
            if not isinstance(t, dict):
                continue
            if t.get("type") == "hook" and t.get("target") == h:
                return True
            for key in ("content", "truthy", "falsy"):
                if isinstance(t.get(key), list) and walk(t[key]):
                    return True
            for br in t.get("branches", []) or []:
                if walk(br.get("content", [])):
                    return True
        return False
    if walk(p.get("execute", [])) or walk(p.get("content", [])):
        return True
    return any(walk(c.get("block_content", []) or []) for c in p.get("choices", []))


JOINTXT = re.compile(r"Join (\d+)\.(\d+)")


def o_c10(story, recs, report):
    for k, r in enumerate(recs[1:], 1):
        v, b = r["view"], r["before"]
        if v is None:
            continue
        if b is not None and b["cur"] != b["pid"]:
            continue   # a failed navigation left the position ahead of what is shown (see DESIGN, C15 notes)
        if v["pid"].startswith("J") and r["obs"][0] in ("ok", "bool"):
            sec = v["join"].get(v["pid"], 0)
            for (t, tg, a) in v["choices"]:
                m = JOINTXT.match(t)
                if m and int(m.group(1)) != sec:
                    report("choice-of-other-section-offered", f"section {sec} of {v['pid']} offers {t!r}", k)
        if r["op"][0] == "choose" and r["obs"][0] == "ok" and b is not None and 0 <= r["op"][1] < len(b["choices"]):
            t, tg, a = b["choices"][r["op"][1]]
            m = JOINTXT.match(t)
            if tg == "@join" and m:
                s, kk = int(m.group(1)), int(m.group(2))
                if v["join"].get(v["pid"], 0) != s + 1:
                    report("join-did-not-advance-one-section", f"after {t!r} the section index is {v['join'].get(v['pid'])}", k)
                if f"Section {s + 1} text" not in v["raw_content"]:
                    report("join-next-section-text-missing", f"after {t!r}: {v['raw_content']!r}", k)
                if re.search(r"Section (\d+) text", v["raw_content"]) and \
                        [int(x) for x in re.findall(r"Section (\d+) text", v["raw_content"])] != [s + 1]:
                    report("join-showed-other-section-text", f"after {t!r}: {v['raw_content']!r}", k)
                for other in re.findall(r"(?:You did it|Chosen|Fine) (\d+)\.(\d+)", v["raw_content"]):
                    if (int(other[0]), int(other[1])) != (s, kk):
                        report("join-showed-other-block", f"after {t!r} the block of {other} was shown", k)
                if v["pid"] != b["pid"]:
                    report("join-choice-left-passage", f"{b['pid']} -> {v['pid']}", k)
            elif tg != "@join" and b["pid"].startswith("J"):
                if tr_of(v)[:len(tr_of(b))] == tr_of(b):
                    new = tr_of(v)[len(tr_of(b)):]
                    if not new or new[0] != tg:
                        report("ordinary-choice-did-not-leave", f"{t!r} -> {tg} but entered {new[:1]}", k)
        # entering a join passage restarts it
        if r["op"][0] in ("choose", "goto") and r["obs"][0] == "ok" and b is not None:
            if tr_of(v)[:len(tr_of(b))] == tr_of(b):
                new = [x for x in tr_of(v)[len(tr_of(b)):] if x.startswith("J")]
                for j in new:
                    if v["join"].get(j, 0) != 0 and not (v["pid"] == j and False):
                        report("join-progress-not-reset-on-entry", f"{j} entered but its section index is {v['join'].get(j)}", k)


def o_c15(story, recs, report):
    for k in range(1, len(recs)):
        r = recs[k]
        v, b = r["view"], r["before"]
        if v is None:
            continue
        if r["op"][0] == "choose" and r["obs"][0] == "exc" and b is not None and 0 <= r["op"][1] < len(b["choices"]):
            # the engine must stay usable: the next op must not fail for an engine-internal reason
            if k + 1 < len(recs):
                nx = recs[k + 1]
                if nx["op"][0] == "undo":
                    if nx["obs"] != ("bool", True):
                        report("failed-choice-not-undoable", "undo() after a failed choice returned False", k + 1)
                    elif strip_flags(nx["view"]) != strip_flags(b):
                        want, got = strip_flags(b), strip_flags(nx["view"])
                        report("undo-after-fault-not-exact", f"differs in {[kk for kk in want if want[kk] != got[kk]]}", k + 1)
    for k, r in enumerate(recs[1:], 1):
        v = r["view"]
        if v is not None and r["obs"][0] in ("ok", "bool") and (
                "Python statement failed" in v["raw_content"] or "Error executing Python block" in v["raw_content"]
                or "in Python block" in v["raw_content"]):
            report("statement-failure-swallowed",
                   "a failing statement/block was turned into displayed text instead of raising from choose()", k)


ORACLES = {"C02": [o_common, o_c02], "C03": [o_common, o_c03], "C04": [o_common, o_c04], "C07": [o_common, o_c07],
           "C08": [o_common, o_c08], "C09": [o_common, o_c09], "C10": [o_common, o_c10], "C15": [o_common, o_c15]}

PROFILES = {
    "C02": dict(one_time=0.6, hooks=0.0, join=0.3, faults=0.05, jumps=0.2),
    "C03": dict(jumps=0.6, hooks=0.5, join=0.2),
    "C04": dict(inplace=0.8, hooks=0.5, join=0.5, params=0.4, jumps=0.4, faults=0.08),
    "C07": dict(params=0.85, jumps=0.6, faults=0.12, hooks=0.2, join=0.1),
    "C08": dict(jumps=0.85, params=0.3, hooks=0.2, join=0.2, n_passages=(3, 7)),
    "C09": dict(hooks=1.0, join=0.4, jumps=0.3, faults=0.04),
    "C10": dict(join=1.0, hooks=0.4, one_time=0.5, jumps=0.2, faults=0.2),
    "C15": dict(faults=0.3, params=0.5, hooks=0.5, join=0.3, jumps=0.4, loops=0.7),
}


def hook_commands_preserved(src, story, report):
    """Source-level oracle (independent of the engine): every @hook/@unhook line of a passage must be a hook token
    the engine will run - in the passage's execute list (top level), in its content at any depth (@if/@for) or in
    the block content of the '-> @join' choice it is written under.  A command lost by the compiler never runs."""
    def count(ts):
        n = []
        for t in ts or []:
            if not isinstance(t, dict):
                continue
            if t.get("type") == "hook":
                n.append((t.get("action"), t.get("event"), t.get("target")))
            for key in ("content", "truthy", "falsy"):
                if isinstance(t.get(key), list):
                    n += count(t[key])
            for br in t.get("branches", []) or []:
                n += count(br.get("content", []))
        return n
    cur, want = None, {}
    for line in src.split("\n"):
        st = line.strip()
        if st.startswith("::"):
            cur = st[2:].strip().split("(")[0].strip()
            want[cur] = []
        elif cur and (st.startswith("@hook ") or st.startswith("@unhook ")):
            parts = st.split()
            if len(parts) == 3:
                want[cur].append(("add" if parts[0] == "@hook" else "remove", parts[1], parts[2]))
    for name, exp in want.items():
        p = story["passages"].get(name)
        if p is None:
            continue
        got = count(p.get("execute")) + count(p.get("content"))
        for c in p.get("choices", []):
            got += count(c.get("block_content"))
        if sorted(got) != sorted(exp):
            lost = [x for x in exp if x not in got] or exp
            report("hook-command-lost-by-compiler", f"passage {name}: the source has hook commands {exp}, the compiled "
                   f"passage runs {got} (missing {lost})", 0)


def navigation_lines_preserved(src, story, report):
    """Source-level oracle for the navigation commands, independent of the engine and of the model: every jump line
    (`-> T(args)`, at any indentation, top level or inside @if/@for/join blocks) and every choice line (`+`/`*`, with or
    without its own {condition}) of a generated passage must be a jump token / a choice of the compiled passage with
    that target and argument text (jumps: content at any depth; choices: the passage's list, a branch's or a loop's
    list).  A line that the compiler turns into text is a command that never runs / a choice that is never offered."""
    def walk(ts, jumps, choices):
        for t in ts or []:
            if not isinstance(t, dict):
                continue
            if t.get("type") == "jump":
                jumps.append((t.get("target"), (t.get("args") or "").strip()))
            for c in t.get("choices", []) or []:
                choices.append((c.get("target"), (c.get("args") or "").strip(), bool(c.get("condition")), bool(c.get("sticky"))))
            for key in ("content", "truthy", "falsy"):
                if isinstance(t.get(key), list):
                    walk(t[key], jumps, choices)
            for br in t.get("branches", []) or []:
                walk(br.get("content", []), jumps, choices)
                for c in br.get("choices", []) or []:
                    choices.append((c.get("target"), (c.get("args") or "").strip(), bool(c.get("condition")), bool(c.get("sticky"))))

    def split_call(x):
        x = x.strip()
        if "(" in x and x.endswith(")"):
            return x[:x.index("(")].strip(), x[x.index("(") + 1:-1].strip()
        return x, ""
    cur, want_j, want_c = None, {}, {}
    for line in src.split("\n"):
        st = line.strip()
        if st.startswith("::"):
            cur = st[2:].strip().split("(")[0].strip()
            want_j[cur], want_c[cur] = [], []
        elif cur and st.startswith("-> "):
            want_j[cur].append(split_call(st[3:]))
        elif cur and re.match(r"^[+*] (\{.*\} )?\[", st) and "] -> " in st:
            tg, ar = split_call(st[st.rindex("] -> ") + 5:])
            want_c[cur].append((tg, ar, st[2] == "{", st[0] == "+"))
    for name in want_j:
        p = story["passages"].get(name)
        if p is None:
            continue
        jumps, choices = [], []
        walk(p.get("content"), jumps, choices)
        for c in p.get("choices", []) or []:
            choices.append((c.get("target"), (c.get("args") or "").strip(), bool(c.get("condition")), bool(c.get("sticky"))))
            walk(c.get("block_content"), jumps, choices)
        if sorted(jumps) != sorted(want_j[name]):
            lost = [x for x in want_j[name] if x not in jumps] or want_j[name]
            report("jump-line-lost-by-compiler", f"passage {name}: the source has the jump lines {want_j[name]}, the compiled "
                   f"passage has the jump tokens {jumps} (missing {lost})", 0)
        if sorted(choices) != sorted(want_c[name]):
            lost = [x for x in want_c[name] if x not in choices] or want_c[name]
            report("choice-line-lost-by-compiler", f"passage {name}: the source has the choice lines (target, args, conditional, "
                   f"sticky) {want_c[name]}, the compiled passage has {choices} (missing {lost})", 0)


def gen_ops_for(pid, rng, n):
    ops = []
    for _ in range(n):
        k = rng.random()
        if pid in ("C04", "C15") and k < 0.25 and ops and ops[-1][0].startswith("choose"):
            ops.append(("undo",))
            if rng.random() < 0.5:
                ops.append(("redo",))
            continue
        if pid == "C03" and k < 0.3:
            ops.append(("read",))
            continue
        if pid == "C02" and k < 0.2:
            ops.append(("choose", rng.choice([-1, -3, 50, 7, 10 ** 9, 4])))
            continue
        ops.extend(G.gen_ops(rng, 1, saveload=True))
    return ops


def alias_phase(chk, rng, n):
    """C04 on stories whose variables SHARE mutable objects (two names for one list, a dict holding that list):
    outside the Gallina model (its values are immutable trees), so judged by a model-independent law on the real
    engine: a play-through with 'undo, then the same choice again' or 'undo, redo' inserted after any choice must end
    in exactly the situation of the straight play-through - which it does iff every restore point preserves the
    sharing structure of the variables as well as their values."""
    stats = {"stories": 0, "inserted": 0, "compared_steps": 0}
    cls = R.engine_class()
    for _ in range(n):
        sub = rng.randrange(10 ** 9)
        r = random.Random(sub)
        g = G.Gen(r, G.Profile(inplace=1.0, hooks=0.3, join=0.3, params=0.3, jumps=0.3, faults=0.0, loops=0.4))
        lines = g.source().split("\n")
        out = []
        for l in lines:
            out.append(l)
            if l == "~ hk = 0":
                out += ["~ ys = xs", "~ box = {'items': xs, 'table': d}", "~ d2 = d", "~ pair = [xs, xs]",
                        # an object of a Python class shared by two variables, and a bound method of it kept in a variable
                        "~ bag = Inventory()", "~ holder = {'inv': bag}", "~ pick = bag.add"]
            elif l.startswith("[") and l.endswith("]") and not l.startswith("[H"):
                if r.random() < 0.5:
                    out.append("~ pick({'name': 'k', 'weight': 1})")
                out.append("Alias {ys} {box['items']} {box['table']} {d2} {pair} {len(bag.items)} {len(holder['inv'].items)}")
                if r.random() < 0.5:
                    # a directive whose arguments ARE live story objects (mutated in place by later passages)
                    out.append(r.choice(["@render panel(xs)", "@render panel(box, k=ys)", "@render card(d, k=pair)"]))
        src = "from bardic.stdlib.inventory import Inventory\n\n" + "\n".join(out)
        try:
            story = R.compile_story(src)
        except Exception:
            continue
        stats["stories"] += 1
        base = [("choose_valid", r.randint(0, 5)) for _ in range(r.randint(2, 7))]
        ra, _ = R.run_history(story, base)
        if any(x["obs"][0] != "ok" for x in ra):
            continue
        j = r.randrange(len(base))
        ins = r.choice([[("undo",), base[j]], [("undo",), ("redo",)], [("undo",), base[j], ("undo",), ("redo",)]])
        rb, _ = R.run_history(story, base[:j + 1] + ins + base[j + 1:])
        stats["inserted"] += 1
        # a successful undo right after a choice shows exactly what was shown before that choice (text, choices AND the
        # data of render directives, whose arguments may be live story objects that the undone choice mutated in place)
        for t in range(2, len(rb)):
            if rb[t]["op"][0] == "undo" and rb[t]["obs"] == ("bool", True) and rb[t - 1]["op"][0] == "choose" \
                    and rb[t - 1]["obs"][0] == "ok" and rb[t - 1].get("before") and rb[t]["view"]:
                u, w = strip_flags(rb[t]["view"]), strip_flags(rb[t - 1]["before"])
                for vv in (u, w):
                    vv["vars"] = {kk: x for kk, x in vv["vars"].items() if kk not in ("bag", "holder", "pick")}
                if u != w:
                    diff = [kk for kk in u if u[kk] != w.get(kk)]
                    chk.report("undo-not-exact:shared-objects:" + ",".join(sorted(diff)),
                               f"undo after a choice differs from the situation before it in {diff} (variables share objects; "
                               "directive arguments are live objects)",
                               {"subseed": sub, "story_source": src, "ops": [x["op"] for x in rb[1:t + 1]]})
                    break
        # align: steps of A after j correspond to steps of B after j + len(ins)
        for k in range(j + 1, len(ra)):
            kb = k + len(ins)
            if kb >= len(rb) or ra[k]["view"] is None or rb[kb]["view"] is None:
                break
            stats["compared_steps"] += 1
            va, vb = strip_flags(ra[k]["view"]), strip_flags(rb[kb]["view"])
            for vv in (va, vb):        # class instances compare by identity: what they hold is shown in the text instead
                vv["vars"] = {kk: x for kk, x in vv["vars"].items() if kk not in ("bag", "holder", "pick")}
            # record j+1 is choice j itself: in B the same position is the last inserted operation (views only)
            if (k > j + 1 and ra[k]["obs"] != rb[kb]["obs"]) or va != vb:
                diff = [kk for kk in va if va[kk] != vb[kk]]
                chk.report("restore-point-lost-sharing" if diff in (["vars"], ["content"], ["vars", "content"]) else
                           "undo-then-replay-differs",
                           f"with {[o[0] for o in ins]} inserted after choice {j}, step {k} differs in {diff} from the straight "
                           "play-through (two variables that shared one object no longer do after the restore)",
                           {"subseed": sub, "story_source": src, "ops": [x['op'] for x in ra[1:]], "inserted_after": j,
                            "inserted": ins})
                break
        chk.count(("alias", sub), True)
    return stats


def pyblock_syntax_phase(chk, rng, n):
    """A Python block (or ~ statement) reached during a choice that Python rejects before running it - at the parser
    stage (`x = = 1`), at the compiler stage with no source text attached (`return` / `break` outside a function or
    loop, `global` after use), or by raising SyntaxError itself - is a failing block like any other: choose() raises
    RuntimeError or ValueError, the engine stays usable, one undo restores the pre-choice situation."""
    bad = ["x = = 1", "return 5", "break", "continue", "a = 1\nglobal a", "def f(:\n    pass", "1 +", "raise SyntaxError('author')",
           "yield 3", "await q", "nonlocal zz", "x = (1,", "import", "f(**)"]
    stats = {"cases": 0, "kinds": {}}
    for _ in range(n):
        code = rng.choice(bad)
        host = rng.choice(["py-top", "py-in-if", "py-in-for", "py-in-hook", "py-in-join-block"])
        blk = ["@py:"] + code.split("\n") + ["@endpy"]
        ind = lambda ls: ["    " + l for l in ls]  # noqa
        if host == "py-top":
            bad_p = [":: Bad", "Bad text"] + blk + ["+ [Back] -> Start"]
        elif host == "py-in-if":
            bad_p = [":: Bad", "Bad text", "@if a >= 0:"] + ind(blk) + ["@endif", "+ [Back] -> Start"]
        elif host == "py-in-for":
            bad_p = [":: Bad", "Bad text", "@for i in [1, 2]:"] + ind(blk) + ["@endfor", "+ [Back] -> Start"]
        elif host == "py-in-hook":
            bad_p = [":: Bad", "@hook turn_end Hk", "Bad text", "+ [Back] -> Start", "", ":: Hk"] + blk
        else:
            bad_p = [":: Bad", "Bad text", "+ [J] -> @join"] + ind(blk) + ["@join", "after", "+ [Back] -> Start"]
        src = "\n".join([":: Start", "~ a = 1", "~ xs = [1]", "Start text {a}", "+ [Go bad] -> Bad", "+ [Go ok] -> Ok", "",
                          ":: Ok", "~ a = a + 1", "Ok {a}", "+ [Back] -> Start", ""] + bad_p)
        try:
            story = R.compile_story(src)
        except (SyntaxError, ValueError):
            stats["kinds"]["rejected-at-compile"] = stats["kinds"].get("rejected-at-compile", 0) + 1
            continue
        ops = [("choose", 0)] + ([("choose", 0)] if host == "py-in-join-block" else []) + [("undo",), ("choose", 1), ("read",)]
        if host == "py-in-hook":
            ops = [("choose", 0), ("choose", 0), ("undo",), ("read",)]
        recs, eng = R.run_history(story, ops)
        stats["cases"] += 1
        key = f"{host}:{code.split()[0]}"
        stats["kinds"][key] = stats["kinds"].get(key, 0) + 1
        chk.count(("pysyn", host, code), True)
        failing = [x for x in recs[1:] if x["op"][0] == "choose" and x["obs"][0] == "exc"]
        if not failing:
            chk.report(f"statement-failure-swallowed:{host}", f"a Python block holding {code!r} ({host}) was reached and no call "
                       "raised", {"story_source": src, "ops": ops, "obs": [x["obs"] for x in recs[1:]]})
            continue
        for x in failing:
            if x["obs"][1] not in ("RuntimeError", "ValueError"):
                chk.report(f"choose-raised-{x['obs'][2] if len(x['obs']) > 2 else x['obs'][1]}",
                           f"a Python block holding {code!r} ({host}) made choose() raise {x['obs']} instead of RuntimeError / "
                           "ValueError", {"story_source": src, "ops": ops, "obs": [y["obs"] for y in recs[1:]]})
        # undo after the failure restores the situation before the failing choice
        k = next(i for i, x in enumerate(recs) if x["op"][0] == "choose" and x["obs"][0] == "exc")
        if k + 1 < len(recs) and recs[k + 1]["op"][0] == "undo" and recs[k]["before"] is not None and recs[k + 1]["view"] is not None:
            if strip_flags(recs[k + 1]["view"]) != strip_flags(recs[k]["before"]):
                diff = [kk for kk in strip_flags(recs[k]["before"]) if strip_flags(recs[k]["before"])[kk] != strip_flags(recs[k + 1]["view"]).get(kk)]
                chk.report("undo-after-fault-not-exact", f"after the failing choice ({host}, {code!r}) one undo does not restore {diff}",
                           {"story_source": src, "ops": ops})
    # branch and choice conditions that the compiler accepts but that are not valid expressions (`=` typed for `==`, a
    # dangling operator): the branch is skipped / the choice hidden, nothing is raised
    for _ in range(max(6, n // 3)):
        cond = rng.choice(["a = 1", "a +", "a ==", "(a", "a b", "not", "a ===1"])
        host = rng.choice(["if", "elif", "choice", "inline"])
        if host == "if":
            body = [f"@if {cond}:", "    yes-branch", "@else:", "    no-branch", "@endif"]; want_in, want_out = "no-branch", "yes-branch"
        elif host == "elif":
            body = ["@if a > 5:", "    big", f"@elif {cond}:", "    yes-branch", "@else:", "    no-branch", "@endif"]; want_in, want_out = "no-branch", "yes-branch"
        elif host == "choice":
            body = ["plain", "+ {" + cond + "} [Hidden] -> Start"]; want_in, want_out = "plain", None
        else:
            body = ["Inline {" + cond + " ? yes-branch | other}"]; want_in, want_out = "Inline", None
        src = "\n".join([":: Start", "~ a = 1", "Start text", "+ [Go] -> T", "", ":: T", "T text"] + body + ["+ [Back] -> Start"])
        try:
            story = R.compile_story(src)
        except (SyntaxError, ValueError):
            stats["kinds"]["cond-rejected-at-compile"] = stats["kinds"].get("cond-rejected-at-compile", 0) + 1
            continue
        recs, eng = R.run_history(story, [("choose", 0), ("undo",), ("choose", 0)])
        stats["cases"] += 1
        chk.count(("condsyn", host, cond), True)
        first = recs[1]
        if first["obs"][0] == "exc" and first["obs"][1] not in ("RuntimeError", "ValueError"):
            chk.report(f"choose-raised-{first['obs'][2] if len(first['obs']) > 2 else first['obs'][1]}",
                       f"a {host} condition that is not a valid expression ({cond!r}) made choose() raise {first['obs']}",
                       {"story_source": src})
        elif first["obs"][0] == "ok":
            txt = first["view"]["raw_content"]
            shown = [c[0] for c in first["view"]["choices"]]
            if (want_out and want_out in txt) or (host in ("if", "elif") and want_in not in txt) or (host == "choice" and "Hidden" in shown):
                chk.report(f"unevaluable-condition-not-skipped:{host}", f"{host} condition {cond!r}: shown {txt!r}, choices {shown}",
                           {"story_source": src})
    return stats


DEPTH_STORY = """:: Start
~ n = 0
[Start]
+ [Go] -> A
+ [Stay] -> Start

:: A
~ n = n + 1
[A] {n}
+ [Back] -> Start
+ [Again] -> A
"""


def depth_bound_phase(chk, rng):
    """'At most the 50 most recent choices can be undone' after EVERY kind of earlier history: the bound is a property of
    the engine, not of a freshly constructed one.  A prefix (nothing / save + load into the same engine / a fresh engine
    loaded from the save / a rejected load / undo-redo traffic / goto / reset), then 56 choices, then 60 undos: exactly
    50 succeed and the 51st changes nothing."""
    story = R.compile_story(DEPTH_STORY)
    prefixes = {"none": [], "save-load": [("choose_valid", 0), ("save",), ("choose_valid", 1), ("load",)],
                "reload": [("choose_valid", 0), ("reload",)], "rejected-load": [("choose_valid", 0), ("badload", 3)],
                "undo-redo": [("choose_valid", 0), ("choose_valid", 1), ("undo",), ("redo",), ("undo",)],
                "goto": [("goto_valid", 1)], "reset": [("choose_valid", 0), ("reset",)],
                "raw-save-load": [("choose_valid", 0), ("save", "raw"), ("load",)]}
    stats = {}
    for name, pre in prefixes.items():
        ops = pre + [("choose_valid", rng.randint(0, 1)) for _ in range(56)] + [("undo",)] * 60
        recs, eng = R.run_history(story, ops)
        tail = recs[len(pre) + 1 + 56:]
        ok = sum(1 for x in tail if x["obs"] == ("bool", True))
        stats[name] = ok
        chk.count(("depth", name), True)
        if ok != 50:
            chk.report(f"undo-depth-bound:after={name}", f"after the prefix {name!r} and 56 choices, {ok} undos succeeded (expected "
                       "exactly 50)", {"story_source": DEPTH_STORY, "ops": ops})
    return stats


def deepcopy_phase(chk, rng, n):
    """The snapshot copier of the engine (_copy_state: copy.deepcopy of the whole state with ONE memo, import bindings
    kept by reference) against Codec/DeepCopy.v, for which Props/C04.v proves: only new cells, same value, sharing
    preserved exactly (an injective renaming).  Random states whose containers are shared between and inside
    variables; the real copy is printed as a cell-identified term and compared INSIDE Coq with `snapshot k s`
    (dcase_bad), and the three proved properties are evaluated on the real copy directly (dcase_props_bad) - the
    latter is the failing-input search: a flagged case is a concrete state on which a restore point does not keep
    the sharing structure / value / independence."""
    from . import deepcopy_tie as D
    cs = D.repo_copy_state()
    stats = {"cases": 0, "with_sharing_between_variables": 0, "with_plain_objects": 0, "unsupported": 0}
    for shard in range(0, n, 150):
        m = min(150, n - shard)
        r = random.Random(rng.randrange(10 ** 9))
        states, terms = [], []
        for i in range(m):
            st = D.gen_state(r, bindings=(i % 2 == 1))
            try:
                terms.append(D.case_term(st, cs))
            except D.Unsupported:
                stats["unsupported"] += 1
                continue
            states.append(st)
            stats["cases"] += 1
            stats["with_sharing_between_variables"] += bool(D.shares_between_variables(st))
            stats["with_plain_objects"] += any(D.is_plain_object(o) for o in D._walk(st))
            chk.count(("deepcopy", repr(terms[-1])), D.shares_anything(st))
        sdir = os.path.join(chk.scratch, f"deepcopy_{shard}")
        os.makedirs(sdir, exist_ok=True)
        try:
            bad, shown, log = D.run_cases(terms, scratch=sdir)
        except RuntimeError as ex:
            chk.disagree("deepcopy-coqc", "the deepcopy cases failed to evaluate", {"log": str(ex)[-1500:]})
            continue
        for i in bad.get("dcase_props_bad", []):
            chk.report("restore-point-lost-sharing",
                       "the engine's snapshot copier returned a copy that shares a cell with the game, denotes another value, "
                       "or has another sharing pattern than the state it copied",
                       {"state_term": terms[i][:3000], "model_vs_real": shown.get(i)})
        for i in bad.get("dcase_bad", []):
            if i not in bad.get("dcase_props_bad", []):
                chk.disagree("snapshot-copier-vs-DeepCopy-model",
                             "the engine's _copy_state and Codec/DeepCopy.v (snapshot k s) differ on a state",
                             {"state_term": terms[i][:3000], "model_vs_real": shown.get(i)})
    return stats


CALL_SITE_KINDS = ["choice", "jump", "choice-in-if", "jump-in-if", "choice-in-for", "jump-in-for"]


def _call_site_story(site, call, sig, shown):
    """(source, ops): a story whose only call of T(sig) is `call`, written at a call site of kind `site`, and the
    history that makes the call; T shows the parameters `shown` separated by blanks."""
    body = {"choice": f"+ [Go] -> {call}", "jump": f"-> {call}",
            "choice-in-if": f"@if True:\n    + [Go] -> {call}\n@endif",
            "jump-in-if": f"@if True:\n    Text\n    -> {call}\n@endif",
            "choice-in-for": f"@for i in [1]:\n    + [Go] -> {call}\n@endfor",
            "jump-in-for": f"@for i in [1]:\n    -> {call}\n@endfor"}[site]
    show = " ".join("{" + nm + "}" for nm in shown)
    target = f":: T({sig})\nT shows {show} end\n+ [Back] -> Start\n"
    if site.startswith("jump"):
        return f":: Start\n+ [In] -> Mid\n\n:: Mid\nMid text\n{body}\n\n{target}", [("choose", 0)]
    return f":: Start\nStart text\n{body}\n\n{target}", [("choose", 0)]


def _python_call(sig, names, args):
    """What Python itself does with `T(args)` for `def T(sig)`: ('ok', [values in parameter order]) or
    ('error', exception class name) -- CPython is the oracle, nothing of bardic is involved."""
    ns = {}
    try:
        exec(f"def T({sig}): return [{', '.join(names)}]", ns)
        return ("ok", eval(compile(f"T({args})", "<call>", "eval"), ns))
    except (SyntaxError, TypeError) as e:
        return ("error", type(e).__name__)


def repeated_keyword_family(chk, rng, n):
    """Fix F07e.  A call that is valid by Python's rules except that ONE keyword is written twice (`T(1, q=2, q=3)`):
    CPython refuses to compile such a call ("keyword argument repeated"), so the story compiler must refuse it too
    (before the fix ast.parse let it through, the validator's dict hid the repetition and the engine bound the last
    value).  Control: the same call without the repetition must compile and show the values Python binds."""
    stats = {"cases": 0, "rejected": 0, "accepted": 0, "controls_ok": 0, "sites": {}}
    for _ in range(n):
        k = rng.randint(1, 4)
        names = ["p", "q", "r", "s"][:k]
        nreq = rng.randint(0, k)
        sig = ", ".join(nm if i < nreq else f"{nm}={10 + i}" for i, nm in enumerate(names))
        npos = rng.randint(0, k - 1)
        kws = [nm for i, nm in enumerate(names) if i >= npos and (i < nreq or rng.random() < 0.6)]
        if not kws:
            kws = [names[-1]]
        order = kws[:]
        rng.shuffle(order)
        vals = {nm: rng.randint(0, 9) for nm in order}
        good = [str(rng.randint(0, 9)) for _ in range(npos)] + [f"{nm}={vals[nm]}" for nm in order]
        rep = rng.choice(order)
        where = rng.choice(["adjacent", "last", "first-keyword"])
        again = f"{rep}={rng.choice([vals[rep], vals[rep] + 1, vals[rep] + 7])}"      # the same value again, or another
        kwpart = good[npos:]
        at = {"adjacent": kwpart.index(f"{rep}={vals[rep]}") + 1, "last": len(kwpart), "first-keyword": 0}[where]
        bad = good[:npos] + kwpart[:at] + [again] + kwpart[at:]
        site = rng.choice(CALL_SITE_KINDS)
        stats["sites"][site] = stats["sites"].get(site, 0) + 1
        good_args, bad_args = ", ".join(good), ", ".join(bad)
        py_good, py_bad = _python_call(sig, names, good_args), _python_call(sig, names, bad_args)
        if py_good[0] != "ok" or py_bad != ("error", "SyntaxError"):
            raise AssertionError(f"generator: {sig!r} {good_args!r} {bad_args!r} -> {py_good} {py_bad}")
        stats["cases"] += 1
        chk.count(("repeated-keyword", sig, bad_args, site), True)
        # the call with the repeated keyword
        src, ops = _call_site_story(site, f"T({bad_args})", sig, names)
        try:
            story = R.compile_story(src)
        except (SyntaxError, ValueError):
            stats["rejected"] += 1
        else:
            stats["accepted"] += 1
            recs, _ = R.run_history(story, ops)
            v = recs[-1]["view"]
            line = next((l for l in (v["content"] if v else "").split("\n") if l.startswith("T shows")), recs[-1]["obs"])
            chk.report(f"invalid-call-accepted-by-compiler:repeated-keyword:site={site}",
                       f"'T({bad_args})' repeats the keyword '{rep}' (CPython: SyntaxError 'keyword argument repeated') but the "
                       f"story compiles; playing it gives {line!r}",
                       {"story_source": src, "ops": ops, "signature": sig, "args": bad_args})
        # control: without the repetition
        src, ops = _call_site_story(site, f"T({good_args})", sig, names)
        try:
            story = R.compile_story(src)
        except (SyntaxError, ValueError):
            chk.report(f"valid-call-rejected-by-compiler:site={site}",
                       f"'T({good_args})' is a valid Python call of T({sig}) but the story does not compile",
                       {"story_source": src, "signature": sig, "args": good_args})
            continue
        recs, _ = R.run_history(story, ops)
        v = recs[-1]["view"]
        want = "T shows " + " ".join(str(x) for x in py_good[1]) + " end"
        if recs[-1]["obs"][0] != "ok" or v is None or want not in v["content"].split("\n"):
            chk.report(f"compiled-call-binds-unlike-python:site={site}",
                       f"'T({good_args})' against T({sig}): Python binds {py_good[1]}, the engine shows "
                       f"{[l for l in (v['content'] if v else '').split(chr(10)) if l.startswith('T shows')] or recs[-1]['obs']}",
                       {"story_source": src, "ops": ops, "signature": sig, "args": good_args})
        else:
            stats["controls_ok"] += 1
    return stats


RESERVED_NAMES = ["arg_0", "arg_1", "arg_2", "arg_12", "arg_100"]
# near misses: not of the form arg_<digits>, so never a key under which the engine files a positional argument
SIMILAR_NAMES = ["arg_x", "arg", "my_arg_0", "arg_0x", "arg_", "_arg_0", "Arg_0", "ARG_1", "arg__0", "arg_0_", "xarg_0",
                 "args_0", "arg0", "arg_o", "arg_1a"]


def reserved_name_family(chk, rng, n):
    """Fix F07d.  _parse_directive_args files positional argument number i under the key arg_<i> in the same dict as the
    keyword arguments, so a parameter of exactly such a name is mistaken for a positional argument: the compiler must
    refuse a header that has one (any position, with or without a default).  Names that only look similar must still
    be accepted AND bind as Python binds them (CPython's own `def T(sig)` / `T(args)` is the oracle)."""
    stats = {"reserved": {"cases": 0, "rejected": 0, "accepted": 0}, "similar": {"cases": 0, "compiled": 0, "bound_ok": 0}}
    others = ["p", "q", "r"]
    for j in range(n):
        reserved = j % 2 == 0
        name = rng.choice(RESERVED_NAMES if reserved else SIMILAR_NAMES)
        assert reserved == any(name == f"arg_{i}" for i in range(1000))
        k = rng.randint(1, 4)
        at = rng.randrange(k)
        names = others[:at] + [name] + others[at:k - 1]
        nreq = rng.randint(0, k)
        optional = at >= nreq
        sig = ", ".join(nm if i < nreq else f"{nm}={20 + i}" for i, nm in enumerate(names))
        # a call that is valid by Python's rules: some positional values, the rest of the required ones by keyword
        npos = rng.randint(0, k)
        kws = [nm for i, nm in enumerate(names) if i >= npos and (i < nreq or rng.random() < 0.5)]
        rng.shuffle(kws)
        args = ", ".join([str(rng.randint(1, 9)) for _ in range(npos)] + [f"{nm}={rng.randint(1, 9)}" for nm in kws])
        py = _python_call(sig, names, args)
        if py[0] != "ok":
            raise AssertionError(f"generator: {sig!r} {args!r} -> {py}")
        site = rng.choice(CALL_SITE_KINDS)
        src, ops = _call_site_story(site, f"T({args})", sig, names)
        place = "only" if k == 1 else "first" if at == 0 else "last" if at == k - 1 else "middle"
        kind = "optional" if optional else "required"
        chk.count(("parameter-name", name, place, kind, args, site), True)
        cls = stats["reserved" if reserved else "similar"]
        cls["cases"] += 1
        try:
            story = R.compile_story(src)
        except (SyntaxError, ValueError) as e:
            if reserved:
                cls["rejected"] += 1
            else:
                chk.report(f"similar-parameter-name-rejected:{kind}",
                           f"a header with the parameter '{name}' (not of the form arg_<digits>) does not compile: "
                           f"{str(e).splitlines()[0][:120]}", {"story_source": src, "signature": sig})
            continue
        recs, _ = R.run_history(story, ops)
        v = recs[-1]["view"]
        shown = [l for l in (v["content"] if v else "").split("\n") if l.startswith("T shows")] or [repr(recs[-1]["obs"])]
        want = "T shows " + " ".join(str(x) for x in py[1]) + " end"
        if reserved:
            cls["accepted"] += 1
            chk.report(f"reserved-parameter-name-accepted:{kind}",
                       f"the header ':: T({sig})' has a parameter named like the engine's positional marker '{name}' and "
                       f"compiles; 'T({args})': Python binds {py[1]}, the engine shows {shown[0]!r}",
                       {"story_source": src, "ops": ops, "signature": sig, "args": args})
            continue
        cls["compiled"] += 1
        if shown[0] != want:
            chk.report(f"compiled-call-binds-unlike-python:site={site}",
                       f"'T({args})' against T({sig}): Python binds {py[1]}, the engine shows {shown[0]!r}",
                       {"story_source": src, "ops": ops, "signature": sig, "args": args})
        else:
            cls["bound_ok"] += 1
    return stats


def call_shape_phase(chk, rng, n):
    """C07 last clause: a story that compiles never fails at run time for a missing, surplus, unknown or doubly
    supplied argument.  Random signatures x call shapes x call-site kinds (top-level / nested choice or jump).
    Then the initial-passage family, and the two families of fixes F07e / F07d (a repeated keyword, a parameter named
    like a positional marker)."""
    stats = {"compiled": 0, "rejected": 0, "ran_ok": 0, "sites": {}}
    for _ in range(n):
        k = rng.randint(1, 4)
        names = ["p", "q", "r", "s"][:k]
        nreq = rng.randint(0, k)
        sig = ", ".join(nm if i < nreq else f"{nm}={rng.choice(['0', '1', 'p + 1' if i > 0 else '2'])}" for i, nm in enumerate(names))
        npos = rng.randint(0, k + 1)
        kws = [nm for nm in names + ["zz"] if rng.random() < 0.35]
        def argval():
            # mostly small integers; also values that are None (a supplied argument all the same), nested calls and string
            # literals holding parentheses / commas / equals signs (the call is split by parenthesis scans on both sides)
            if rng.random() < 0.6 or "p + 1" in sig:      # a default that computes with p needs a number there
                return str(rng.randint(0, 9))
            if rng.random() < 0.4:
                return rng.choice(["None", "nothing"])
            return rng.choice(["None", "nothing", "max(1, 2)", "(3)", "[1, 2]", "'a, b'", "'k=v'", "'f(x)'", "'hi :)'",
                               '"(unclosed"', "'x)'", "{'k': (1, 2)}['k'][0]"])
        vals_special = False
        pos_vals = [argval() for _ in range(npos)]
        kw_vals = [rng.choice(["None", "nothing"]) if rng.random() < 0.2 and "p + 1" not in sig else argval() for _ in kws]
        vals_special = any(not v.isdigit() for v in pos_vals + kw_vals)
        # a string literal with an unbalanced parenthesis: both sides split the call with quote-unaware parenthesis scans,
        # so the compiler may refuse such a call (a restriction of the language, not a binding failure) - but if it
        # compiles, it must bind like every other call
        unbalanced = any(v in ('"(unclosed"', "'x)'", "'hi :)'") for v in pos_vals + kw_vals)
        args = ", ".join(pos_vals + [f"{nm}={v}" for nm, v in zip(kws, kw_vals)])
        site = rng.choice(["choice", "jump", "choice-in-if", "jump-in-if", "choice-in-for", "jump-in-for"])
        call = f"T({args})"
        body = {"choice": f"+ [Go] -> {call}", "jump": f"-> {call}",
                "choice-in-if": f"@if True:\n    + [Go] -> {call}\n@endif",
                "jump-in-if": f"@if True:\n    Text\n    -> {call}\n@endif",
                "choice-in-for": f"@for i in [1]:\n    + [Go] -> {call}\n@endfor",
                "jump-in-for": f"@for i in [1]:\n    -> {call}\n@endfor"}[site]
        shown = "|".join("{" + nm + "}" for nm in names)
        if site.startswith("jump"):
            src = (f":: Start\n~ nothing = None\n+ [In] -> Mid\n\n:: Mid\nMid text\n{body}\n\n:: T({sig})\nT text {{{names[0]}}}\n"
                   f"BOUND {shown}\n+ [Back] -> Start\n")
            ops = [("choose", 0)]
        else:
            src = (f":: Start\n~ nothing = None\nStart text\n{body}\n\n:: T({sig})\nT text {{{names[0]}}}\nBOUND {shown}\n"
                   f"+ [Back] -> Start\n")
            ops = [("choose", 0)]
        stats["sites"][site] = stats["sites"].get(site, 0) + 1
        # Python's own call rule for this signature and this call shape (independent of the compiler's validator)
        reason = None
        if npos > k:
            reason = "surplus-positional"
        elif any(nm not in names for nm in kws):
            reason = "unknown-keyword"
        elif any(nm in names[:npos] for nm in kws):
            reason = "positional-and-keyword"
        elif any(i >= npos and nm not in kws for i, nm in enumerate(names[:nreq])):
            reason = "missing-required"
        try:
            story = R.compile_story(src)
        except (SyntaxError, ValueError):
            stats["rejected"] += 1
            chk.count(("shape", sig, args, site), False)
            if reason is None and not unbalanced:
                chk.report(f"valid-call-rejected-by-compiler:site={site}",
                           f"'{call}' is a valid Python call of T({sig}) but the story does not compile",
                           {"story_source": src, "signature": sig, "args": args})
            continue
        if reason is not None:
            chk.report(f"invalid-call-accepted-by-compiler:{reason}:site={site}",
                       f"'{call}' is not a valid call of T({sig}) by Python's rules ({reason}) but the story compiles",
                       {"story_source": src, "signature": sig, "args": args})
        stats["compiled"] += 1
        recs, _ = R.run_history(story, ops)
        last = recs[-1]
        chk.count(("shape", sig, args, site), True)
        if last["obs"][0] == "exc" and last["obs"][1] == "ValueError":
            shape = ("missing" if npos + len([x for x in kws if x in names]) < nreq or True else "")
            chk.report(f"compiled-call-fails-to-bind:site={site}",
                       f"'{call}' against T({sig}) compiled but choose() raised ValueError at run time",
                       {"story_source": src, "ops": ops, "signature": sig, "args": args})
        else:
            stats["ran_ok"] += 1
            # ... and binds as Python binds: the values the passage sees are those of `def T(sig)` called with these arguments
            ns = {"nothing": None}
            try:
                exec(f"def T({sig}): return [{', '.join(names)}]", ns)
                want = "BOUND " + "|".join(str(x) for x in eval(f"T({args})", ns))
            except Exception:  # noqa
                want = None
            got = [l for l in ((last["view"] or {}).get("raw_content") or "").split("\n") if l.startswith("BOUND ")]
            if want is not None and last["obs"][0] == "ok" and got[:1] != [want]:
                chk.report(f"call-binds-differently-from-python:site={site}",
                           f"'{call}' against T({sig}): the passage sees {got[:1]}, Python binds {want!r}",
                           {"story_source": src, "ops": ops, "signature": sig, "args": args})
            if vals_special:
                stats["special_values"] = stats.get("special_values", 0) + 1
    # a default is evaluated at every call (Python evaluates it once; bardic documents defaults as expressions evaluated when
    # the passage is entered): a mutable literal default mutated by the body must be fresh on the next call
    for dflt, mut, shown in (("[]", "acc.append(p)", "[{p}]"), ("{}", "acc['k'] = p", "{{'k': {p}}}"), ("[0]", "acc.append(p)", "[0, {p}]")):
        src = (":: Start\n+ [One] -> T(1)\n+ [Two] -> T(2)\n\n" + f":: T(p, acc={dflt})\n~ {mut}\nACC {{acc}}\n+ [Back] -> Start\n")
        try:
            story = R.compile_story(src)
        except (SyntaxError, ValueError):
            continue
        recs, _ = R.run_history(story, [("choose", 0), ("choose", 0), ("choose", 1), ("choose", 0), ("choose", 0)])
        texts = [x["view"]["raw_content"] for x in recs if x["view"] and x["view"]["pid"] == "T"]
        want = ["ACC " + shown.format(p=1), "ACC " + shown.format(p=2), "ACC " + shown.format(p=1)]
        got = [next((l for l in t.split("\n") if l.startswith("ACC ")), None) for t in texts]
        chk.count(("mutable-default", dflt), True)
        if got != want:
            chk.report("parameter-default-lingers-between-calls", f"T(p, acc={dflt}) called three times relying on the default shows {got}, "
                       f"expected {want}", {"story_source": src})
    # the initial passage is entered without arguments: every way of designating it x every signature
    stats["initial"] = {"rejected": 0, "started": 0}
    for _ in range(max(12, n // 8)):
        k = rng.randint(1, 3)
        names = ["p", "q", "r"][:k]
        nreq = rng.randint(0, k)
        sig = ", ".join(nm if i < nreq else f"{nm}={rng.choice(['0', '1', 'p + 1' if i > 0 else '2'])}" for i, nm in enumerate(names))
        how = rng.choice(["first-passage", "Start", "@start"])
        body = f"Room {{{names[0]}}}\n+ [Go] -> Other\n\n:: Other\nother\n+ [Back] -> Other\n"
        src = {"first-passage": f":: Room({sig})\n{body}", "Start": f":: Intro\ni\n+ [Go] -> Other\n\n:: Start({sig})\n{body}",
               "@start": f"@start Room\n:: Intro\ni\n+ [Go] -> Other\n\n:: Room({sig})\n{body}"}[how]
        try:
            story = R.compile_story(src)
        except (SyntaxError, ValueError):
            stats["initial"]["rejected"] += 1
            if nreq == 0:
                chk.report(f"startable-initial-passage-rejected:{how}", f"initial passage ({sig}) has only defaulted parameters "
                           "but the story does not compile", {"story_source": src})
            continue
        if nreq > 0:
            chk.report(f"initial-passage-requires-arguments-accepted:{how}",
                       f"the story starts in a passage with required parameter(s) ({sig}) and compiles: it cannot be started",
                       {"story_source": src})
            continue
        recs, eng = R.run_history(story, [])
        if eng is None:
            chk.report(f"compiled-story-cannot-start:{how}", f"BardEngine(story) failed: {recs[0].get('error', recs[0]['obs'])}",
                       {"story_source": src})
        else:
            stats["initial"]["started"] += 1
        chk.count(("initial", how, sig), True)
    # fixes F07e / F07d.  Drawn from a generator split off chk.rng whose state is put back afterwards, so that the case
    # streams of the families above and of the main loop stay what they were for every seed.
    saved = rng.getstate()
    r2 = random.Random(rng.getrandbits(64))
    rng.setstate(saved)
    stats["repeated_keyword"] = repeated_keyword_family(chk, r2, max(40, n // 3))
    stats["reserved_names"] = reserved_name_family(chk, r2, max(60, n // 2))
    return stats


ALLF = {"obs", "cur", "vars", "used", "hooks", "join", "content", "choices", "pid", "render", "input",
        "can_undo", "can_redo", "depth", "length"}
RELEVANT = {
    "C02": {"choices", "used", "obs", "can_undo", "can_redo", "length"},
    "C03": {"vars", "content", "choices", "pid", "cur", "length"},
    "C04": ALLF,
    "C07": {"vars", "depth", "obs", "content", "length"},
    "C08": {"content", "choices", "pid", "cur", "obs", "render", "input", "length"},
    "C09": {"hooks", "vars", "content", "length"},
    "C10": {"join", "choices", "content", "pid", "cur", "length"},
    "C15": {"obs", "depth", "content", "vars", "choices", "length"},
}


PINNED_F02B = """:: Start
~ a = 0
[Start]
@hook turn_end H0
+ [Go] -> P1

:: P1
[P1]
+ {a == 0} [Only while a is zero] -> Start
+ [Always] -> Start

:: H0
~ a = a + 1
"""


# regression witness for the fixed defect F10d (/repo 310398c): the minimal story of the patch header.  After the
# join choice the choice 'Cond' of the @if block of the next section must be offered (and lead to End).
# pinned witnesses for the argument dictionary (DESIGN 12.9, model corrected: Engine.args_dict).  _parse_directive_args
# assigns arg_0, arg_1, .. and then the keywords into ONE dict: a keyword named like a marker overwrites the positional
# entry and keeps its position, a repeated keyword keeps its last value (ast.parse accepts both).  A compiled story can
# only write such keywords in @render (calls are validated against the signature, and no parameter may be named
# arg_<digits> since F07d); the host application can hand them to goto().
PINNED_ARGDICT = """:: Start
~ n = 5
@render card(1, arg_0=2)
@render card(1, 2, arg_0=n, x=3, arg_5=4)
@render card(1, 2, x=3, arg_1=n + 1)
@render card(a=1, a=2)
@render card(arg_1=7)
hi
+ [Go] -> Start

:: T(a, b=9)
PARAMS T {a} {b}
+ [Back] -> Start
"""
PINNED_ARGDICT_DATA = [{"arg_0": 2}, {"arg_0": 5, "arg_1": 2, "x": 3, "arg_5": 4}, {"arg_0": 1, "arg_1": 6, "x": 3},
                       {"a": 2}, {"arg_1": 7}]
PINNED_ARGDICT_OPS = [("goto", "T(1, arg_0=2)"), ("goto", "T(arg_0=2)"), ("goto", "T(1, arg_1=3)"), ("goto", "T(1, 2, arg_0=5)"),
                      ("goto", "T(a=1, a=2)"), ("goto", "T(arg_1=3, a=1)"), ("goto", "T(arg_1=3)")]
PINNED_ARGDICT_SHOWN = ["PARAMS T 2 9\n", "PARAMS T 2 9\n", "PARAMS T 1 3\n", "PARAMS T 5 2\n", "PARAMS T 2 9\n",
                        "PARAMS T 1 9\n", None]

PINNED_F10D = """:: Start
Intro
+ [A] -> @join
@join
Middle
@if True:
    + [Cond] -> End
@endif

:: End
end
"""


def run_engine_property(pid: str, tier: str, seed: int, design_note: str) -> int:
    chk = C.Check(pid, tier, seed, "proof")
    props = C.coq_gate(chk)
    C.use_repo()
    rng = chk.rng
    n_cases, max_ops = (400, 12) if tier == "quick" else (2400, 30)
    prof_kw = PROFILES[pid]
    oracles = ORACLES[pid]
    terms, metas = [], []
    stats = {"compile_failed": 0, "unsupported": 0, "timeout": 0, "ops": {}, "obs": {}, "mech": {}}

    def mech(k):
        stats["mech"][k] = stats["mech"].get(k, 0) + 1

    # pinned known finding F02b (hooks change what choice conditions read): reported once, by signature
    if pid == "C02":
        story = R.compile_story(PINNED_F02B)
        recs, _ = R.run_history(story, [("choose", 0)])
        v = recs[-1]["view"]
        if v and ("Only while a is zero", "Start", "") in v["choices"] and v["vars"].get("a") == 1:
            chk.report("hook-writes-var-read-by-choice-condition",
                       "a turn_end hook changed a variable after the choices were filtered: a stale choice is offered",
                       {"story": PINNED_F02B, "ops": [("choose", 0)]})

    # pinned regression witness for F10d (fixed): silent as long as the block choice of the next section is offered
    if pid == "C10":
        story = R.compile_story(PINNED_F10D)
        recs, _ = R.run_history(story, [("choose", 0), ("choose", 0)])
        v1 = recs[1]["view"] if len(recs) > 1 else None
        v2 = recs[2]["view"] if len(recs) > 2 else None
        offered = [c[0] for c in v1["choices"]] if v1 else None
        if offered != ["Cond"] or not v2 or v2["pid"] != "End":
            chk.report("join-section-block-choice-not-offered",
                       "after a '-> @join' choice the choice written inside an @if block of the next section is not "
                       f"offered (choices after choose(0): {offered!r}, expected ['Cond'], then End)",
                       {"story": PINNED_F10D, "ops": [("choose", 0), ("choose", 0)],
                        "obs": [x["obs"] for x in recs[1:]]})
        stats["pinned_f10d_offered"] = offered

    if pid == "C07":
        stats["call_shapes"] = call_shape_phase(chk, rng, 150 if tier == "quick" else 1500)
    if pid == "C15":
        # restore points with shared objects / bound methods in the variables (the undo half of C15), and failures that
        # Python reports at compile stage inside a Python block
        stats["shared_objects"] = alias_phase(chk, rng, 25 if tier == "quick" else 250)
        stats["pyblock_syntax_faults"] = pyblock_syntax_phase(chk, rng, 24 if tier == "quick" else 240)
    if pid == "C04":
        stats["shared_objects"] = alias_phase(chk, rng, 60 if tier == "quick" else 600)
        stats["deepcopy_model"] = deepcopy_phase(chk, rng, 150 if tier == "quick" else 1500)
        stats["depth_bound"] = depth_bound_phase(chk, rng)

    long_histories = 0
    for i in range(n_cases):
        sub = rng.randrange(10 ** 9)
        r = random.Random(sub)
        kw = dict(prof_kw)
        single = None
        if kw.get("faults", 0) >= 0.2:
            if r.random() < 0.5:
                kw["faults"] = 0.0       # fault injection proper: a fault-free story with ONE failing construct
                single = True
            else:
                # a high fault rate everywhere hides the deeper sites behind the first failure: vary it per story
                kw["faults"] = r.choice([0.04, 0.08, 0.15, kw["faults"]])
        g = G.Gen(r, G.Profile(**kw))
        src = g.source()
        if single:
            src, fk = G.inject_one_fault(src, r)
            stats.setdefault("single_fault_kinds", {})
            stats["single_fault_kinds"][str(fk)] = stats["single_fault_kinds"].get(str(fk), 0) + 1
        try:
            story = R.compile_story(src)
        except Exception:
            stats["compile_failed"] += 1
            continue
        nops = r.randint(3, max_ops)
        if pid == "C04" and tier == "thorough" and i % 25 == 0:
            nops = 70          # cross the 50-deep undo bound
        ops = gen_ops_for(pid, r, nops)
        if g.joins and r.random() < 0.45:
            # a directed history: straight into a @join passage, then mostly join choices
            ops = [("choose_text", "Enter " + r.choice(g.joins), r.randint(0, 5))] + \
                  [("choose_text", "Join", r.randint(0, 5)) if r.random() < 0.6 else o for o in ops]
        if len(ops) >= 3 and r.random() < 0.3:
            # an in-memory checkpoint early, play, the checkpoint loaded again late (raw: the very dict save_state() gave)
            i1 = r.randrange(0, len(ops) // 2 + 1)
            ops.insert(i1, ("save", r.choice(["raw", "raw", "json"])))
            ops.insert(r.randrange(i1 + 2, len(ops) + 1), ("load",))
        if pid == "C04" and nops >= 60:
            ops = [("choose_valid", r.randint(0, 5)) for _ in range(56)] + [("undo",)] * 53 + [("redo",)] * 3
            long_histories += 1
        recs, eng = R.run_history(story, ops)
        for rc in recs[1:]:
            stats["ops"][rc["op"][0]] = stats["ops"].get(rc["op"][0], 0) + 1
            ob = rc["obs"][0] if rc["obs"][0] != "exc" else "exc:" + rc["obs"][1]
            stats["obs"][ob] = stats["obs"].get(ob, 0) + 1

        def report(sig, what, step, _src=src, _recs=recs, _sub=sub):
            chk.report(sig, what, {"subseed": _sub, "story_source": _src, "step": step,
                                   "ops": [x["op"] for x in _recs[1:step + 1]],
                                   "obs": [x["obs"] for x in _recs[1:step + 1]]})
        for o in oracles:
            o(story, recs, report)
        if pid in ("C09", "C10"):
            hook_commands_preserved(src, story, report)
        if pid in ("C02", "C03", "C08", "C10"):
            navigation_lines_preserved(src, story, report)
        if pid == "C04" and nops >= 60 and all(x["view"] for x in recs):
            undos = [x for x in recs if x["op"][0] == "undo"]
            ok_undos = sum(1 for x in undos if x["obs"] == ("bool", True))
            chooses = sum(1 for x in recs if x["op"][0] == "choose" and x["obs"][0] in ("ok", "exc")
                          and 0 <= x["op"][1] < len(x["before"]["choices"]))
            if chooses >= 50 and ok_undos != 50:
                report("undo-depth-bound", f"{chooses} choices, {ok_undos} undos succeeded (expected exactly 50)", len(recs) - 1)
        # mechanisms reached
        nontrivial = False
        for rc in recs[1:]:
            if rc["view"] is None or rc["before"] is None:
                continue
            new = tr_of(rc["view"])[len(tr_of(rc["before"])):] if tr_of(rc["view"])[:len(tr_of(rc["before"]))] == tr_of(rc["before"]) else []
            if len([x for x in new if not x.startswith("H")]) >= 2:
                mech("jump chain >= 2"); nontrivial = True
            if any(x.startswith("H") for x in new):
                mech("hook fired"); nontrivial = nontrivial or pid == "C09"
            if rc["view"]["join"].get(rc["view"]["pid"], 0) >= 1:
                mech("join section >= 1"); nontrivial = nontrivial or pid == "C10"
                if any(c[0].startswith(("In block", "Loop pick")) for c in rc["view"]["choices"]):
                    mech("block choice offered in join section >= 1")
                    if (rc["op"][0].startswith("choose") and rc["before"]["pid"] == rc["view"]["pid"]
                            and rc["before"]["join"].get(rc["view"]["pid"], 0) < rc["view"]["join"][rc["view"]["pid"]]):
                        mech("block choice offered by the join turn itself")
            if rc["obs"][0] == "exc" and rc["obs"][1] != "IndexError":
                mech("fault surfaced"); nontrivial = nontrivial or pid == "C15"
            if rc["op"][0] == "undo" and rc["obs"] == ("bool", True):
                mech("undo succeeded"); nontrivial = nontrivial or pid == "C04"
            if rc["op"][0] == "choose" and rc["obs"] == ("exc", "IndexError", "IndexError"):
                mech("rejected index"); nontrivial = nontrivial or pid == "C02"
            if "{ERROR}" in rc["view"]["content"]:
                mech("error marker shown")
            if "PARAMS" in rc["view"]["content"]:
                mech("parameterised passage shown"); nontrivial = nontrivial or pid == "C07"
        if pid in ("C03", "C08"):
            nontrivial = nontrivial or any(rc["op"][0] == "read" for rc in recs)
        chk.count(("e", sub), nontrivial)
        if i < 2:
            chk.sample({"subseed": sub, "story_source": src, "ops": [x["op"] for x in recs[1:]], "obs": [x["obs"] for x in recs[1:]]})
        if any(x["obs"][0] == "timeout" for x in recs):
            stats["timeout"] += 1
            continue
        try:
            terms.append(R.case_term(story, recs))
            metas.append((sub, src, recs))
        except Unsupported:
            stats["unsupported"] += 1

    if pid == "C07":
        # the pinned argument-dict witnesses: direct oracle on the real engine, and the history goes through the
        # correspondence like every generated one
        story = R.compile_story(PINNED_ARGDICT)
        recs, _ = R.run_history(story, PINNED_ARGDICT_OPS)
        got = [x[2] for x in recs[0]["view"]["render"] if x[0] == "eval"] if recs[0]["view"] else None
        # in order: dict equality ignores the order of the keys
        if got is None or [list(d.items()) for d in got] != [list(d.items()) for d in PINNED_ARGDICT_DATA]:
            chk.report("argument-dict-not-one-dict", f"@render data {got!r}, expected {PINNED_ARGDICT_DATA!r}",
                       {"story_source": PINNED_ARGDICT, "ops": []})
        shown_ = [(x["view"]["content"] if x["obs"] == ("ok",) else None) for x in recs[1:]]
        if shown_ != PINNED_ARGDICT_SHOWN:
            chk.report("argument-dict-binding", f"goto() with marker / repeated keywords showed {shown_!r}, expected "
                       f"{PINNED_ARGDICT_SHOWN!r}", {"story_source": PINNED_ARGDICT, "ops": PINNED_ARGDICT_OPS})
        stats["pinned_argdict"] = {"render_data": got, "shown": shown_}
        terms.append(R.case_term(story, recs))
        metas.append((0, PINNED_ARGDICT, recs))

    bad, shown, log = C.run_coq_cases(chk.scratch, R.HEADER, terms, "ecase", "ecase_bad", shard=25, show_fn="ecase_show")
    for b in bad:
        if isinstance(b, int):
            sub, src, recs = metas[b]
            text = shown.get(b) or ""
            m = re.match(r"\(Some (\d+),\s*\[([^\]]*)\]", text)
            step = int(m.group(1)) if m else None
            fields = re.findall(r'"([a-z_]+)"', m.group(2)) if m else []
            replay = {"subseed": sub, "story_source": src, "ops": [x["op"] for x in recs[1:]],
                      "obs": [x["obs"] for x in recs[1:]], "first_differing_step": step,
                      "differing_fields": fields, "model_says": text[:3000],
                      "implementation_view": ({k: v for k, v in recs[step]["view"].items() if k != "raw_content"}
                                              if step is not None and step < len(recs) and recs[step]["view"] else None)}
            rel = RELEVANT.get(pid, set())
            hit = sorted(set(fields) & rel)
            if hit:
                # the property is a theorem of the model; on this history the implementation departs from the
                # model in fields the property speaks about: a concrete failing history
                chk.report("departs-from-proved-model:" + ",".join(hit),
                           f"at step {step} the implementation's {hit} differ from the model for which {pid} is proved",
                           replay)
            else:
                chk.disagree("engine", "Engine/Engine.v and BardEngine differ on a history", replay)
        else:
            chk.disagree("engine-coqc", "a case shard failed to evaluate", {"log": log[-2000:]})
    chk.cov["programs"] = len(terms)
    chk.cov["disagreements_checked"] = len(terms)
    chk.cov["disagreements_found"] = len(bad)
    chk.cov["rule"] = ("stories generated from the documented grammar by harness/enginegen.py (profile " + repr(prof_kw) +
                       "), histories of choose(valid|invalid)/undo/redo/goto/read/reset; every case is run on the real "
                       "BardEngine and on the Gallina model and compared step by step inside Coq (result kind + full view). "
                       "non-trivial = the property's own mechanism was reached in the history (see input_distribution.mech); "
                       "distinct = by sub-seed")
    stats["long_histories_crossing_50"] = long_histories
    chk.notes["input_distribution"] = stats
    chk.assumptions = [
        "author code is deterministic, display expressions/conditions/loop collections are effect-free",
        "a failing statement or block has no in-place effect before it fails; passages do not mutate their parameters in place",
        "generated code stays inside the mini-Python of Lang/PyMini.v (cases outside it are dropped and counted as 'unsupported')",
        "hooks do not write variables read by choice conditions (that shape is the listed known finding F02b)" if pid == "C02" else
        "no variable aliasing between story variables",
    ]
    return chk.finish(props, C.BASE_TRUST + [
        "modelled: bardic/runtime/engine.py (BardEngine navigation, rendering, hooks, @join, undo/redo); author code enters "
        "the theorems as an arbitrary oracle record and the correspondence through Lang/PyMini.v",
        design_note],
        f"make -C /verif/coq && coqc -Q /verif/coq Bardic /verif/coq/Props/{pid}.v")
