"""Generator of bardic stories (as source text) and operation histories for the engine properties.

Grammar-based and mostly valid; the features each property needs can be switched on through `Profile`.
Every random choice comes from the rng handed in, so a case replays exactly from its sub-seed."""
from __future__ import annotations

import random
from dataclasses import dataclass, field

INTS = ["a", "b", "c"]
FAULT_STMTS = ["a = undefined_name", "b = 1 % 0", "xs.append(nope)", "c += 'x'", "d['q'] = zz"]


@dataclass
class Profile:
    n_passages: tuple = (3, 6)
    params: float = 0.35          # probability that a passage has parameters
    jumps: float = 0.35           # probability of a jump per passage
    cyclic_jumps: bool = True
    hooks: float = 0.4
    join: float = 0.3
    loops: float = 0.35
    conds: float = 0.5
    faults: float = 0.0           # probability per evaluation point kind of injecting a failing construct
    one_time: float = 0.35
    directives: float = 0.2
    inplace: float = 0.4          # lists/dicts mutated in place
    depth: int = 2
    hook_writes_choice_vars: bool = False   # F02b shape (known finding); off in the main stream
    browser_subset: bool = False  # no hooks, no @join


class Gen:
    def __init__(self, rng: random.Random, prof: Profile):
        self.r, self.p = rng, prof
        n = rng.randint(*prof.n_passages)
        self.names = ["Start"]
        for i in range(1, n):
            # some passage names contain another passage's name (P1 / P1b / P1bx): names are compared as whole
            # words by the engine (visited list, one-time identities, hooks), never as substrings
            if i >= 2 and rng.random() < 0.3:
                nm = rng.choice(self.names[1:]) + rng.choice(["b", "x", ".s"])   # P1.s next to P1: a dotted name whose first segment is a passage
                if nm not in self.names:
                    self.names.append(nm)
                    continue
            self.names.append(f"P{i}" + (".s" if rng.random() < 0.15 else ""))   # dots are legal in passage names
        self.sig = {}          # passage -> list of (param, default or None)
        for nm in self.names[1:]:
            if rng.random() < prof.params:
                k = rng.randint(1, 2)
                ps = []
                p1 = rng.choice(["x", "x", "a"])          # 'a'/'b' shadow the globals of the same name
                for i in range(k):
                    pn = [p1, rng.choice(["y", "y", "b"])][i]
                    d = None
                    if i > 0 and rng.random() < 0.6:
                        d = rng.choice(["0", f"{p1} + 1", "c", f"{p1} * 2"])
                        if prof.faults and rng.random() < prof.faults:
                            d = rng.choice(["d['missing']", "1 % 0", "undefined_name", f"xs[{p1} + 50]"])   # a default that fails
                    ps.append((pn, d))
                self.sig[nm] = ps
        self.hooks = []
        if prof.hooks > 0 and not prof.browser_subset and rng.random() < prof.hooks:
            self.hooks = [f"H{i}" + (".e" if rng.random() < 0.2 else "") for i in range(rng.randint(1, 3))]
        self.joins = []
        if prof.join > 0 and not prof.browser_subset and rng.random() < prof.join:
            self.joins = [f"J{i}" for i in range(rng.randint(1, 2))]
        self.stats = {}

    def tag(self, k):
        self.stats[k] = self.stats.get(k, 0) + 1

    # ---- expressions ----
    def int_expr(self, scope=(), depth=0):
        r = self.r
        names = INTS + [v for v in scope]
        k = r.random()
        if k < 0.3:
            return str(r.choice([0, 1, 2, 3, 5, 10]))
        if k < 0.65 or depth > 1:
            return r.choice(names)
        if k < 0.9:
            return f"{self.int_expr(scope, depth + 1)} {r.choice(['+', '-', '+', '*'])} {self.int_expr(scope, depth + 1)}"
        return r.choice([f"len(xs)", f"d.get('k', 0)", f"d['k']", f"{r.choice(names)} % 2", f"{r.choice(names)} % 3"])

    def cond_expr(self, scope=()):
        r = self.r
        k = r.random()
        if k < 0.6:
            return f"{self.int_expr(scope, 1)} {r.choice(['>', '<', '>=', '<=', '==', '!='])} {self.int_expr(scope, 1)}"
        if k < 0.75:
            return f"{r.choice(INTS)} > 0 and {r.choice(INTS)} < 5"
        if k < 0.85:
            return r.choice(["xs", "not xs", "1 in xs", "'k' in d", "flag", "not flag"])
        return r.choice(INTS)

    def fault_expr(self):
        self.tag("fault")
        return self.r.choice(["undefined_name", "1 % 0", "a + 'x'", "xs[99]", "d['missing']", "a.nope"])

    def maybe_fault(self, good, kind):
        if self.p.faults and self.r.random() < self.p.faults:
            self.tag("fault:" + kind)
            return self.fault_expr()
        return good

    def stmt(self, scope=()):
        r = self.r
        k = r.random()
        if self.p.faults and r.random() < self.p.faults:
            self.tag("fault:stmt")
            return r.choice(FAULT_STMTS)
        if k < 0.35:
            return f"{r.choice(INTS)} = {self.int_expr(scope)}"
        if k < 0.6:
            return f"{r.choice(INTS)} {r.choice(['+=', '-=', '+='])} {self.int_expr(scope, 1)}"
        if k < 0.6 + 0.4 * self.p.inplace:
            return r.choice([f"xs.append({self.int_expr(scope, 1)})", f"d['k'] = {self.int_expr(scope, 1)}",
                             f"d['{r.choice('kmn')}'] = {self.int_expr(scope, 1)}", "xs[0] = a"])
        return r.choice(["flag = not flag", "n = n + 1", "pass", "n = n + 1"])

    # ---- lines ----
    def text_line(self, scope=()):
        r = self.r
        parts = [r.choice(["You see", "Here", "Value", "Note", "It is"])]
        for _ in range(r.randint(0, 2)):
            k = r.random()
            if k < 0.45:
                parts.append("{" + self.maybe_fault(self.int_expr(scope, 1), "display") + "}")
            elif k < 0.6:
                parts.append("{" + r.choice(INTS) + r.choice([":3", ":03", ":>4", ":<3", ":^5", ":d"]) + "}")
            elif k < 0.75:
                parts.append("{" + self.maybe_fault(self.cond_expr(scope), "inline-cond") + " ? " +
                             r.choice(["yes", "big {a}", ""]) + " | " + r.choice(["no", "small", ""]) + "}")
            elif k < 0.82:
                parts.append("{s}")
            elif k < 0.87:
                parts.append("{_inputs.get('nm', 'nobody')}")
            else:
                parts.append(r.choice(["ok.", "fine", "now"]))
        line = " ".join(parts)
        if r.random() < 0.12:
            line += "<>"
        return line

    def call_args(self, target, scope=()):
        """Argument text for a call of `target` (valid for its signature)."""
        ps = self.sig.get(target)
        if not ps:
            return ""
        r = self.r
        args = []
        for i, (pn, d) in enumerate(ps):
            if d is not None and r.random() < 0.5:
                break
            val = self.maybe_fault(self.int_expr(scope, 1), "argument")
            if i > 0 and r.random() < 0.3:
                args.append(f"{pn}={val}")
            else:
                if any("=" in a for a in args):
                    args.append(f"{pn}={val}")
                else:
                    args.append(val)
        return "(" + ", ".join(args) + ")"

    def target(self, exclude=()):
        c = [n for n in self.names + self.joins if n not in exclude]
        return self.r.choice(c or self.names)

    def choice_line(self, scope=(), src=None, loopvar=None):
        r = self.r
        t = self.target()
        mark = "*" if r.random() < self.p.one_time else "+"
        cond = ""
        if r.random() < 0.35:
            cond = "{" + self.maybe_fault(self.cond_expr(scope), "choice-cond") + "} "
        txt = r.choice(["Go", "Look", "Wait", "Take", "Open"]) + f" {r.randint(0, 9)}"
        if r.random() < 0.25:
            txt += " {" + r.choice(INTS + ([loopvar] if loopvar else [])) + "}"
        elif r.random() < 0.12:
            txt += " {" + r.choice(["xs[0]", "d['k']", "xs[0] + xs[-1]"]) + "}"      # a ']' inside the choice text
            self.tag("subscript-in-choice-text")
        if loopvar and r.random() < 0.7 and "{" + loopvar + "}" not in txt:
            txt += " {" + loopvar + "}"
        return f"{mark} {cond}[{txt}] -> {t}{self.call_args(t, scope)}"

    def block_items(self, scope, depth, allow_jump=True, indent="    "):
        """Lines inside a conditional branch / loop body."""
        r = self.r
        out = []
        for _ in range(r.randint(1, 3)):
            k = r.random()
            if k < 0.4:
                out.append(indent + self.text_line(scope))
            elif k < 0.65:
                out.append(indent + "~ " + self.stmt(scope))
            elif k < 0.75 and depth < self.p.depth:
                out.extend(indent + l for l in self.cond_block(scope, depth + 1))
            elif k < 0.82 and depth < self.p.depth and self.p.loops:
                out.extend(indent + l for l in self.loop_block(scope, depth + 1))
            elif k < 0.88 and self.hooks:
                out.append(indent + f"@{r.choice(['hook', 'unhook'])} turn_end {r.choice(self.hooks)}")
            elif k < 0.91 and self.p.directives:
                out.append(indent + f"@render panel({self.int_expr(scope, 1)})")
            elif k < 0.94 and self.p.directives:
                out.append(indent + r.choice(['@input name="blk"', '@input name="who" label="Who"']))
                self.tag("input-in-block")
            else:
                out.append(indent + self.text_line(scope))
        if r.random() < 0.3:
            out.append(indent + self.choice_line(scope))
        if allow_jump and r.random() < 0.2 * (self.p.jumps > 0):
            t = self.target()
            out.append(indent + f"-> {t}{self.call_args(t, scope)}")
            self.tag("jump-in-block")
        return out

    def cond_block(self, scope, depth):
        r = self.r
        self.tag("cond")
        out = [f"@if {self.maybe_fault(self.cond_expr(scope), 'branch-cond')}:"]
        out += self.block_items(scope, depth)
        for _ in range(r.randint(0, 1)):
            out.append(f"@elif {self.maybe_fault(self.cond_expr(scope), 'branch-cond')}:")
            out += self.block_items(scope, depth)
        if r.random() < 0.5:
            out.append("@else:")
            out += self.block_items(scope, depth)
        out.append("@endif")
        return out

    def loop_block(self, scope, depth):
        r = self.r
        self.tag("loop")
        var = r.choice(["i", "j", "it"])
        coll = self.maybe_fault(r.choice(["list(xs)", "range(2)", "range(a % 4)", "[1, 2, 3]", "xs + [7]", "list(d)"]), "loop-coll")
        if self.p.faults and r.random() < self.p.faults:
            # a collection that evaluates without error to something that cannot be iterated
            coll = r.choice(["a", "n + 1", "d.get('zz')", "None", "flag"])
            self.tag("fault:loop-not-iterable")
        out = [f"@for {var} in {coll}:"]
        sc = tuple(scope) + ((var,) if coll != "list(d)" else ())
        inner = []
        for _ in range(r.randint(1, 2)):
            k = r.random()
            if k < 0.5:
                inner.append("    " + r.choice(["Item", "Row"]) + " {" + var + "}" + ("<>" if r.random() < 0.2 else ""))
            elif k < 0.76:
                inner.append("    ~ " + self.stmt(sc))
            elif k < 0.84 and self.p.directives:
                inner.append("    " + r.choice([f"@render row({var})" if coll != "list(d)" else "@render row(1)",
                                                f"@render panel({self.int_expr(sc, 1)})", '@input name="each"']))
                self.tag("directive-in-loop")
            elif depth < self.p.depth:
                inner.extend("    " + l for l in self.cond_block(sc, depth + 1))
            else:
                inner.append("    " + self.text_line(sc))
        if r.random() < 0.3:
            inner.append("    " + self.choice_line(sc, loopvar=var))
        if r.random() < 0.18 * (self.p.jumps > 0):
            t = self.target()
            if coll != "list(d)" and r.random() < 0.5:
                # leave the loop in a later iteration only
                if self.p.directives and r.random() < 0.6:
                    inner.insert(0, f"    @render row({var})")          # directives of the earlier iterations must be kept
                inner += [f"    @if {var} >= {r.choice([1, 2, 7])}:", f"        -> {t}{self.call_args(t, sc)}", "    @endif"]
                self.tag("jump-in-later-iteration")
            else:
                inner.append(f"    -> {t}{self.call_args(t, sc)}")
            self.tag("jump-in-loop")
        out += inner
        out.append("@endfor")
        return out

    def passage(self, name):
        if name == "Start" and self.p.faults:
            saved, self.p.faults = self.p.faults, 0.0   # the opening passage must construct
            try:
                return self.passage(name)
            finally:
                self.p.faults = saved
        r = self.r
        ps = self.sig.get(name, [])
        hdr = f":: {name}"
        if ps:
            hdr += "(" + ", ".join(pn if d is None else f"{pn}={d}" for pn, d in ps) + ")"
            self.tag("params")
        scope = tuple(pn for pn, _ in ps)
        out = [hdr, f"~ tr = _state.get('tr', []) + ['{name}']"]
        if name == "Start":
            out += ["~ a = 1", "~ b = 2", "~ c = 0", "~ n = 0", "~ xs = [1, 2]", "~ d = {'k': 1}", "~ s = 'q'",
                    "~ flag = True", "~ hk = 0"]
        out.append(f"[{name}]" + (" {" + " ".join(scope) + "}" if False else ""))
        if scope:
            out.append("PARAMS " + " ".join("{" + v + "}" for v in scope))
        body = []
        for _ in range(r.randint(1, 4)):
            k = r.random()
            if k < 0.3:
                body.append(self.text_line(scope))
            elif k < 0.36:
                body.append("")
            elif k < 0.52:
                body.append("~ " + self.stmt(scope))
            elif k < 0.58:
                blk = [self.stmt(scope) for _ in range(r.randint(1, 3))]
                # a failing block fails at its first statement (in-place effects of a half-run block
                # are outside the model: see assumptions)
                for k2, st2 in enumerate(blk):
                    if st2 in FAULT_STMTS:
                        blk = [st2] + blk[:k2] + blk[k2 + 1:]
                        break
                body += ["@py:"] + blk + ["@endpy"]
                self.tag("pyblock")
            elif k < 0.58 + 0.2 * (self.p.conds > 0):
                body += self.cond_block(scope, 1)
            elif k < 0.86 and self.p.loops:
                body += self.loop_block(scope, 1)
            elif k < 0.91 and self.hooks:
                body.append(r.choice(["", "", "  ", "    "]) + f"@{r.choice(['hook', 'hook', 'unhook'])} turn_end {r.choice(self.hooks)}")
                self.tag("hookcmd")
            elif k < 0.95 and self.p.directives:
                body.append(r.choice([f"@render card({self.int_expr(scope, 1)}, k={self.int_expr(scope, 1)})",
                                      '@input name="nm"']))
            else:
                body.append(self.text_line(scope))
        if self.p.directives and r.random() < 0.3 * self.p.directives / 0.2 * 0.5:
            # input directives at both levels of one passage: passage level and inside an active block
            body += ['@input name="top"', f"@if {r.choice(['True', 'a >= 0', 'not False'])}:", '    @input name="inner"',
                     "    asked", "@endif"]
            self.tag("input-both-levels")
        out += body
        jumped = False
        if name != "Start" and r.random() < self.p.jumps:
            excl = () if self.p.cyclic_jumps else tuple(self.names[: self.names.index(name) + 1])
            t = self.target(exclude=excl + tuple(self.joins))
            if r.random() < 0.3:
                out.append("Before the jump.")
            # a top-level line may be indented by the author (aligned under its paragraph): still a jump
            out.append(r.choice(["", "", "", "  ", "    "]) + f"-> {t}{self.call_args(t, scope)}")
            if r.random() < 0.3:
                out.append("After the jump (never shown).")
            self.tag("jump")
            jumped = True
        nch = r.randint(1, 3) if not jumped else r.randint(0, 1)
        if name == "Start":
            nch = max(nch, 2)
        for _ in range(nch):
            out.append(self.choice_line(scope))
        if name == "Start":
            first = self.hooks[:1]
            if r.random() < 0.3:
                first = []          # nothing hooked at the start: the event gets its first hook later in the game
                self.tag("late-hooks")
            elif len(self.hooks) > 1 and r.random() < 0.5:
                first = [self.hooks[-1], self.hooks[0]]       # registration order is not alphabetical order
            for h in reversed(first):
                out.insert(11, f"@hook turn_end {h}")
            for j in self.joins:
                out.append(f"+ [Enter {j}] -> {j}")
        return out

    def hook_passage(self, name):
        r = self.r
        out = [f":: {name}", f"~ tr = _state.get('tr', []) + ['{name}']", "~ hk = hk + 1"]
        if self.p.hook_writes_choice_vars:
            out.append("~ a = a + 1")
        if self.p.faults and r.random() < self.p.faults:
            if r.random() < 0.5:
                out.append("~ " + self.stmt())
            else:
                # ... inside a block of the hook passage (runs while the hook's text is rendered)
                out += [r.choice(["@if hk >= 0:", "@for q in [1]:"]), "    ~ " + r.choice(FAULT_STMTS), r.choice(["@endif", "@endfor"])]
                out[-1] = "@endif" if out[-3].startswith("@if") else "@endfor"
                self.tag("fault:stmt-in-hook-block")
        if r.random() < 0.7:
            out.append(f"[{name} ran {{hk}}]")
        if r.random() < 0.3:
            out += ["@if hk > 2:", f"    @unhook turn_end {name}", "    bye", "@endif"]
            self.tag("self-unhook")
        if r.random() < 0.2 and len(self.hooks) > 1:
            other = r.choice([h for h in self.hooks if h != name])
            out.append(f"@{r.choice(['hook', 'unhook'])} turn_end {other}")
        return out

    def join_passage(self, name):
        r = self.r
        self.tag("join")
        out = [f":: {name}", f"~ tr = _state.get('tr', []) + ['{name}']", "~ jn = 0", f"[{name}]", f"Intro of {name} {{a}}"]
        nsec = r.randint(1, 3)
        for sec in range(nsec):
            for k in range(r.randint(1, 3)):
                mark = "*" if r.random() < self.p.one_time else "+"
                cond = "{" + r.choice([self.cond_expr(), "jn >= 0", f"jn > {r.randint(0, 2)}", "jn % 2 == 0"]) + "} " \
                    if r.random() < 0.35 else ""
                shown = " {jn}" if r.random() < 0.3 else ""
                out.append(f"{mark} {cond}[Join {sec}.{k}{shown}] -> @join")
                for _ in range(r.randint(0, 2)):
                    kk = r.random()
                    if kk < 0.12:
                        # a text line of the block that begins like a list bullet is text, not a choice line
                        out.append("    " + r.choice(["* a rope", "+ 1 gold", "* item {jn}", "+ and more"]))
                        self.tag("bullet-line-in-join-block")
                    elif kk < 0.45:
                        out.append("    " + r.choice(["You did it", "Chosen", "Fine"]) + f" {sec}.{k} {{jn}}")
                    elif kk < 0.75:
                        out.append("    ~ " + r.choice(["jn = jn + 1", self.stmt()]))
                    elif self.hooks:
                        # mostly the hook that Start registers (so that the command has a visible effect)
                        hk = self.hooks[0] if r.random() < 0.6 else r.choice(self.hooks)
                        out.append(f"    @{r.choice(['hook', 'unhook', 'unhook'])} turn_end {hk}")
                        self.tag("hookcmd-in-join-block")
            if r.random() < 0.6:
                out.append(self.choice_line())
            out.append("@join")
            out.append(f"Section {sec + 1} text {{jn}}")
            if r.random() < 0.5:
                # statements that run while the text between the markers is rendered: the next section's
                # choices (conditions, interpolated texts) must see their effect
                out += [f"@if jn >= {r.randint(0, 1)}:", "    ~ jn = jn + " + str(r.randint(1, 2)),
                        "    Counted {jn}"]
                if r.random() < 0.5:
                    # a choice inside a block of a LATER section (F10d): produced by the rendering of the text
                    # between the markers, offered after the passage-level choices of that section
                    t = self.target()
                    mark = "*" if r.random() < self.p.one_time else "+"
                    out.append(f"    {mark} [In block {{jn}}] -> {t}{self.call_args(t)}")
                    self.tag("join-section-block-choice")
                if r.random() < 0.3:
                    # directives of the section text: an @input is reported as an input directive, a @render stays
                    # a render directive (both after those of the chosen choice's own block)
                    out.append("    " + r.choice([f'@input name="sec{sec + 1}"', "@render panel(jn)"]))
                    self.tag("join-section-block-directive")
                out.append("@endif")
                self.tag("join-section-block-stmt")
            if r.random() < 0.25:
                out += ["@for q in [1, 2]:", "    ~ jn = jn + q"]
                if r.random() < 0.6:
                    # ... and a loop choice there: one per item, its text rendered while the loop runs
                    t = self.target()
                    out.append(f"    + [Loop pick {{q}} of {sec + 1}] -> {t}{self.call_args(t)}")
                    self.tag("join-section-loop-choice")
                out.append("@endfor")
            if r.random() < 0.3:
                out.append("~ n = n + 1")
        out.append(self.choice_line())
        out.append("+ [Leave] -> Start")
        return out

    def source(self) -> str:
        lines = []
        for nm in self.names:
            lines += self.passage(nm) + [""]
        for h in self.hooks:
            lines += self.hook_passage(h) + [""]
        for j in self.joins:
            lines += self.join_passage(j) + [""]
        return "\n".join(lines)


FAULT_EXPRS = ["undefined_name", "1 % 0", "a + 'x'", "xs[99]", "d['missing']", "a.nope"]


def inject_one_fault(src: str, r: random.Random):
    """Fault injection proper: ONE failing construct at one evaluation point of an otherwise fault-free story, the
    point chosen by kind first (so rare kinds are as likely as common ones).  Returns (source, kind) or (src, None)."""
    import re as _re
    lines = src.split("\n")
    sites = {}
    passage = None
    in_py = False
    for i, l in enumerate(lines):
        st = l.strip()
        if st.startswith("::"):
            passage = st[2:].strip().split("(")[0].strip()
            continue
        if passage in (None, "Start"):
            continue                      # the opening passage must construct
        if st.startswith("@py"):
            in_py = True
            continue
        if st == "@endpy":
            in_py = False
            continue
        ind = len(l) - len(l.lstrip(" "))
        depth = "nested" if ind else "top"
        if in_py:
            # only the FIRST statement of a block (in-place effects of a half-run block are outside the model)
            if lines[i - 1].strip().startswith("@py"):
                sites.setdefault("py-block-line", []).append(i)
        elif st.startswith("~ ") and not st.startswith("~ tr ="):
            sites.setdefault(f"stmt:{depth}", []).append(i)
        elif st.startswith("@for "):
            sites.setdefault("loop-collection", []).append(i)
        elif st.startswith("@if ") or st.startswith("@elif "):
            sites.setdefault("branch-condition", []).append(i)
        elif st[:1] in "+*" and "] ->" in st:
            if _re.match(r"[+*] \{", st):
                sites.setdefault("choice-condition", []).append(i)
            if st.endswith(")"):
                sites.setdefault("choice-argument", []).append(i)
        elif st.startswith("-> ") and st.endswith(")"):
            sites.setdefault("jump-argument", []).append(i)
        elif "{" in st and not st.startswith("@") and not st.startswith("["):
            sites.setdefault(f"display:{depth}", []).append(i)
    if not sites:
        return src, None
    kind = r.choice(sorted(sites))
    i = r.choice(sites[kind])
    l = lines[i]
    ind = l[:len(l) - len(l.lstrip(" "))]
    st = l.strip()
    fe = r.choice(FAULT_EXPRS)
    if kind.startswith("stmt") or kind == "py-block-line":
        lines[i] = ind + ("~ " if kind.startswith("stmt") else "") + r.choice(FAULT_STMTS)
    elif kind == "loop-collection":
        m = _re.match(r"@for (\w+) in (.*):$", st)
        if not m:
            return src, None
        lines[i] = ind + f"@for {m.group(1)} in {r.choice([fe, 'a', 'None'])}:"
    elif kind == "branch-condition":
        lines[i] = ind + st.split(" ", 1)[0] + " " + fe + ":"
    elif kind == "choice-condition":
        lines[i] = ind + _re.sub(r"^([+*]) \{[^}]*\}", lambda m: m.group(1) + " {" + fe + "}", st, count=1)
    elif kind in ("choice-argument", "jump-argument"):
        j = st.rfind("(")
        lines[i] = ind + st[:j] + "(" + fe + ")"
    else:
        lines[i] = ind + _re.sub(r"\{[^{}]*\}", "{" + fe + "}", st, count=1)
    return "\n".join(lines), kind


def gen_ops(rng: random.Random, n: int, style: str = "mixed", saveload: bool = False):
    """Operation history: indices are resolved at run time modulo the number of offered choices when
    they are meant to be valid ('v'), or used literally when meant to be invalid."""
    ops = []
    for _ in range(n):
        k = rng.random()
        if style == "choose-only":
            ops.append(("choose_valid", rng.randint(0, 5)))
        elif saveload and rng.random() < 0.12:
            ops.append(rng.choice([("reload",), ("save",), ("load",), ("save", "raw"), ("load",),
                                   ("inputs", rng.choice(["nm", "who"]), rng.choice(["Alice", "Bob", ""])),
                                   ("inputs", "nm", "Zed"), ("badload", rng.randint(0, 9)), ("badload", rng.randint(0, 9))]))
        elif k < 0.5:
            ops.append(("choose_valid", rng.randint(0, 5)))
        elif k < 0.58:
            ops.append(("choose", rng.choice([-1, -7, 99, 3, 4, 10 ** 9])))
        elif k < 0.74:
            ops.append(("undo",))
        elif k < 0.86:
            ops.append(("redo",))
        elif k < 0.93:
            ops.append(("read",))
        elif k < 0.96:
            ops.append(("reset",))
        else:
            ops.append(("goto_valid", rng.randint(0, 20)))
    return ops
