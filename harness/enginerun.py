"""Run operation histories on the real engine (from common.REPO's working tree) and print what it did
as Coq terms for Engine/EngineCheck.v."""
from __future__ import annotations

import copy
import json
import re

from . import common as C
from . import story2coq as S
from .common import coq_str, coq_Z, coq_list, coq_bool, coq_nat
from .pymini import Unsupported

ERR_RE = re.compile(r"\{ERROR[^{}]*\}")
EXN = ["IndexError", "ValueError", "RuntimeError", "TypeError", "NameError", "AttributeError", "KeyError",
       "ZeroDivisionError", "AssertionError", "SyntaxError"]


def exn_kind(e: BaseException) -> str:
    for k in EXN:
        if isinstance(e, getattr(__import__("builtins"), k)):
            return k
    return "OtherError"


def canon_content(s: str) -> str:
    return ERR_RE.sub("{ERROR}", s)


def compile_story(src: str):
    from bardic.compiler.compiler import BardCompiler
    with C.quiet():
        return BardCompiler().compile_string(src)


def engine_class(browser=False):
    if browser:
        import importlib.util
        import os
        p = os.path.join(C.REPO, "bardic", "templates", "browser", "engine_browser.py")
        spec = importlib.util.spec_from_file_location("engine_browser_under_test", p)
        m = importlib.util.module_from_spec(spec)
        spec.loader.exec_module(m)
        return m.BardEngine
    from bardic.runtime.engine import BardEngine
    return BardEngine


def view(eng) -> dict:
    out = eng._current_output
    rds = []
    for d in (out.render_directives or []) if out else []:
        ty = d.get("type")
        if ty == "render_directive":
            if d.get("mode") == "evaluated":
                rds.append(("eval", d.get("name", ""), copy.deepcopy(d.get("data", {}))))   # the data as shown NOW (arguments may be live story objects)
            elif d.get("mode") == "error":
                rds.append(("error", d.get("name", ""), d.get("raw_args", "")))
            else:
                raise Unsupported("render directive mode")
        else:
            rds.append(("error", ty, ""))
    return {
        "cur": eng.current_passage_id or "",
        "vars": copy.deepcopy(dict(eng.state)),
        "used": sorted(eng.used_choices),
        "hooks": copy.deepcopy(getattr(eng, "hooks", {})),
        "join": dict(getattr(eng, "_join_section_index", {})),
        "content": canon_content(out.content) if out else "",
        "raw_content": out.content if out else "",
        "choices": [(c["text"], c["target"], c.get("args", "") or "") for c in (out.choices if out else [])],
        "pid": out.passage_id if out else "",
        "render": rds,
        "input": [{k: v for k, v in d.items() if k != "type"} for d in (out.input_directives or [])] if out else [],
        "can_undo": eng.can_undo(), "can_redo": eng.can_redo(),
        "depth": len(eng._local_scope_stack),
    }


def read_battery(eng):
    eng.current()
    eng.has_choices()
    eng.is_end()
    eng.get_choice_texts()
    eng.get_choice_targets()
    eng.get_story_info()
    eng.save_state()
    eng.get_save_metadata()
    eng.can_undo()
    eng.can_redo()


def run_history(story: dict, ops, browser=False, per_call_s=10, on_step=None):
    """-> (records, engine).  records[0] is the construction; each record is
    dict(op=(concrete op), obs=..., view=..., before=view before, result=PassageOutput|None)."""
    cls = engine_class(browser)
    recs = []
    with C.quiet():
        try:
            with C.alarm(per_call_s):
                eng = cls(copy.deepcopy(story))
        except C.Timeout:
            return [{"op": ("init",), "obs": ("timeout",), "view": None}], None
        except Exception as e:  # noqa
            return [{"op": ("init",), "obs": ("exc", exn_kind(e)), "view": None, "error": repr(e)}], None
        recs.append({"op": ("init",), "obs": ("ok",), "view": view(eng), "before": None, "result": eng._current_output})
        names = list(story["passages"].keys())
        slot = None
        for op in ops:
            before = view(eng)
            kind = op[0]
            conc = op
            result = None
            try:
                with C.alarm(per_call_s):
                    if kind == "choose_valid":
                        n = len(eng.current().choices)
                        conc = ("choose", op[1] % n if n else 0)
                        result = eng.choose(conc[1])
                        obs = ("ok",)
                    elif kind == "choose_text":
                        # the offered choice whose text starts with op[1] (a directed step, e.g. into a @join passage);
                        # falls back to a valid index
                        texts = [c["text"] for c in eng.current().choices]
                        idx = next((j for j, t in enumerate(texts) if t.startswith(op[1])), None)
                        if idx is None:
                            idx = op[2] % len(texts) if texts else 0
                        conc = ("choose", idx)
                        result = eng.choose(idx)
                        obs = ("ok",)
                    elif kind == "choose":
                        result = eng.choose(op[1])
                        obs = ("ok",)
                    elif kind == "undo":
                        obs = ("bool", eng.undo())
                    elif kind == "redo":
                        obs = ("bool", eng.redo())
                    elif kind == "goto_valid":
                        cands = [n for n in names if not story["passages"][n].get("params") and not n.startswith("H")]
                        conc = ("goto", cands[op[1] % len(cands)])
                        result = eng.goto(conc[1])
                        obs = ("ok",)
                    elif kind == "goto":
                        result = eng.goto(op[1])
                        obs = ("ok",)
                    elif kind == "reset":
                        eng.reset_one_time_choices()
                        obs = ("ok",)
                    elif kind == "read":
                        read_battery(eng)
                        obs = ("ok",)
                    elif kind == "inputs":
                        eng.submit_inputs({op[1]: op[2]})
                        obs = ("ok",)
                    elif kind == "badload":
                        # a document that passes the first checks and fails later (its stored output names no passage /
                        # a stored choice has no target): must raise ValueError and leave the running game untouched
                        doc = copy.deepcopy(slot) if slot is not None else json.loads(json.dumps(eng.save_state()))
                        if isinstance(doc.get("current_output"), dict):
                            if op[1] % 2 == 0:
                                doc["current_output"]["passage_id"] = "Nowhere"
                            else:
                                doc["current_output"]["choices"] = [{"text": "Go"}]
                        else:
                            doc["current_passage_id"] = "Nowhere"
                        eng.load_state(doc)
                        obs = ("ok",)
                    elif kind == "reload":
                        # save -> JSON text -> load into a FRESH engine; play continues on that engine
                        doc = json.loads(json.dumps(eng.save_state()))
                        eng2 = cls(copy.deepcopy(story))
                        eng2.load_state(doc)
                        eng = eng2
                        obs = ("ok",)
                    elif kind == "save":
                        # the document as the application keeps it: after a JSON round trip, or the very dict save_state()
                        # returned (an in-memory checkpoint) - later play must not change either
                        slot = eng.save_state() if len(op) > 1 and op[1] == "raw" else json.loads(json.dumps(eng.save_state()))
                        obs = ("ok",)
                    elif kind == "load":
                        # the SAME document object every time: a load must not make the game share data with it
                        if slot is not None:
                            eng.load_state(slot)
                        obs = ("ok",)
                    else:
                        raise AssertionError(kind)
            except C.Timeout:
                recs.append({"op": conc, "obs": ("timeout",), "view": None, "before": before})
                break
            except Exception as e:  # noqa
                obs = ("exc", exn_kind(e), type(e).__name__)
            rec = {"op": conc, "obs": obs, "view": view(eng), "before": before, "result": result}
            recs.append(rec)
            if on_step:
                on_step(eng, rec)
    return recs, eng


# ---------------- Coq terms ----------------

def obs_term(o):
    if o[0] == "ok":
        return "ObsOk"
    if o[0] == "bool":
        return f"(ObsBool {coq_bool(o[1])})"
    if o[0] == "exc":
        return f"(ObsExc {o[1]})"
    raise Unsupported("timeout")


def rdir_term(r, classes=None):
    if r[0] == "eval":
        data = coq_list(f"({coq_str(k)}, {S.value(v, classes)})" for k, v in r[2].items())
        return f"(RDEval {coq_str(r[1])} {data} None)"
    return f"(RDError {coq_str(r[1])} {coq_str(r[2])})"


def view_term(v, classes=None):
    hooks = coq_list(f"({coq_str(k)}, {coq_list(coq_str(x) for x in l)})" for k, l in v["hooks"].items())
    join = coq_list(f"({coq_str(k)}, {coq_nat(n)})" for k, n in v["join"].items())
    choices = coq_list(f"({coq_str(S.check_ascii(t))}, {coq_str(g)}, {coq_str(a)})" for t, g, a in v["choices"])
    inputs = coq_list(coq_list(f"({coq_str(k)}, {coq_str(x)})" for k, x in d.items()) for d in v["input"])
    return ("(mkView %s %s %s %s %s %s %s %s %s %s %s %s %s)" % (
        coq_str(v["cur"]), S.env(v["vars"], classes), coq_list(coq_str(S.check_ascii(u)) for u in v["used"]), hooks, join,
        coq_str(S.check_ascii(v["content"])), choices, coq_str(v["pid"]),
        coq_list(rdir_term(r, classes) for r in v["render"]), inputs,
        coq_bool(v["can_undo"]), coq_bool(v["can_redo"]), coq_nat(v["depth"])))


def op_term(op, tb: S.Tables):
    k = op[0]
    if k == "choose":
        return f"(OpChoose {coq_Z(op[1])})"
    if k == "undo":
        return "OpUndo"
    if k == "redo":
        return "OpRedo"
    if k == "goto":
        tb.want_spec(op[1])
        return f"(OpGoto {coq_str(op[1])})"
    if k == "reset":
        return "OpReset"
    if k == "read":
        return "OpRead"
    if k == "badload":
        return "OpBadLoad"
    if k == "inputs":
        return f"(OpInput {coq_str(op[1])} {coq_str(op[2])})"
    if k in ("reload", "save", "load"):
        return {"reload": "OpReload", "save": "OpSave", "load": "OpLoad"}[k]
    raise Unsupported(k)


def case_term(story: dict, recs, classes=None):
    """ecase term for Engine/EngineCheck.v; raises Unsupported when outside the modelled domain."""
    if recs[0]["view"] is None:
        raise Unsupported("engine construction failed: " + str(recs[0]["obs"]))
    tb = S.Tables()
    st = S.story(story, tb)
    if story.get("imports") and any(l.strip() and not l.strip().startswith("#") for l in story["imports"]):
        raise Unsupported("imports")
    ops = coq_list(op_term(r["op"], tb) for r in recs[1:])
    exp = coq_list(f"({obs_term(r['obs'])}, {view_term(r['view'], classes)})" for r in recs)
    return f"({st}, {tb.term()}, [], {ops}, {exp})"


HEADER = ("From Coq Require Import ZArith List String.\n"
          "From Bardic Require Import PyStr Value Compiled Engine PyMini EngineCheck.")
