"""Tie of the JSON TEXT codec model (coq/Codec/JsonText.v) to CPython's json module.

For Python values v in the model's domain (None, bool, int, str of code points < 256, list, dict with str
keys) the real `json.dumps(v)` and `json.dumps(v, indent=2)` are computed, the value is printed as a Coq `json`
term and the two texts as Coq string literals, and INSIDE Coq (vm_compute) it is checked that
  * JsonText.dumps / JsonText.dumps_indent2 give byte-identical strings,
  * JsonText.loads of either real text gives the tree back.
Texts (hand-written ones with odd white space / escapes / errors, and random one-character mutations of real
outputs) are given to JsonText.loads and compared with json.loads: Some tree when json.loads returns a value
in the domain, None when it raises JSONDecodeError or returns something outside the domain (a float, a code
point >= 256).

Sources of values: a random generator (nested lists/dicts, ints up to 2**70 in absolute value, all 256 byte
values in strings with the 128 ASCII ones favoured, empty strings/containers) and real documents:
engine.save_state() after each step of short random plays of the stories under /repo/stories, and the compiled
stories themselves (the dict `bardic compile` writes with json.dump(result, f, indent=2)).  A document with a
character >= 256 is projected (such characters replaced by '?') and counted; a document holding a float is
skipped and counted.

    /venv/bin/python -m harness.jsontext_tie [n] [seed]        (from /verif)
"""
from __future__ import annotations

import glob
import json
import os
import random
import re
import shutil
import sys
import tempfile
from concurrent.futures import ThreadPoolExecutor

from . import common as C

SHARD = 300            # cases per generated file at most
SHARD_CHARS = 400_000  # and at most this much text per file

HEADER = ("From Coq Require Import String Ascii List ZArith.\n"
          "From Bardic Require Import PyStr Value Codec JsonText JsonTextCheck.\n"
          "Import ListNotations.\nLocal Open Scope string_scope.\nLocal Open Scope list_scope.\n"
          "Set Printing Width 1000000.\nSet Printing Depth 1000000.\n")


# ---------------------------------------------------------------------------------------------
# the domain, and printing it as Coq terms

class Float(Exception):
    pass


def project(v):
    """(value with every character >= 256 replaced by '?', number of replaced characters); Float if a float is inside."""
    n = 0

    def s_(s):
        nonlocal n
        if all(ord(c) < 256 for c in s):
            return s
        n += sum(1 for c in s if ord(c) >= 256)
        return "".join(c if ord(c) < 256 else "?" for c in s)

    def go(x):
        if x is None or isinstance(x, bool) or isinstance(x, int):
            return x
        if isinstance(x, float):
            raise Float()
        if isinstance(x, str):
            return s_(x)
        if isinstance(x, (list, tuple)):
            return [go(y) for y in x]
        if isinstance(x, dict):
            out = {}
            for k, y in x.items():
                if not isinstance(k, str):
                    raise Float()
                out[s_(k)] = go(y)
            if len(out) != len(x):
                raise Float()           # two keys collapsed by the projection
            return out
        raise Float()

    return go(v), n


def in_domain(x) -> bool:
    if x is None or isinstance(x, (bool, int)):
        return True
    if isinstance(x, str):
        return all(ord(c) < 256 for c in x)
    if isinstance(x, list):
        return all(in_domain(y) for y in x)
    if isinstance(x, dict):
        return all(isinstance(k, str) and in_domain(k) and in_domain(y) for k, y in x.items())
    return False


def coq_json(x) -> str:
    if x is None:
        return "JNull"
    if isinstance(x, bool):
        return "(JBool true)" if x else "(JBool false)"
    if isinstance(x, int):
        return f"(JInt ({x})%Z)"
    if isinstance(x, str):
        return f"(JStr {C.coq_str(x)})"
    if isinstance(x, list):
        return "(JList [" + "; ".join(coq_json(y) for y in x) + "])"
    if isinstance(x, dict):
        return "(JObj [" + "; ".join(f"({C.coq_str(k)}, {coq_json(y)})" for k, y in x.items()) + "])"
    raise TypeError(type(x))


def dcase(v) -> str:
    return f"mkD {coq_json(v)}\n  {C.coq_str(json.dumps(v))}\n  {C.coq_str(json.dumps(v, indent=2))}"


def expected(text: str):
    """What json.loads makes of `text`: ("ok", value in the domain) | ("outside",) | ("error",)."""
    try:
        v = json.loads(text)
    except (json.JSONDecodeError, RecursionError):
        return ("error",)
    return ("ok", v) if in_domain(v) else ("outside",)


def lcase(text: str) -> str:
    e = expected(text)
    if e[0] != "ok":
        return f"mkL {C.coq_str(text)} None"               # the model must answer None
    return f"mkL {C.coq_str(text)} (Some {coq_json(e[1])})"


# ---------------------------------------------------------------------------------------------
# generators

SPECIAL = ['"', "\\", "/", "\n", "\r", "\t", "\b", "\f", "\x00", "\x1f", " ", "~", "\x7f", "\x80", "\xff", "u", "0"]


def gen_str(rng: random.Random) -> str:
    r = rng.random()
    if r < 0.12:
        return ""
    n = rng.choice([1, 1, 2, 3, 5, 8, 13, 30])
    if r < 0.45:
        return "".join(chr(rng.randrange(128)) for _ in range(n))            # all 128 ASCII bytes
    if r < 0.60:
        return "".join(rng.choice(SPECIAL) for _ in range(n))
    if r < 0.70:
        return "".join(chr(rng.randrange(256)) for _ in range(n))            # and the other 128
    return "".join(rng.choice("abcXYZ _-.:,[]{}0123456789") for _ in range(n))


def gen_int(rng: random.Random) -> int:
    r = rng.random()
    if r < 0.3:
        return rng.choice([0, 1, -1, 9, 10, -10, 99, 100, 2 ** 31, -2 ** 31, 2 ** 63, -2 ** 63 - 1, 2 ** 70, -2 ** 70,
                           10 ** 18, 10 ** 21 - 1, 255, 256])
    if r < 0.7:
        return rng.randrange(-1000, 1000)
    return rng.randrange(-2 ** 70, 2 ** 70 + 1)


def gen_value(rng: random.Random, depth: int):
    r = rng.random()
    if depth <= 0 or r < 0.35:
        k = rng.randrange(6)
        if k == 0:
            return None
        if k == 1:
            return rng.random() < 0.5
        if k in (2, 3):
            return gen_int(rng)
        return gen_str(rng)
    n = rng.choice([0, 0, 1, 1, 2, 3, 4, 6])
    if r < 0.68:
        return [gen_value(rng, depth - 1) for _ in range(n)]
    d = {}
    for _ in range(n):
        d[gen_str(rng)] = gen_value(rng, depth - 1)
    return d


HAND_TEXTS = [
    # odd white space
    ' \t\n\r[ \n1 ,\t2\r,\n 3 ]\n ', '{ "a" : 1 , "b" :[ ] , "c":{ } }', '[\n]', '{\n\t}', ' null ', '\ttrue', 'false\n',
    ' "x" ', '[[[[]]]]', '[{"a":[{"b":[]}]}]', '  0  ', '-0', ' -12 ', '[ -0 , 0 ]',
    # escapes
    r'"\/"', r'"\u0041"', r'"\u004a\u004A"', r'"\u00e9\u00E9"', r'"\u00ff"', r'"\u0000"', r'"\u001f\u007f"',
    r'"\"\\\/\b\f\n\r\t"', r'"a\/b"', r'{"a":"b"}', r'[""","\","/"]', '"\x7f"', '"\xe9"',
    '"/"', '"a b"', r'"\\u0041"', r'"\\A"',
    # repeated keys: last value, first position
    '{"a":1,"b":2,"a":3}', '{"a":{"x":1,"x":2},"a":[]}', '{"":1,"":2,"":3}', r'{"a":1,"a":2}',
    # outside the domain (floats, large code points)
    '1.5', '[1, 2.5]', '1e5', '1E5', '-1.0', '0.0', 'NaN', 'Infinity', '-Infinity', '[NaN]', r'"\u0100"', r'"\ud83d\ude00"',
    r'"\uD800"', r'"\uffff"', r'"\u00FF\u0100"', '1.', '1e', '1.e1', '0e0',
    # errors
    '', ' ', '01', '-01', '00', '[1,]', '[,1]', '[1,,2]', '{"a":1,}', '{,}', '{"a"}', '{"a":}', '{"a" 1}', '{1:2}',
    "{'a':1}", '[1 2]', '[1', '[', ']', '{', '}', '[}', '{]', '"abc', '"', '"\\', '"\\u', '"\\u00', '"\\u004"', r'"\u00G1"',
    r'"\u 041"', r'"\u+041"', r'"\u0x41"', r'"\x41"', r'"\a"', r'"\v"', r'"\U0041"', r'"\'"', '"\t"', '"\n"', '"\x00"',
    '"\x1f"', 'nul', 'null1', 'nulll', 'tru', 'True', 'TRUE', 'fals', 'falsee', 'None', '-', '- 1', '+1', '--1', '1 2',
    '[]]', '[] []', 'null null', '1,2', '\x0c1', '\x0b[]', '\xa0[]', '[1]x', '{"a":1}}', '"a""b"', 'a', '\\u0041',
    '[1,\n]', '[\n,]', '{"a":1 "b":2}', '{"a":1,,"b":2}', '{"a"::1}', '[:]', '[1:2]', '12345678901234567890123456789012345678901234567890',
    '-98765432109876543210', '1_000', '0x10', '1 ', '[true,false,null]', '[truefalse]', '[nulltrue]', '{"a":nul}',
]

MUT_ALPHABET = list('[]{}:,"\\ \n\t/0123456789-+.eEaunrtfl') + ["\x00", "\x7f", "\xe9"]


def mutate(rng: random.Random, text: str) -> str:
    if not text:
        return rng.choice(MUT_ALPHABET)
    k = rng.randrange(4)
    i = rng.randrange(len(text))
    if k == 0:
        return text[:i] + text[i + 1:]
    if k == 1:
        return text[:i] + rng.choice(MUT_ALPHABET) + text[i:]
    if k == 2:
        return text[:i] + rng.choice(MUT_ALPHABET) + text[i + 1:]
    j = rng.randrange(len(text))
    a, b = min(i, j), max(i, j)
    return text[:a] + text[b:]           # drop a span


# ---------------------------------------------------------------------------------------------
# real documents

def real_documents(rng: random.Random, max_steps=4):
    """[(label, value)], stats: compiled stories and save_state() documents of short random plays."""
    C.use_repo()
    from bardic.compiler.parsing import parse_file
    from bardic.compiler.compiler import BardCompiler
    from bardic.runtime.engine import BardEngine

    docs, stats = [], {"stories": 0, "compiled": 0, "saves": 0, "not_compiled": 0, "projected_docs": 0,
                       "projected_chars": 0, "skipped_float": 0, "engine_failed": 0, "files_written": 0, "file_differs": []}
    tmp = tempfile.mkdtemp(prefix="jsontext_compile_")

    def add(label, v):
        try:
            pv, n = project(v)
        except Float:
            stats["skipped_float"] += 1
            return False
        if n:
            stats["projected_docs"] += 1
            stats["projected_chars"] += n
        docs.append((label, pv))
        return True

    files = sorted(glob.glob(os.path.join(C.REPO, "stories", "**", "*.bard"), recursive=True)) + \
        sorted(glob.glob(os.path.join(C.REPO, "tests", "hooks", "*.bard")))
    cwd = os.getcwd()
    fixtures = os.path.join(C.REPO, "tests", "fixtures")       # game_logic.* of the object stories (as tests/conftest.py does)
    sys.path.insert(0, fixtures)
    for path in files:
        stats["stories"] += 1
        name = os.path.relpath(path, C.REPO)
        try:
            with C.quiet():
                story = parse_file(path)
        except BaseException:
            stats["not_compiled"] += 1
            continue
        if add("compiled:" + name, story):
            stats["compiled"] += 1
        # what `bardic compile` writes IS json.dumps(story, indent=2) (checked on the unprojected story), and
        # json.load of the file gives the story back
        try:
            out_path = os.path.join(tmp, "story.json")
            with C.quiet():
                BardCompiler().compile_file(path, out_path)
            with open(out_path, encoding="utf-8") as f:
                text = f.read()
            stats["files_written"] += 1
            if text != json.dumps(story, indent=2) or json.loads(text) != story or not text.isascii():
                stats["file_differs"].append(name)
        except BaseException as e:
            stats["file_differs"].append(f"{name}: {type(e).__name__}")
        try:
            os.chdir(os.path.dirname(path))
            with C.quiet(), C.alarm(10):
                eng = BardEngine(story)
                seen = 0
                for _ in range(max_steps):
                    doc = eng.save_state()
                    json.dumps(doc)                      # a document that is not JSON is not ours to test
                    if add(f"save:{name}@{seen}", doc):
                        stats["saves"] += 1
                    seen += 1
                    out = eng.current()
                    if not out.choices:
                        break
                    eng.choose(rng.randrange(len(out.choices)))
        except BaseException:
            stats["engine_failed"] += 1
        finally:
            os.chdir(cwd)
    if fixtures in sys.path:
        sys.path.remove(fixtures)
    shutil.rmtree(tmp, ignore_errors=True)
    return docs, stats


# ---------------------------------------------------------------------------------------------
# the Coq side

def shards(terms):
    cur, size = [], 0
    for t in terms:
        if cur and (len(cur) >= SHARD or size + len(t) > SHARD_CHARS):
            yield cur
            cur, size = [], 0
        cur.append(t)
        size += len(t)
    if cur:
        yield cur


def run_shards(scratch: str, kind: str, terms: list[str], jobs=8, timeout=900):
    """kind 'd' (dcase) or 'l' (lcase).  Returns (totals tuple, bad global indices, errors)."""
    ty, summ, width = ("dcase", "dsummary", 5) if kind == "d" else ("lcase", "lsummary", 2)
    files, offsets, off = [], [], 0
    for k, sh_terms in enumerate(shards(terms)):
        path = os.path.join(scratch, f"cases_{kind}_{k}.v")
        with open(path, "w", encoding="latin-1") as f:
            f.write(HEADER)
            f.write(f"Definition cases : list {ty} :=\n[\n")
            f.write(";\n".join(sh_terms))
            f.write("\n].\n")
            f.write(f"Eval vm_compute in ({summ} cases).\n")
        files.append(path)
        offsets.append(off)
        off += len(sh_terms)

    def one(path):
        return C.sh(f"ulimit -s unlimited 2>/dev/null; exec coqc -Q {C.COQ} Bardic {os.path.basename(path)}",
                    timeout=timeout, cwd=scratch)

    with ThreadPoolExecutor(max_workers=jobs) as ex:
        results = list(ex.map(one, files))
    totals, bad, errors = [0] * width, [], []
    for path, off0, (rc, out) in zip(files, offsets, results):
        m = re.search(r"=\s*\(([\d,\s]+),\s*\[([\d;\s]*)\]\)", out)
        if rc != 0 or not m:
            errors.append(f"{os.path.basename(path)}: rc={rc}\n{out[-1500:]}")
            continue
        nums = [int(x) for x in re.findall(r"\d+", m.group(1))]
        if len(nums) != width:
            errors.append(f"{os.path.basename(path)}: unexpected summary {m.group(0)[:200]}")
            continue
        for i, x in enumerate(nums):
            totals[i] += x
        bad += [off0 + int(x) for x in re.findall(r"\d+", m.group(2))]
    return totals, bad, errors, len(files)


# ---------------------------------------------------------------------------------------------

def selftest(n: int = 600, seed: int = 0, keep: bool = False) -> int:
    """n random values (+ the real documents + the hand-written texts + 2n mutated texts).  0 = everything agrees."""
    rng = random.Random(seed)
    values = [("random", gen_value(rng, rng.choice([0, 1, 2, 3, 4, 5]))) for _ in range(n)]
    # deep and wide corners
    deep = []
    for d in (20, 60):
        v = 7
        for i in range(d):
            v = [v] if i % 2 else {"k": v}
        deep.append(("deep", v))
    deep.append(("wide", list(range(-150, 150))))
    deep.append(("wide", {f"k{i}": i for i in range(200)}))
    deep.append(("allbytes", "".join(chr(i) for i in range(256))))
    deep.append(("allbytes-keys", {chr(i): i for i in range(256)}))
    docs, stats = real_documents(rng)
    everything = values + deep + docs
    dterms = [dcase(v) for _, v in everything]

    texts = list(HAND_TEXTS)
    pool = [json.dumps(v) for _, v in values[: max(50, n // 2)]] + [json.dumps(v, indent=2) for _, v in values[:50]]
    pool = [t for t in pool if len(t) < 400]
    for _ in range(2 * n):
        t = mutate(rng, rng.choice(pool))
        if rng.random() < 0.3:
            t = mutate(rng, t)
        texts.append(t)
    texts = [t for t in texts if all(ord(c) < 256 for c in t)]
    exp = [expected(t) for t in texts]
    lterms = [lcase(t) for t in texts]

    scratch = tempfile.mkdtemp(prefix="jsontext_tie_")
    try:
        dtot, dbad, derr, dfiles = run_shards(scratch, "d", dterms)
        ltot, lbad, lerr, lfiles = run_shards(scratch, "l", lterms)
    finally:
        if not keep:
            shutil.rmtree(scratch, ignore_errors=True)

    n_acc = sum(1 for e in exp if e[0] == "ok")
    n_out = sum(1 for e in exp if e[0] == "outside")
    n_err = sum(1 for e in exp if e[0] == "error")
    print(f"jsontext_tie seed={seed}: values {len(everything)} = {len(values)} random + {len(deep)} corner + "
          f"{len(docs)} real documents ({stats['compiled']} compiled stories, {stats['saves']} save_state documents; "
          f"{stats['stories']} story files, {stats['not_compiled']} did not compile, {stats['engine_failed']} plays stopped by an "
          f"exception, {stats['projected_docs']} documents projected ({stats['projected_chars']} characters >= 256), "
          f"{stats['skipped_float']} skipped for a float) in {dfiles} case files")
    print(f"  inside Coq: cases {dtot[0]}; dumps byte-identical {dtot[1]}; dumps_indent2 byte-identical {dtot[2]}; "
          f"loads(real compact text) = tree {dtot[3]}; loads(real indented text) = tree {dtot[4]}")
    print(f"  texts {len(texts)} = {len(HAND_TEXTS)} hand-written + {len(texts) - len(HAND_TEXTS)} mutated, in {lfiles} case files: "
          f"json.loads accepts in the domain {n_acc}, accepts outside the domain (float / code point >= 256) {n_out}, "
          f"rejects {n_err}; inside Coq: cases {ltot[0]}, loads agrees {ltot[1]}")
    print(f"  compile-to-file: {stats['files_written']} files written by BardCompiler.compile_file; text differs from "
          f"json.dumps(story, indent=2) / is not ASCII / json.load differs from the story: {len(stats['file_differs'])}")
    rc = 0
    for name in stats["file_differs"][:5]:
        rc = 1
        print("  FILE TEXT DIFFERS:", name)
    if derr or lerr:
        rc = 1
        for e in (derr + lerr)[:5]:
            print("  COQ FAILED:", e)
    if dtot[0] != len(dterms) or ltot[0] != len(lterms):
        rc = 1
        print(f"  MISSING RESULTS: {dtot[0]}/{len(dterms)} value cases, {ltot[0]}/{len(lterms)} text cases evaluated")
    for i in dbad[:10]:
        rc = 1
        label, v = everything[i]
        print(f"  MISMATCH value case {i} ({label}): {json.dumps(v)[:300]}")
    for i in lbad[:10]:
        rc = 1
        print(f"  MISMATCH text case {i}: {texts[i]!r}  json.loads -> {exp[i]!r}")
    if dbad or lbad:
        print(f"  mismatches: {len(dbad)} value cases, {len(lbad)} text cases")
    print("  RESULT:", "agree" if rc == 0 else "DISAGREE")
    return rc


def phase(chk, rng, n_values=150, docs=False, texts=True):
    """The same comparison as selftest(), reporting through a common.Check.  A value whose real json.dumps text differs
    from the model's, or whose real text does not load to the tree in the model, or a text on which json.loads and the
    model's loads differ, is a disagreement between the code's text codec and Codec/JsonText.v (for which the round-trip
    theorems are proved); a compiled file whose text is not json.dumps(story, indent=2) / not ASCII / does not load back
    to the story is a concrete failing input."""
    values = [("random", gen_value(rng, rng.choice([0, 1, 2, 3, 4, 5]))) for _ in range(n_values)]
    v = 7
    for i in range(40):
        v = [v] if i % 2 else {"k": v}
    values += [("deep", v), ("allbytes", "".join(chr(i) for i in range(256))), ("allbytes-keys", {chr(i): i for i in range(256)})]
    stats = {"values": len(values), "documents": 0, "texts": 0}
    everything = list(values)
    if docs:
        dd, dstats = real_documents(rng)
        everything += dd
        stats["documents"] = len(dd)
        stats["document_stats"] = {k: (len(x) if isinstance(x, list) else x) for k, x in dstats.items()}
        for name in dstats["file_differs"][:5]:
            chk.report("compiled-file-text-differs", "the file written by compile_file is not json.dumps(story, indent=2) as ASCII "
                       "text, or json.load of it is not the story", {"story_file": name})
    dterms = [dcase(x) for _, x in everything]
    tx, exp = [], []
    if texts:
        tx = list(HAND_TEXTS)
        pool = [json.dumps(x) for _, x in values[:80]] + [json.dumps(x, indent=2) for _, x in values[:40]]
        pool = [t for t in pool if len(t) < 400]
        for _ in range(2 * n_values):
            t = mutate(rng, rng.choice(pool))
            if rng.random() < 0.3:
                t = mutate(rng, t)
            tx.append(t)
        tx = [t for t in tx if all(ord(c) < 256 for c in t)]
        exp = [expected(t) for t in tx]
        stats["texts"] = len(tx)
        stats["texts_json_loads_accepts"] = sum(1 for e in exp if e[0] == "ok")
    scratch = os.path.join(chk.scratch, "jsontext")
    os.makedirs(scratch, exist_ok=True)
    dtot, dbad, derr, _ = run_shards(scratch, "d", dterms)
    ltot, lbad, lerr = ([0, 0], [], [])
    if tx:
        ltot, lbad, lerr, _ = run_shards(scratch, "l", [lcase(t) for t in tx])
    for e in (derr + lerr)[:3]:
        chk.disagree("jsontext-coqc", "a JSON text case file failed to evaluate", {"log": e[-1500:]})
    for i in dbad[:5]:
        label, x = everything[i]
        chk.disagree("json-text-codec", "json.dumps / json.loads and Codec/JsonText.v (dumps, dumps_indent2, loads) differ on a value",
                     {"kind": label, "value_json": json.dumps(x)[:2000]})
    for i in lbad[:5]:
        chk.disagree("json-text-loads", "json.loads and the model's loads differ on a text", {"text": tx[i][:500], "json.loads": repr(exp[i])[:300]})
    stats["evaluated_inside_coq"] = {"value_cases": dtot[0], "dumps_identical": dtot[1], "dumps_indent2_identical": dtot[2],
                                     "loads_compact_ok": dtot[3], "loads_indent2_ok": dtot[4], "text_cases": ltot[0], "loads_agrees": ltot[1]}
    for k, (_, x) in enumerate(everything):
        chk.count(("jsontext", k, json.dumps(x)[:200]), isinstance(x, (list, dict)) and len(x) > 0)
    return stats


if __name__ == "__main__":
    a = sys.argv[1:]
    sys.exit(selftest(int(a[0]) if a else 600, int(a[1]) if len(a) > 1 else 0, keep=os.environ.get("KEEP") == "1"))
