"""Python `ast` -> Coq terms of Lang/PyMini.v (expr / stmt), fail-closed.

`Unsupported` means the code is outside the mini-language: the case is dropped (and counted), never
guessed.  `None` results mean "Python itself rejects this text" (SyntaxError)."""
from __future__ import annotations

import ast

from .common import coq_str, coq_Z, coq_list, coq_bool


class Unsupported(Exception):
    pass


BINOPS = {ast.Add: "Add", ast.Sub: "Sub", ast.Mult: "Mul", ast.FloorDiv: "FloorDiv", ast.Mod: "Mod"}
CMPOPS = {ast.Eq: "Eq", ast.NotEq: "Ne", ast.Lt: "Lt", ast.LtE: "Le", ast.Gt: "Gt", ast.GtE: "Ge",
          ast.In: "In", ast.NotIn: "NotIn"}
METHODS = {"get", "count", "upper"}


def expr(n: ast.AST) -> str:
    if isinstance(n, ast.Constant):
        v = n.value
        if v is None:
            return "ENone"
        if isinstance(v, bool):
            return f"(EBool {coq_bool(v)})"
        if isinstance(v, int):
            return f"(EInt {coq_Z(v)})"
        if isinstance(v, str):
            if not all(ord(c) < 128 for c in v):
                raise Unsupported("non-ascii literal")
            return f"(EStr {coq_str(v)})"
        raise Unsupported(f"constant {v!r}")
    if isinstance(n, ast.Name):
        return f"(EName {coq_str(n.id)})"
    if isinstance(n, ast.BinOp):
        if type(n.op) not in BINOPS:
            raise Unsupported("binop")
        return f"(EBin {BINOPS[type(n.op)]} {expr(n.left)} {expr(n.right)})"
    if isinstance(n, ast.UnaryOp):
        if isinstance(n.op, ast.Not):
            return f"(ENot {expr(n.operand)})"
        if isinstance(n.op, ast.USub):
            if isinstance(n.operand, ast.Constant) and isinstance(n.operand.value, int) and not isinstance(n.operand.value, bool):
                return f"(EInt {coq_Z(-n.operand.value)})"
            return f"(ENeg {expr(n.operand)})"
        raise Unsupported("unaryop")
    if isinstance(n, ast.BoolOp):
        k = "EAnd" if isinstance(n.op, ast.And) else "EOr"
        acc = expr(n.values[-1])
        for v in reversed(n.values[:-1]):
            acc = f"({k} {expr(v)} {acc})"
        return acc
    if isinstance(n, ast.Compare):
        if len(n.ops) != 1 or type(n.ops[0]) not in CMPOPS:
            raise Unsupported("compare chain")
        return f"(ECmp {CMPOPS[type(n.ops[0])]} {expr(n.left)} {expr(n.comparators[0])})"
    if isinstance(n, ast.List):
        return f"(EList {coq_list(expr(e) for e in n.elts)})"
    if isinstance(n, ast.Tuple):
        return f"(ETuple {coq_list(expr(e) for e in n.elts)})"
    if isinstance(n, ast.Dict):
        items = []
        for k, v in zip(n.keys, n.values):
            if not (isinstance(k, ast.Constant) and isinstance(k.value, str)):
                raise Unsupported("dict key")
            items.append(f"({coq_str(k.value)}, {expr(v)})")
        return f"(EDict {coq_list(items)})"
    if isinstance(n, ast.Subscript):
        if isinstance(n.slice, ast.Slice):
            if n.slice.step is not None:
                raise Unsupported("slice step")
            lo = expr(n.slice.lower) if n.slice.lower is not None else "ENone"
            hi = expr(n.slice.upper) if n.slice.upper is not None else "ENone"
            return f"(ESlice {expr(n.value)} {lo} {hi})"
        return f"(EIndex {expr(n.value)} {expr(n.slice)})"
    if isinstance(n, ast.Attribute):
        return f"(EAttr {expr(n.value)} {coq_str(n.attr)})"
    if isinstance(n, ast.Call):
        if n.keywords:
            raise Unsupported("call keywords")
        if isinstance(n.func, ast.Name):
            return f"(ECall {coq_str(n.func.id)} {coq_list(expr(a) for a in n.args)})"
        if isinstance(n.func, ast.Attribute) and n.func.attr in METHODS:
            return f"(EMeth {expr(n.func.value)} {coq_str(n.func.attr)} {coq_list(expr(a) for a in n.args)})"
        raise Unsupported("call form")
    if isinstance(n, ast.IfExp):
        return f"(EIfExp {expr(n.test)} {expr(n.body)} {expr(n.orelse)})"
    raise Unsupported(type(n).__name__)


def stmt(n: ast.AST) -> str:
    if isinstance(n, ast.Pass):
        return "SPass"
    if isinstance(n, ast.Assign):
        if len(n.targets) != 1:
            raise Unsupported("multi-target")
        t = n.targets[0]
        if isinstance(t, ast.Name):
            return f"(SAssign {coq_str(t.id)} {expr(n.value)})"
        if isinstance(t, ast.Subscript) and isinstance(t.value, ast.Name) and not isinstance(t.slice, ast.Slice):
            return f"(SSetItem {coq_str(t.value.id)} {expr(t.slice)} {expr(n.value)})"
        if isinstance(t, ast.Attribute) and isinstance(t.value, ast.Name):
            return f"(SSetAttr {coq_str(t.value.id)} {coq_str(t.attr)} {expr(n.value)})"
        raise Unsupported("assign target")
    if isinstance(n, ast.AugAssign):
        if type(n.op) not in BINOPS:
            raise Unsupported("augop")
        if isinstance(n.target, ast.Name):
            return f"(SAug {coq_str(n.target.id)} {BINOPS[type(n.op)]} {expr(n.value)})"
        if isinstance(n.target, ast.Attribute) and isinstance(n.target.value, ast.Name):
            return f"(SAugAttr {coq_str(n.target.value.id)} {coq_str(n.target.attr)} {BINOPS[type(n.op)]} {expr(n.value)})"
        raise Unsupported("aug target")
    if isinstance(n, ast.Expr):
        v = n.value
        if (isinstance(v, ast.Call) and isinstance(v.func, ast.Attribute) and v.func.attr == "append"
                and isinstance(v.func.value, ast.Name) and len(v.args) == 1 and not v.keywords):
            return f"(SAppend {coq_str(v.func.value.id)} {expr(v.args[0])})"
        return f"(SExpr {expr(v)})"
    raise Unsupported(type(n).__name__)


def parse_expr(code: str):
    """-> Coq `option expr` term."""
    try:
        tree = ast.parse(code.strip() if False else code, mode="eval")
    except (SyntaxError, ValueError):
        return "None"
    return f"(Some {expr(tree.body)})"


def parse_eval(code: str):
    """What eval(code) parses: leading/trailing blanks are allowed by eval (it strips leading spaces/tabs)."""
    try:
        tree = compile(code, "<e>", "eval", ast.PyCF_ONLY_AST)
    except (SyntaxError, ValueError):
        return "None"
    return f"(Some {expr(tree.body)})"


def parse_stmts(code: str):
    try:
        tree = ast.parse(code)
    except (SyntaxError, ValueError):
        return "None"
    return f"(Some {coq_list(stmt(s) for s in tree.body)})"


def parse_args(args: str):
    """What _parse_directive_args parses: f(<args>) -> positional, keyword expressions."""
    try:
        tree = ast.parse(f"__directive__({args})", mode="eval")
    except (SyntaxError, ValueError):
        return "None"
    call = tree.body
    if not isinstance(call, ast.Call):
        return "None"
    for a in call.args:
        if isinstance(a, ast.Starred):
            raise Unsupported("starred")
    for k in call.keywords:
        if k.arg is None:
            raise Unsupported("**kw")
    pos = coq_list(expr(a) for a in call.args)
    kw = coq_list(f"({coq_str(k.arg)}, {expr(k.value)})" for k in call.keywords)
    return f"(Some ({pos}, {kw}))"
