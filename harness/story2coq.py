"""Compiled story dict (what bardic's parse() returns) -> Coq terms of Story/Compiled.v, plus the
code tables of Lang/PyMini.v for every code string the engine model can ask about.  Fail-closed."""
from __future__ import annotations

from . import pymini
from .common import coq_str, coq_Z, coq_list, coq_bool, coq_opt, coq_nat, is_ascii
from .pymini import Unsupported

CMP_OPS = ["==", "!=", "<=", ">=", "::"]


def spec_colon(code: str):
    depth, quote, i = 0, None, 0
    while i < len(code):
        ch = code[i]
        if quote:
            if ch == "\\":
                i += 1
            elif ch == quote:
                quote = None
        elif ch in "\"'":
            quote = ch
        elif ch in "([{":
            depth += 1
        elif ch in ")]}":
            depth -= 1
        elif ch == ":" and depth == 0:
            return i
        i += 1
    return None


class Tables:
    def __init__(self):
        self.expr, self.stmt, self.args = {}, {}, {}
        self.classes = {}

    def want_expr(self, code: str):
        if code not in self.expr:
            self.expr[code] = pymini.parse_eval(code.lstrip(" \t"))

    def want_display(self, code: str):
        """An {expr} token: the engine splits a format spec at the first colon outside brackets and string
        literals (mirror of Engine.v spec_colon / BardEngine._split_format_spec)."""
        i = spec_colon(code)
        if i is not None:
            self.want_expr(code[:i].strip())
        else:
            self.want_expr(code)

    def want_stmt(self, code: str):
        if code not in self.stmt:
            self.stmt[code] = pymini.parse_stmts(code)

    def want_args(self, args: str):
        if args.strip() and args not in self.args:
            self.args[args] = pymini.parse_args(args)

    def want_spec(self, spec: str):
        """A passage spec 'Name(args)' handed to goto()."""
        if "(" in spec:
            i = spec.index("(")
            depth = 0
            for j in range(i, len(spec)):
                if spec[j] == "(":
                    depth += 1
                elif spec[j] == ")":
                    depth -= 1
                    if depth == 0:
                        self.want_args(spec[i + 1:j])
                        break

    def term(self) -> str:
        def tab(d):
            return coq_list(f"({coq_str(k)}, {v})" for k, v in d.items())
        cls = coq_list(f"({coq_str(k)}, {coq_list(coq_str(f) for f in v)})" for k, v in self.classes.items())
        return f"(mkTables {tab(self.expr)} {tab(self.stmt)} {tab(self.args)} {cls})"


def check_ascii(s):
    if not isinstance(s, str) or not is_ascii(s):
        raise Unsupported("non-ascii text")
    return s


def tokens(ts, tb: Tables) -> str:
    if isinstance(ts, str):
        # legacy plain-string content / choice text
        return coq_list([f"(TText {coq_str(check_ascii(ts))})"]) if ts else "[]"
    return coq_list(token(t, tb) for t in ts)


def choice(c, tb: Tables) -> str:
    cond = c.get("condition")
    if cond:
        tb.want_expr(cond)
    args = c.get("args", "") or ""
    tb.want_args(args)
    return "(Choice %s %s %s %s %s %s %s %s)" % (
        tokens(c["text"], tb), coq_str(check_ascii(c["target"])), coq_str(check_ascii(args)),
        coq_opt(cond, lambda s: coq_str(check_ascii(s))), coq_bool(c.get("sticky", True)),
        coq_nat(c.get("section", 0)), coq_list(coq_str(check_ascii(t)) for t in c.get("tags", []) or []),
        tokens(c.get("block_content", []), tb))


def token(t, tb: Tables) -> str:
    ty = t["type"]
    if ty == "text":
        return f"(TText {coq_str(check_ascii(t['value']))})"
    if ty == "expression":
        tb.want_display(t["code"])
        return f"(TExpr {coq_str(check_ascii(t['code']))})"
    if ty == "inline_conditional":
        tb.want_expr(t["condition"])
        if not isinstance(t["truthy"], list) or not isinstance(t["falsy"], list):
            raise Unsupported("legacy inline conditional")
        return f"(TInlineCond {coq_str(check_ascii(t['condition']))} {tokens(t['truthy'], tb)} {tokens(t['falsy'], tb)})"
    if ty == "conditional":
        brs = []
        for b in t.get("branches", []):
            cond = b.get("condition", "False")
            tb.want_expr(cond)
            brs.append(f"(Branch {coq_str(check_ascii(cond))} {tokens(b['content'], tb)} "
                       f"{coq_list(choice(c, tb) for c in b.get('choices', []))})")
        return f"(TCond {coq_list(brs)})"
    if ty == "for_loop":
        var, coll = t.get("variable") or "", t.get("collection") or ""
        if coll:
            tb.want_expr(coll)
        return (f"(TLoop {coq_str(check_ascii(var))} {coq_str(check_ascii(coll))} {tokens(t.get('content', []), tb)} "
                f"{coq_list(choice(c, tb) for c in t.get('choices', []))})")
    if ty == "jump":
        args = t.get("args", "") or ""
        tb.want_args(args)
        return f"(TJump {coq_str(check_ascii(t['target']))} {coq_str(check_ascii(args))})"
    if ty == "python_statement":
        tb.want_stmt(t["code"])
        return f"(TPyStmt {coq_str(check_ascii(t['code']))})"
    if ty == "python_block":
        tb.want_stmt(t["code"])
        return f"(TPyBlock {coq_str(check_ascii(t['code']))})"
    if ty == "hook":
        return f"(THook {coq_bool(t['action'] == 'add')} {coq_str(check_ascii(t['event']))} {coq_str(check_ascii(t['target']))})"
    if ty == "render_directive":
        args = t.get("args", "") or ""
        tb.want_args(args)
        fw = t.get("framework_hint")
        if fw:
            raise Unsupported("framework hint (uuid keys)")
        return f"(TRender {coq_str(check_ascii(t['name']))} {coq_str(check_ascii(args))} None)"
    if ty == "input":
        return f"(TInput {attrs(t)})"
    if ty == "join_marker":
        return f"(TJoinMarker {coq_nat(t.get('id', 0))})"
    raise Unsupported(f"token kind {ty}")


def attrs(t) -> str:
    return coq_list(f"({coq_str(check_ascii(k))}, {coq_str(check_ascii(v))})" for k, v in t.items() if k != "type")


def passage(p, tb: Tables) -> str:
    ps = []
    for prm in p.get("params", []) or []:
        d = prm.get("default")
        if d is not None:
            tb.want_expr(d)
        ps.append(f"(mkParam {coq_str(check_ascii(prm['name']))} {coq_opt(d, lambda s: coq_str(check_ascii(s)))})")
    return "(mkPassage %s %s %s %s %s %s %s)" % (
        coq_str(check_ascii(p["id"])), coq_list(ps), tokens(p["content"], tb),
        coq_list(choice(c, tb) for c in p["choices"]), tokens(p.get("execute", []), tb),
        coq_list(coq_str(check_ascii(t)) for t in p.get("tags", []) or []),
        coq_list(attrs(d) for d in p.get("input_directives", []) or []))


def story(st, tb: Tables) -> str:
    ps = coq_list(f"({coq_str(check_ascii(k))}, {passage(p, tb)})" for k, p in st["passages"].items())
    md = coq_list(f"({coq_str(check_ascii(k))}, {coq_str(check_ascii(str(v)))})" for k, v in (st.get("metadata") or {}).items())
    imps = coq_list(coq_str(check_ascii(s)) for s in st.get("imports", []))
    init = st.get("initial_passage") or ""
    return f"(mkStory {coq_str(check_ascii(init))} {ps} {imps} {md})"


# ---------------- values ----------------

def value(v, classes=None) -> str:
    if v is None:
        return "VNone"
    if isinstance(v, bool):
        return f"(VBool {coq_bool(v)})"
    if isinstance(v, int):
        return f"(VInt {coq_Z(v)})"
    if isinstance(v, str):
        return f"(VStr {coq_str(check_ascii(v))})"
    if isinstance(v, list):
        return f"(VList {coq_list(value(x, classes) for x in v)})"
    if isinstance(v, tuple):
        return f"(VTuple {coq_list(value(x, classes) for x in v)})"
    if isinstance(v, dict):
        if not all(isinstance(k, str) for k in v):
            raise Unsupported("non-string dict key")
        return f"(VDict {coq_list('(%s, %s)' % (coq_str(check_ascii(k)), value(x, classes)) for k, x in v.items())})"
    if isinstance(v, type):
        return f"(VClass {coq_str(v.__name__)})"
    if classes and type(v).__name__ in classes and hasattr(v, "__dict__"):
        return (f"(VObj {coq_str(type(v).__name__)} "
                f"{coq_list('(%s, %s)' % (coq_str(k), value(x, classes)) for k, x in v.__dict__.items())})")
    raise Unsupported(f"value of type {type(v).__name__}")


def env(d, classes=None) -> str:
    return coq_list(f"({coq_str(check_ascii(k))}, {value(v, classes)})" for k, v in d.items())
