"""storygen - random bardic stories as ASTs of the *documented* language, and a styled printer.

Written for C17 (surface forms compile identically) but independent of it: other checks can import
the generator and the printer to obtain valid `.bard` text.  Everything is ASCII; all randomness comes
from the `random.Random` handed in.

API
---
  gen_story(rng, n_passages=None, depth=2, colon_headers=('if','for')) -> Story
                                                            a valid story (compiles on the pinned tree);
                                                            colon_headers: constructs whose header may (rarely)
                                                            contain a ':' such as @if xs[0:1]:
  print_story(story, style=BASE) -> Printed                 .text (str), .lines (list[Line])
  Style(legacy=frozenset(), indent=(), hash_at=frozenset(), trailing=None, comment='note', join_indent='    ',
        hash_col0=False, hash_where='every')
  BASE                                                      the baseline style: @-forms, no comments, bodies
                                                            not indented, join blocks indented by 4 spaces
  line_kinds(printed) -> set[(kind, ctx)]                   the commentable line kinds present
  constructs(story) -> collections.Counter                  how many of each construct (evidence)
  has_block(story) -> bool                                  at least one @if/@for/@py/join block
  shrink(story, still_fails) -> Story                       greedy deletion of passages/items/branches
  well_formed(story) -> bool                                the generator guarantees a reduction must keep
  py_shape(lines) / py_body_tags(story)                     blank-line shapes of Python blocks (evidence, signatures)
  story_to_json(story) / story_from_json(obj)               replay files

AST (dataclasses; `kind` is the class name)
  Story(start: str|None, passages: [Passage])               start -> an `@start Name` line at the top
  Passage(name, params: [(name, default|None)], tags: [str], body: [Item])
  Item =
    Text(src, glue=False, tags=[])      one content line; `src` is source text which may contain {expr},
                                        {c ? a | b}, `\\//` (escaped slashes) and `//=`
    Blank()
    Stmt(code)                          ~ code            (code may contain '\n': a multi-line statement whose first
                                        line ends in an open bracket; the following lines are Python continuation
                                        lines with their relative indentation, the last one closes the bracket)
    PyBlock(lines)                      @py: ... @endpy   (lines keep their relative indentation; '' is a blank line,
                                        a non-empty line of blanks/tabs is a whitespace-only line and is part of the
                                        block as written.  Normal form: the first non-blank line starts at column 0.
                                        The `under-indented` family is written as the author wrote it: the first
                                        non-blank line is indented and some later non-blank lines - continuation lines
                                        of a bracketed expression, lines of a triple-quoted string - are indented
                                        LESS; py_dedent(lines) is what the documented dedent rule makes of it)
    If(branches: [(cond|None, [Item])]) first cond is the @if, None is @else (last)
    For(var, coll, body)
    Jump(target, args='')
    Choice(sticky, cond, text, target, args='', tags=[], block=None)   block: [Item] only when target == '@join'
    Render(name, args=None, hint=None)
    Input(name, placeholder=None, label=None)
    Hook(event, target, remove=False)
    Join()                              the @join marker
  Contexts: 'top' (passage body), 'if', 'for' (innermost enclosing block), 'join' (block under a -> @join choice).
  Allowed: top: everything; if/for: everything except Join and join choices; join: Text (no glue), Blank, Stmt, Hook.

Styles (what the printer can vary without changing the AST)
  legacy     subset of {'if','for','py'}: <<if c>>/<<elif c>>/<<else>>/<<endif>>, <<for x in c>>/<<endfor>>,
             <<py ... >> instead of the @-forms
  indent     tuple of (construct, prefix) with construct in {'if','for','py'}: bodies of that construct are
             indented by `prefix` per nesting level (blank lines stay empty, whitespace-only lines of a Python
             block stay as written - the convention of uniform_indent_invisible in Props/C17.v); the continuation
             lines of a multi-line `~` statement are indented with the statement; join_indent is the (mandatory,
             non-empty) indentation of join blocks
  hash_at    positions where a `# comment` line is inserted before every item and at the end of the body:
             'file-top' (before the first passage), 'top', 'if', 'for', 'join'
  hash_where 'every' (as above) or 'first' (only before the first item of each body)
  hash_col0  the `# comment` lines of @if/@for bodies are written at column 0 whatever the indentation of the
             body (not applied to join blocks, where a column-0 line ends the block by design)
  trailing   (kind, ctx): ` // comment` appended to every line of that kind in that context

Line kinds (Line.kind): start, header, header+params, header+tags, header+params+tags, text, text-glue, stmt,
  stmt-open (first line of a multi-line statement), jump, jump+args, choice, choice-join, @render, @input, @hook,
  @unhook, @join, @if @elif @else @endif @for @endfor @py: @endpy, <<if>> <<elif>> <<else>> <<endif>> <<for>>
  <<endfor>> <<py >>, and the non-commentable py-body, stmt-cont (Python continuation line), blank, hash.

Generator guarantees (so that style variants are comparable): a top-level Blank never directly follows a
join choice (the parser would move it between block and passage depending on a comment line in between);
text never starts with a character that starts another line kind; on story lines `//` occurs only as `\\//` or
`//=` (on the continuation lines of a multi-line `~` statement and in Python blocks it is Python's floor division);
`^` only in tags at the end of a line; calls match the callee's parameters.  Multi-line `~` statements: the first
line ends in `[`, `{` or `(` (what directives.extract_multiline_expression continues), brackets inside string
literals are balanced, continuation lines never start with `#`; inside join blocks only shapes whose continuation
lines do not start with `+`/`*` and contain no braces are generated.  Python blocks are valid Python after
the documented dedent (py_dedent: the indentation of the first non-blank line is removed from every line that has
at least that much, lines with less are left as written; checked with ast.parse by the generator and by the
shrinker).  A line indented less than the first one only occurs inside a bracketed expression or a triple-quoted
string (the only places where Python allows it).
"""
from __future__ import annotations

import ast
import collections
import copy
from dataclasses import dataclass, field, asdict
from typing import Optional


# ------------------------------------------------------------------------------------------------
# AST
# ------------------------------------------------------------------------------------------------

@dataclass
class Text:
    src: str
    glue: bool = False
    tags: list = field(default_factory=list)


@dataclass
class Blank:
    pass


@dataclass
class Stmt:
    code: str


@dataclass
class PyBlock:
    lines: list


@dataclass
class If:
    branches: list  # [(cond | None, [Item])]


@dataclass
class For:
    var: str
    coll: str
    body: list


@dataclass
class Jump:
    target: str
    args: str = ""


@dataclass
class Choice:
    sticky: bool
    cond: Optional[str]
    text: str
    target: str
    args: str = ""
    tags: list = field(default_factory=list)
    block: Optional[list] = None


@dataclass
class Render:
    name: str
    args: Optional[str] = None
    hint: Optional[str] = None


@dataclass
class Input:
    name: str
    placeholder: Optional[str] = None
    label: Optional[str] = None


@dataclass
class Hook:
    event: str
    target: str
    remove: bool = False


@dataclass
class Join:
    pass


@dataclass
class Passage:
    name: str
    params: list
    tags: list
    body: list


@dataclass
class Story:
    start: Optional[str]
    passages: list


ITEM_CLASSES = {c.__name__: c for c in (Text, Blank, Stmt, PyBlock, If, For, Jump, Choice, Render, Input, Hook, Join)}


def item_to_json(it):
    k = type(it).__name__
    if k == "If":
        return {"k": k, "branches": [[c, [item_to_json(x) for x in b]] for c, b in it.branches]}
    if k == "For":
        return {"k": k, "var": it.var, "coll": it.coll, "body": [item_to_json(x) for x in it.body]}
    if k == "Choice":
        d = asdict(it)
        d["block"] = None if it.block is None else [item_to_json(x) for x in it.block]
        d["k"] = k
        return d
    d = asdict(it)
    d["k"] = k
    return d


def item_from_json(d):
    d = dict(d)
    k = d.pop("k")
    if k == "If":
        return If([(c, [item_from_json(x) for x in b]) for c, b in d["branches"]])
    if k == "For":
        return For(d["var"], d["coll"], [item_from_json(x) for x in d["body"]])
    if k == "Choice":
        blk = d.pop("block")
        return Choice(block=None if blk is None else [item_from_json(x) for x in blk], **d)
    return ITEM_CLASSES[k](**d)


def story_to_json(s: Story):
    return {"start": s.start, "passages": [
        {"name": p.name, "params": [list(x) for x in p.params], "tags": p.tags,
         "body": [item_to_json(i) for i in p.body]} for p in s.passages]}


def story_from_json(o) -> Story:
    return Story(o["start"], [Passage(p["name"], [tuple(x) for x in p["params"]], list(p["tags"]),
                                      [item_from_json(i) for i in p["body"]]) for p in o["passages"]])


# ------------------------------------------------------------------------------------------------
# styles and the printer
# ------------------------------------------------------------------------------------------------

@dataclass(frozen=True)
class Style:
    legacy: frozenset = frozenset()
    indent: tuple = ()
    hash_at: frozenset = frozenset()
    trailing: Optional[tuple] = None
    comment: str = "note"
    join_indent: str = "    "
    hash_col0: bool = False
    hash_where: str = "every"

    def unit(self, construct):
        for c, p in self.indent:
            if c == construct:
                return p
        return ""


BASE = Style()


@dataclass
class Line:
    text: str
    kind: str
    ctx: str
    indent: str = ""


@dataclass
class Printed:
    text: str
    lines: list


NOT_COMMENTABLE = {"py-body", "stmt-cont", "blank", "hash"}


class _Printer:
    def __init__(self, style: Style):
        self.st = style
        self.out: list[Line] = []

    def emit(self, indent, text, kind, ctx):
        if kind not in NOT_COMMENTABLE and self.st.trailing == (kind, ctx):
            text = text + " // " + self.st.comment
        self.out.append(Line(indent + text, kind, ctx, indent))

    def hash(self, pos, indent, first=True):
        if pos in self.st.hash_at and (first or self.st.hash_where == "every"):
            if self.st.hash_col0 and pos in ("if", "for"):
                indent = ""
            self.out.append(Line(indent + "# " + self.st.comment, "hash", pos, indent))

    # -- items --
    def body(self, items, ctx, indent):
        for n, it in enumerate(items):
            self.hash(ctx, indent, n == 0)
            self.item(it, ctx, indent)
        self.hash(ctx, indent, not items)

    def item(self, it, ctx, indent):
        st = self.st
        k = type(it).__name__
        if k == "Text":
            src = it.src + "".join(" ^" + t for t in it.tags)
            if it.glue:
                self.emit(indent, src + "<>", "text-glue", ctx)
            else:
                self.emit(indent, src, "text", ctx)
        elif k == "Blank":
            self.out.append(Line("", "blank", ctx, ""))
        elif k == "Stmt":
            first, *cont = it.code.split("\n")
            if not cont:
                self.emit(indent, "~ " + first, "stmt", ctx)
            else:
                self.emit(indent, "~ " + first, "stmt-open", ctx)
                for ln in cont:
                    self.out.append(Line((indent + ln) if ln.strip() else "", "stmt-cont", ctx,
                                         indent if ln.strip() else ""))
        elif k == "PyBlock":
            legacy = "py" in st.legacy
            self.emit(indent, "<<py" if legacy else "@py:", "<<py" if legacy else "@py:", ctx)
            bi = indent + st.unit("py")
            for ln in it.lines:
                # blank lines stay empty and whitespace-only lines stay as written, whatever the indentation
                self.out.append(Line((bi + ln) if ln.strip() else ln, "py-body", "py-legacy" if legacy else "py",
                                     bi if ln.strip() else ""))
            self.emit(indent, ">>" if legacy else "@endpy", ">>" if legacy else "@endpy", ctx)
        elif k == "If":
            legacy = "if" in st.legacy
            bi = indent + st.unit("if")
            for n, (cond, body) in enumerate(it.branches):
                if n == 0:
                    self.emit(indent, f"<<if {cond}>>" if legacy else f"@if {cond}:", "<<if>>" if legacy else "@if", ctx)
                elif cond is not None:
                    self.emit(indent, f"<<elif {cond}>>" if legacy else f"@elif {cond}:",
                              "<<elif>>" if legacy else "@elif", "if")
                else:
                    self.emit(indent, "<<else>>" if legacy else "@else:", "<<else>>" if legacy else "@else", "if")
                self.body(body, "if", bi)
            self.emit(indent, "<<endif>>" if legacy else "@endif", "<<endif>>" if legacy else "@endif", "if")
        elif k == "For":
            legacy = "for" in st.legacy
            bi = indent + st.unit("for")
            self.emit(indent, f"<<for {it.var} in {it.coll}>>" if legacy else f"@for {it.var} in {it.coll}:",
                      "<<for>>" if legacy else "@for", ctx)
            self.body(it.body, "for", bi)
            self.emit(indent, "<<endfor>>" if legacy else "@endfor", "<<endfor>>" if legacy else "@endfor", "for")
        elif k == "Jump":
            if it.args:
                self.emit(indent, f"-> {it.target}({it.args})", "jump+args", ctx)
            else:
                self.emit(indent, f"-> {it.target}", "jump", ctx)
        elif k == "Choice":
            s = "+ " if it.sticky else "* "
            if it.cond is not None:
                s += "{" + it.cond + "} "
            s += f"[{it.text}] -> {it.target}"
            if it.args:
                s += f"({it.args})"
            s += "".join(" ^" + t for t in it.tags)
            if it.target == "@join":
                self.emit(indent, s, "choice-join", ctx)
                bi = indent + st.join_indent
                for n, b in enumerate(it.block or []):
                    self.hash("join", bi, n == 0)
                    self.item(b, "join", bi)
                if it.block:
                    self.hash("join", bi, False)
            else:
                self.emit(indent, s, "choice", ctx)
        elif k == "Render":
            s = "@render" + (":" + it.hint if it.hint else "") + " " + it.name
            if it.args is not None:
                s += f"({it.args})"
            self.emit(indent, s, "@render", ctx)
        elif k == "Input":
            s = f'@input name="{it.name}"'
            if it.placeholder is not None:
                s += f' placeholder="{it.placeholder}"'
            if it.label is not None:
                s += f' label="{it.label}"'
            self.emit(indent, s, "@input", ctx)
        elif k == "Hook":
            kw = "@unhook" if it.remove else "@hook"
            self.emit(indent, f"{kw} {it.event} {it.target}", kw, ctx)
        elif k == "Join":
            self.emit(indent, "@join", "@join", ctx)
        else:
            raise AssertionError(k)

    def story(self, s: Story):
        self.hash("file-top", "")
        if s.start is not None:
            self.emit("", f"@start {s.start}", "start", "top")
        for n, p in enumerate(s.passages):
            head = ":: " + p.name
            kind = "header"
            if p.params:
                head += "(" + ", ".join(a if d is None else f"{a}={d}" for a, d in p.params) + ")"
                kind += "+params"
            if p.tags:
                head += "".join(" ^" + t for t in p.tags)
                kind += "+tags"
            self.emit("", head, kind, "top")
            self.body(p.body, "top", "")
            if n + 1 < len(s.passages):
                self.out.append(Line("", "blank", "top", ""))


def print_story(story: Story, style: Style = BASE) -> Printed:
    pr = _Printer(style)
    pr.story(story)
    return Printed("\n".join(l.text for l in pr.out) + "\n", pr.out)


def line_kinds(printed: Printed):
    return {(l.kind, l.ctx) for l in printed.lines if l.kind not in NOT_COMMENTABLE}


def walk(items, ctx="top"):
    """Yield (item, ctx) for every item at any depth."""
    for it in items:
        yield it, ctx
        k = type(it).__name__
        if k == "If":
            for _, b in it.branches:
                yield from walk(b, "if")
        elif k == "For":
            yield from walk(it.body, "for")
        elif k == "Choice" and it.block:
            yield from walk(it.block, "join")


def constructs(story: Story):
    c = collections.Counter()
    c["passage"] = len(story.passages)
    if story.start is not None:
        c["@start"] += 1
    for p in story.passages:
        if p.params:
            c["passage+params"] += 1
        if p.tags:
            c["passage+tags"] += 1
        for it, ctx in walk(p.body):
            k = type(it).__name__
            name = k
            if k == "Choice":
                name = "Choice-join" if it.target == "@join" else "Choice"
                if it.cond is not None:
                    c["Choice+cond"] += 1
                if it.block:
                    c["join-block"] += 1
            elif k == "Text":
                if it.glue:
                    c["Text+glue"] += 1
                if "{" in it.src:
                    c["Text+expr"] += 1
                if "?" in it.src and "|" in it.src:
                    c["Text+inline-cond"] += 1
                if "\\//" in it.src:
                    c["Text+escaped-slashes"] += 1
            elif k == "Stmt":
                if "//=" in it.code:
                    c["Stmt+floordiv-assign"] += 1
                if "\n" in it.code:
                    cont = it.code.split("\n")[1:]
                    c["Stmt+multiline"] += 1
                    c[f"Stmt+multiline@{ctx}"] += 1
                    if any("//" in l for l in cont):
                        c["Stmt+multiline+floordiv-on-continuation"] += 1
                        c[f"Stmt+multiline+floordiv-on-continuation@{ctx}"] += 1
                    if any("->" in l or "<>" in l for l in cont):
                        c["Stmt+multiline+arrow-or-glue-in-string"] += 1
                    if any(l.lstrip()[:2] in ("+ ", "* ", "- ") for l in cont):
                        c["Stmt+multiline+leading-operator"] += 1
            elif k == "PyBlock":
                for tag in py_shape(it.lines):
                    c["PyBlock+" + tag] += 1
                    if ctx != "top":
                        c[f"nested:PyBlock+{tag}@{ctx}"] += 1
            elif k == "If":
                c["If-branches"] += len(it.branches)
            c[name] += 1
            if ctx != "top":
                c[f"nested:{name}@{ctx}"] += 1
    return c


def is_ws_only(line: str) -> bool:
    return line != "" and line.strip() == ""


def _lead(line: str) -> int:
    return len(line) - len(line.lstrip())


def py_dedent(lines):
    """The documented dedent of the body of a Python block, written independently of the implementation: the
    indentation of the first non-blank line is the base; a non-blank line with at least that much indentation loses
    exactly that many characters, a non-blank line with less is kept as written; blank and whitespace-only lines
    become empty lines."""
    base = next((_lead(l) for l in lines if l.strip()), None)
    if base is None:
        return ["" for _ in lines]
    return [("" if not l.strip() else l[base:] if _lead(l) >= base else l) for l in lines]


def py_block_ok(lines) -> bool:
    """Valid Python once dedented (what both block syntaxes hand to the engine)."""
    return python_ok("\n".join(py_dedent(lines)))


def under_indented(lines) -> bool:
    """Some non-blank line is indented less than the first non-blank line."""
    real = [l for l in lines if l.strip()]
    return bool(real) and any(_lead(l) < _lead(real[0]) for l in real)


def under_indented_kinds(lines):
    """Where the under-indented lines of a block stand: 'bracket' (continuation line of a bracketed expression) and/or
    'triple-quote' (line of a triple-quoted string); read off Python's own tokenizer on the dedented block."""
    import io
    import tokenize
    real = [l for l in lines if l.strip()]
    if not under_indented(lines):
        return set()
    base = _lead(real[0])
    rows = {n + 1 for n, l in enumerate(lines) if l.strip() and _lead(l) < base}
    kinds = set()
    try:
        for tok in tokenize.generate_tokens(io.StringIO("\n".join(py_dedent(lines)) + "\n").readline):
            if tok.type == tokenize.STRING and tok.start[0] != tok.end[0]:
                if any(tok.start[0] < r <= tok.end[0] for r in rows):
                    kinds.add("triple-quote")
                    rows -= {r for r in rows if tok.start[0] < r <= tok.end[0]}
    except (tokenize.TokenError, IndentationError, SyntaxError):
        return {"unknown"}
    if rows:
        kinds.add("bracket")
    return kinds


def py_shape(lines):
    """Structural tags of the body of a Python block (evidence and signatures)."""
    tags = []
    real = [i for i, l in enumerate(lines) if l.strip()]
    if real and lines[real[0]][0] in " \t":
        tags.append("first-line-indented")
    if under_indented(lines):
        tags.append("under-indented")
        tags += sorted("under-indented:" + k for k in under_indented_kinds(lines))
    if lines and lines[0] == "":
        tags.append("leading-blank")
    if lines and lines[-1] == "" and real:
        tags.append("trailing-blank")
    if real and any(not lines[i].strip() for i in range(real[0], real[-1])):
        tags.append("blank-inside")
    if any(is_ws_only(l) for l in lines):
        tags.append("ws-only-line")
    if any(l.strip() and l[0] in " \t" for l in lines):
        tags.append("nested-indentation")
    return tags


def py_body_tags(story: Story):
    """The shapes of the Python blocks of a story that take part in signatures (blank-line shapes; a line indented less
    than the block's first line)."""
    tags = set()
    for p in story.passages:
        for it, _ in walk(p.body):
            if isinstance(it, PyBlock):
                tags.update(t for t in py_shape(it.lines) if t in ("leading-blank", "ws-only-line", "under-indented"))
    return sorted(tags)


def well_formed(story: Story) -> bool:
    """The generator guarantees that the shrinker could break: a join choice is never the last item of a passage body
    and is never directly followed by a blank line (the blank line / the end of the file would belong to its block or
    to the passage depending on a comment line in between)."""
    for p in story.passages:
        for n, it in enumerate(p.body):
            if isinstance(it, Choice) and it.target == "@join":
                if n + 1 == len(p.body) or isinstance(p.body[n + 1], Blank):
                    return False
    return True


def has_under_indented_py(story: Story) -> bool:
    return any(isinstance(it, PyBlock) and under_indented(it.lines) for p in story.passages for it, _ in walk(p.body))


def has_block(story: Story) -> bool:
    for p in story.passages:
        for it, _ in walk(p.body):
            k = type(it).__name__
            if k in ("If", "For", "PyBlock") or (k == "Choice" and it.block):
                return True
    return False


# ------------------------------------------------------------------------------------------------
# generator
# ------------------------------------------------------------------------------------------------

WORDS = ["the", "cards", "whisper", "softly", "you", "see", "a", "door", "light", "fades", "slowly", "and", "wait",
         "market", "is", "busy", "rain", "falls", "over", "old", "town", "she", "smiles", "coins", "left", "maybe"]
INT_VARS = ["n", "m", "hp", "gold"]
FLAGS = ["flag", "seen"]


def _word(rng):
    return rng.choice(WORDS)


def gen_expr(rng):
    return rng.choice(["n", "hp", "gold + 1", "n * 2", "len(xs)", "name", "xs[0]", 'd["k"]', "name.upper()",
                       "n:>3", "gold:.1f", "max(n, m)"])


def gen_cond(rng, allow_colon=False):
    if allow_colon and rng.random() < 0.04:
        return rng.choice(["xs[0:1]", 'd["k"] in xs[1:]'])
    return rng.choice(["n > 1", "flag", "not seen", "hp <= 10 and flag", 'name == "Ann"', "gold >= 5 or seen",
                       "len(xs) > 0", "n != m", "m < 3"])


def gen_text_src(rng, ctx):
    first = _word(rng).capitalize()
    if rng.random() < 0.1:
        first = "- " + first
    parts = [first]
    for _ in range(rng.randint(0, 5)):
        r = rng.random()
        if r < 0.18:
            parts.append("{" + gen_expr(rng) + "}")
        elif r < 0.25:
            parts.append("{" + gen_cond(rng) + " ? " + _word(rng) + " | " + _word(rng) + "}")
        elif r < 0.28:
            parts.append("{flag ? {n} " + _word(rng) + " | none}")
        elif r < 0.34:
            parts.append("http:\\//example.org/" + _word(rng))
        elif r < 0.36:
            parts.append("a //= b")
        elif r < 0.40:
            parts.append("*" + _word(rng) + "*")
        elif r < 0.43:
            parts.append("50/50")
        elif r < 0.45:
            parts.append("x <> y")
        else:
            parts.append(_word(rng))
    s = " ".join(parts)
    if rng.random() < 0.25:
        s += rng.choice([".", "!", "?", ","])
    return s


def gen_text(rng, ctx):
    t = Text(gen_text_src(rng, ctx))
    if ctx != "join" and rng.random() < 0.15:
        t.glue = True
    elif rng.random() < 0.08:
        t.tags = [rng.choice(["mood", "calm", "hint:soft"])]
    return t


# elements of multi-line statements: Python operators and string contents that look like bardic syntax
ML_NUM = ["n // 2", "n", "m", "hp + 1", "gold // (m + 1)", "len(xs)", "n ^ m", "max(n, m) // 3", "(n + m) // 2"]
ML_ANY = ML_NUM + ['"go -> Hall"', '"x <> y"', '"left<>"', '"50/50"', '"[ok]"', '"a // b"', "[n // 2, m]", "(n, m)"]
ML_SHAPES = ["list", "list", "list-close-on-last", "dict", "sum", "augmented", "call", "call", "nested", "open-tail"]
ML_SHAPES_JOIN = ["list", "list-close-on-last", "call"]


def python_ok(code: str) -> bool:
    try:
        ast.parse(code)
        return True
    except SyntaxError:
        return False


def gen_multiline_stmt(rng, ctx):
    """A `~` statement continued over several lines: the first line ends in an open bracket."""
    rel = rng.choice(["    ", "    ", "  ", "\t", ""])      # relative indentation of the continuation lines
    v = rng.choice(["vals", "halves", "parts"])
    iv = rng.choice(INT_VARS)
    shape = rng.choice(ML_SHAPES_JOIN if ctx == "join" else ML_SHAPES)
    pool = [e for e in ML_ANY if "{" not in e] if ctx == "join" else ML_ANY
    elems = [rng.choice(pool) for _ in range(rng.randint(1, 3))]
    nums = [rng.choice(ML_NUM) for _ in range(rng.randint(2, 3))]
    close_rel = "" if rng.random() < 0.8 else rel
    if shape == "list":
        lines = [f"{v} = ["] + [rel + e + "," for e in elems] + [close_rel + "]"]
    elif shape == "list-close-on-last":
        lines = [f"{v} = ["] + [rel + e + "," for e in elems[:-1]] + [rel + elems[-1] + "]"]
    elif shape == "dict":
        lines = ["d = {"] + [rel + f'"{k}": {e},' for k, e in zip(("k", "half", "w"), elems)] + [close_rel + "}"]
    elif shape in ("sum", "augmented"):
        ops = [rng.choice(["+", "*", "-", "//"]) for _ in nums[1:]]
        if rng.random() < 0.5:        # operator first on the continuation line (looks like a choice / a comment)
            body = [rel + nums[0]] + [rel + o + " " + t for o, t in zip(ops, nums[1:])]
        else:                         # operator last
            body = [rel + t + " " + o for t, o in zip(nums, ops)] + [rel + nums[-1]]
        lines = [f"{iv} = (" if shape == "sum" else f"{iv} += ("] + body + [close_rel + ")"]
    elif shape == "call":
        if rng.random() < 0.5:
            lines = [f"{iv} = max("] + [rel + t + "," for t in nums] + [close_rel + ")"]
        else:
            lines = ["xs.append(", rel + nums[0], close_rel + ")"]
    elif shape == "nested":
        lines = [f"{v} = [", rel + "[" + nums[0] + ",", rel + " " + nums[1] + "],", rel + "[1, 2],", close_rel + "]"]
    else:  # open-tail: more than one bracket left open by the first line
        lines = ['d = {"k": ['] + [rel + e + "," for e in elems] + [close_rel + "]}"]
    if ctx != "join" and len(lines) > 3 and rng.random() < 0.1:
        lines.insert(2, "")           # Python allows blank lines inside brackets
    code = "\n".join(lines)
    assert python_ok(code), code
    return Stmt(code)


def gen_stmt(rng, ctx="top", multiline=0.3):
    if rng.random() < multiline:
        return gen_multiline_stmt(rng, ctx)
    v = rng.choice(INT_VARS)
    return Stmt(rng.choice([
        f"{v} = {rng.randint(0, 20)}", f"{v} += 1", f"{v} -= 2", f"{v} //= 2", f"{v} = {v} * 2 + 1",
        "xs = [1, 2, 3]", "xs.append(n)", 'd = {"k": n}', 'name = "Ann"', "flag = not flag", "seen = True",
        'url = "http:\\//example.org"', f"{v} //= m + 1", f"{v} = max({v}, 3)"]))


PY_BLOCKS = [
    ["x = 1"],
    ["total = 0", "for v in [1, 2]:", "    total += v"],
    ["if n > 1:", "    big = True", "else:", "    big = False"],
    ["# python comment", "half = n // 2"],
    ["n //= 2", "", "m = n"],
    ["def f(a):", "    if a:", "        return 1", "    return 0", "r = f(n)"],
]


PY_FLAT = ["x = 1", "total = 0", "half = n // 2", "n //= 2", 'msg = "go -> Hall"', 'note = "a <> b"',
           "# python comment", "m = n", 'url = "http://example.org"', "big = n > 1  # why", "ratio = gold // (m + 1)"]
PY_COMPOUND = [
    ["for v in [1, 2]:", "    total += v"],
    ["if n > 1:", "    big = True", "else:", "    big = False"],
    ["def f(a):", "    if a:", "        return 1", "    return 0", "r = f(n)"],
    ["for v in xs:", "    if v:", "        total += v // 2", "", "    m = v"],
    ["if flag:", "\tn = 1", "else:", "\tn = 2"],
    ["while n > 10:", "    n //= 2"],
    ["xs = [", "    n // 2,", "    m,", "]"],
    ["for v in xs:", "    # inner comment", "    if v > 1:", "        m = v // 2", "    ", "    n = m"],
]
WS_ONLY = ["  ", "    ", "\t", " "]


UI_BASES = ["  ", "    ", "    ", "      ", "\t", "\t\t", " \t"]
UI_ELEMS = ["'squire'", "'knight'", "n // 2", "m", '"go -> Hall"', '"a <> b"', "hp + 1", "[1, 2]", "(n, m)", '"50/50"']
# lines of a triple-quoted string (none is a block closer: a line `>>` / `@endpy` ends the block by design)
UI_WORDS = ["Fortune favours", "the bold", "go -> Hall", "a // b", "  two spaces in", "# not a comment", "{n} coins",
            "+ [Not a choice] -> Hall", "x >> 2", "~ n = 1"]


def _under(rng, base):
    """An indentation strictly shorter than `base` (a proper prefix of it, or nothing)."""
    return base[:rng.randrange(len(base))]


def _ui_construct(rng, base):
    """One multi-line construct whose first line stands at `base` and whose further lines are free to stand anywhere:
    -> (lines, at least one further line is under-indented)."""
    def where():
        # under-indented (most of the time), at the base, or deeper than the base
        r = rng.random()
        return _under(rng, base) if r < 0.6 else base if r < 0.8 else base + rng.choice(["  ", "    ", "\t"])

    v = rng.choice(["ranks", "vals", "parts"])
    kind = rng.choice(["list", "list", "dict", "call", "sum", "nested", "triple", "triple", "triple-arg", "list-close-on-last"])
    if kind in ("triple", "triple-arg"):
        q = rng.choice(["'''", '"""'])
        words = [w for w in rng.sample(UI_WORDS, rng.randint(1, 3)) if q[0] not in w]
        head = base + (f"motto = {q}" if kind == "triple" else f"xs.append({q}") + rng.choice(["", "", "First line"])
        body = [where() + w for w in words]
        if rng.random() < 0.3:
            body.insert(rng.randrange(len(body) + 1), "")          # an empty line inside the string
        close = q + (")" if kind == "triple-arg" else "")
        if rng.random() < 0.5 and body and body[-1].strip():
            body[-1] += close                                        # the string ends on its last text line
        else:
            body.append(where() + close)
        return [head] + body
    elems = [rng.choice(UI_ELEMS) for _ in range(rng.randint(1, 3))]
    if kind == "list":
        return [base + f"{v} = ["] + [where() + e + "," for e in elems] + [where() + "]"]
    if kind == "list-close-on-last":
        return [base + f"{v} = ["] + [where() + e + "," for e in elems[:-1]] + [where() + elems[-1] + "]"]
    if kind == "dict":
        return [base + "d = {"] + [where() + f'"{k}": {e},' for k, e in zip(("k", "half", "w"), elems)] + [where() + "}"]
    if kind == "call":
        return [base + "n = max("] + [where() + e + "," for e in ["n", "m", "hp + 1"][:len(elems)]] + [where() + "1)"]
    if kind == "sum":
        return [base + "n = ("] + [where() + "n"] + [where() + rng.choice(["+", "//", "*"]) + " " + t
                                                     for t in ["m", "2", "hp"][:len(elems)]] + [where() + ")"]
    return [base + f"{v} = [", where() + "[n,", where() + " m],", where() + "[1, 2],", where() + "]"]


def gen_under_indented_py_block(rng):
    """A Python block as an author may write it whose first line is indented and which contains lines indented LESS
    than the first one: continuation lines of a bracketed expression and lines of a triple-quoted string (the only
    places where Python allows that).  Ordinary statements and compound statements at the base indentation stand
    before / between / after; blank-line shapes as in gen_py_block.  Valid Python after the documented dedent."""
    for _ in range(50):
        base = rng.choice(UI_BASES)
        lines = []
        r = rng.random()
        if r < 0.2:
            lines += [""] * rng.choice([1, 2])
        elif r < 0.27:
            lines.append(rng.choice(WS_ONLY))
        n_multi = rng.choice([1, 1, 2])
        parts = ["multi"] * n_multi + ["flat"] * rng.randint(0, 2) + ["compound"] * rng.choice([0, 0, 1])
        rng.shuffle(parts)
        if rng.random() < 0.6:                       # more often than not the block opens with an ordinary statement
            parts.insert(0, "flat")
        for n, part in enumerate(parts):
            if n and rng.random() < 0.25:
                lines.append("" if rng.random() < 0.75 else rng.choice(WS_ONLY))
            if part == "multi":
                lines += _ui_construct(rng, base)
            elif part == "flat":
                lines.append(base + rng.choice(PY_FLAT))
            else:
                lines += [base + l if l.strip() else l for l in rng.choice(PY_COMPOUND)]
        if rng.random() < 0.2:
            lines += [""] * rng.choice([1, 2])
        if under_indented(lines) and py_block_ok(lines) and "unknown" not in under_indented_kinds(lines):
            return lines
    return ["    vals = [", "  n // 2,", "    ]"]


def gen_py_block(rng, under=0.14):
    """The lines of a Python block: statements and compound statements (nested indentation), optionally with blank
    lines first/last/in between and with whitespace-only lines; with probability `under` a block of the
    `under-indented` family (gen_under_indented_py_block)."""
    if rng.random() < under:
        return gen_under_indented_py_block(rng)
    if rng.random() < 0.2:
        return list(rng.choice(PY_BLOCKS))
    lines = []
    r = rng.random()
    if r < 0.35:
        lines += [""] * rng.choice([1, 1, 2])
    elif r < 0.40:
        lines.append(rng.choice(WS_ONLY))
    for n in range(rng.randint(1, 3)):
        if n and rng.random() < 0.5:
            lines.append("" if rng.random() < 0.75 else rng.choice(WS_ONLY))
        lines += [rng.choice(PY_FLAT)] if rng.random() < 0.5 else list(rng.choice(PY_COMPOUND))
    r = rng.random()
    if r < 0.30:
        lines += [""] * rng.choice([1, 1, 2])
    elif r < 0.34:
        lines.append(rng.choice(WS_ONLY))
    assert python_ok("\n".join(lines)), lines
    return lines


def gen_render(rng):
    r = rng.random()
    if r < 0.5:
        return Render(rng.choice(["show_card", "panel"]), rng.choice(["n", 'hp, mode="x"', "xs[0]"]))
    if r < 0.75:
        return Render("panel", rng.choice(["n", "name"]), rng.choice(["react", "unity"]))
    return Render("banner")


def gen_input(rng):
    r = rng.random()
    nm = rng.choice(["player_name", "answer"])
    if r < 0.5:
        return Input(nm)
    if r < 0.8:
        return Input(nm, placeholder="type here")
    return Input(nm, placeholder="hint", label="Your Name")


def _call(rng, sig):
    """Target name and an argument string matching the callee's parameters."""
    name, params = sig
    if not params:
        return name, ""
    args = []
    for a, d in params:
        if d is None:
            args.append(rng.choice(["1", "n", '"x"', "hp + 1"]))
        elif rng.random() < 0.5:
            args.append(rng.choice(["2", "m"]) if rng.random() < 0.6 else f"{a}=3")
            if "=" in args[-1]:
                break
        else:
            break
    return name, ", ".join(args)


def gen_choice(rng, sigs, ctx):
    name, args = _call(rng, rng.choice(sigs))
    text = _word(rng).capitalize() + " " + _word(rng)
    if rng.random() < 0.2:
        text += " {n}"
    c = Choice(sticky=rng.random() < 0.6, cond=gen_cond(rng) if rng.random() < 0.3 else None, text=text,
               target=name, args=args)
    if rng.random() < 0.1:
        c.tags = [rng.choice(["key", "risk:high"])]
    return c


def gen_jump(rng, sigs):
    name, args = _call(rng, rng.choice(sigs))
    return Jump(name, args)


def gen_block_item(rng, sigs, depth, ctx, colon=()):
    """One item for an @if branch or @for body."""
    r = rng.random()
    if r < 0.40:
        return gen_text(rng, ctx)
    if r < 0.46:
        return Blank()
    if r < 0.60:
        return gen_stmt(rng, ctx)
    if r < 0.65:
        return PyBlock(gen_py_block(rng))
    if r < 0.70:
        return gen_render(rng)
    if r < 0.73:
        return gen_input(rng)
    if r < 0.78:
        return Hook("turn_end", rng.choice(sigs)[0], remove=rng.random() < 0.4)
    if r < 0.84:
        return gen_choice(rng, sigs, ctx)
    if r < 0.88:
        return gen_jump(rng, sigs)
    if depth > 0:
        return gen_if(rng, sigs, depth - 1, colon) if rng.random() < 0.55 else gen_for(rng, sigs, depth - 1, colon)
    return gen_text(rng, ctx)


def gen_if(rng, sigs, depth, colon=()):
    nb = rng.choice([1, 1, 2, 2, 3])
    branches = []
    for k in range(nb):
        body = [gen_block_item(rng, sigs, depth, "if", colon) for _ in range(rng.randint(1, 3))]
        branches.append((gen_cond(rng, allow_colon="if" in colon), body))
    if rng.random() < 0.5:
        branches.append((None, [gen_block_item(rng, sigs, depth, "if", colon) for _ in range(rng.randint(1, 2))]))
    return If(branches)


def gen_for(rng, sigs, depth, colon=()):
    var, coll = rng.choice([("i", "range(2)"), ("item", "xs"), ("i, v", "enumerate(xs)"), ("k, v", "d.items()"),
                            ("c", '["a", "b"]')])
    if "for" in colon and rng.random() < 0.04:
        coll = "xs[0:2]"
    elif rng.random() < 0.2:
        # the collection expression itself contains ` in `: the header is split at the FIRST ` in `, in both syntaxes
        var, coll = "i", rng.choice(["[x for x in xs]", "[x for x in xs if x not in d]", "[(x in xs) for x in range(2)]"])
    return For(var, coll, [gen_block_item(rng, sigs, depth, "for", colon) for _ in range(rng.randint(1, 3))])


def gen_join_block(rng, sigs):
    out = []
    for _ in range(rng.randint(0, 3)):
        r = rng.random()
        if r < 0.55:
            out.append(gen_text(rng, "join"))
        elif r < 0.8:
            out.append(gen_stmt(rng, "join", multiline=0.2))
        elif r < 0.9:
            out.append(Hook("turn_end", rng.choice(sigs)[0], remove=rng.random() < 0.4))
        elif out:
            out.append(Blank())
    while out and isinstance(out[-1], Blank):
        out.pop()
    return out


def gen_top_items(rng, sigs, depth, n, colon=()):
    out = []
    for _ in range(n):
        r = rng.random()
        if r < 0.32:
            out.append(gen_text(rng, "top"))
        elif r < 0.40:
            out.append(Blank())
        elif r < 0.54:
            out.append(gen_stmt(rng, "top"))
        elif r < 0.60:
            out.append(PyBlock(gen_py_block(rng)))
        elif r < 0.74:
            out.append(gen_if(rng, sigs, depth, colon))
        elif r < 0.84:
            out.append(gen_for(rng, sigs, depth, colon))
        elif r < 0.89:
            out.append(gen_render(rng))
        elif r < 0.92:
            out.append(gen_input(rng))
        elif r < 0.96:
            out.append(Hook("turn_end", rng.choice(sigs)[0], remove=rng.random() < 0.4))
        else:
            out.append(gen_choice(rng, sigs, "top"))
    return out


def gen_passage_body(rng, sigs, depth, colon=()):
    body = gen_top_items(rng, sigs, depth, rng.randint(1, 5), colon)
    if rng.random() < 0.3:
        # one or two @join sections
        for _ in range(rng.choice([1, 1, 2])):
            for _ in range(rng.randint(1, 2)):
                c = gen_choice(rng, sigs, "top")
                c.target, c.args, c.block = "@join", "", gen_join_block(rng, sigs)
                body.append(c)
            if rng.random() < 0.4:
                body.append(gen_choice(rng, sigs, "top"))
            body.append(Join())
            body.extend(x for x in gen_top_items(rng, sigs, 0, rng.randint(1, 2)) if not isinstance(x, Choice))
    if rng.random() < 0.2:
        body.append(gen_jump(rng, sigs))
    else:
        for _ in range(rng.randint(0, 3)):
            body.append(gen_choice(rng, sigs, "top"))
    # a top-level blank line directly after a join choice would belong to its block: not generated
    fixed = []
    for it in body:
        if isinstance(it, Blank) and fixed and isinstance(fixed[-1], Choice) and fixed[-1].target == "@join":
            continue
        fixed.append(it)
    return fixed


def gen_story(rng, n_passages=None, depth=2, colon_headers=("if", "for")) -> Story:
    n = n_passages or rng.randint(2, 4)
    names = ["Start"] + rng.sample(["Hall", "Market", "Tick", "Shop.Back", "_End", "Room2", "Garden"], n - 1)
    if rng.random() < 0.3:
        rng.shuffle(names)
    sigs = []
    for nm in names:
        params = []
        if nm != "Start" and rng.random() < 0.3:
            params = rng.choice([[("a", None)], [("a", None), ("b", "2")], [("b", "2")], [("a", None), ("b", '"x"')]])
        sigs.append((nm, params))
    passages = []
    for nm, params in sigs:
        tags = rng.choice([[], [], [], ["intro"], ["mood:dark", "night"]])
        passages.append(Passage(nm, list(params), list(tags), gen_passage_body(rng, sigs, depth, colon_headers)))
    # the initial passage must be enterable without arguments
    start = None
    if rng.random() < 0.35:
        start = rng.choice([nm for nm, ps in sigs if all(d is not None for _, d in ps)])
    return Story(start, passages)


# ------------------------------------------------------------------------------------------------
# shrinking
# ------------------------------------------------------------------------------------------------

def _bodies(story):
    """All mutable item lists of the story (passage bodies, branch bodies, loop bodies, join blocks)."""
    out = []

    def rec(items):
        out.append(items)
        for it in items:
            k = type(it).__name__
            if k == "If":
                for _, b in it.branches:
                    rec(b)
            elif k == "For":
                rec(it.body)
            elif k == "Choice" and it.block is not None:
                rec(it.block)

    for p in story.passages:
        rec(p.body)
    return out


def _edits(cur: Story):
    """Candidate one-step reductions of `cur`, larger cuts first (each is a fresh deep copy)."""
    if len(cur.passages) > 1:
        for i in range(len(cur.passages) - 1, -1, -1):
            cand = copy.deepcopy(cur)
            del cand.passages[i]
            yield cand
    nb = len(_bodies(cur))
    for bi in range(nb):
        for j in range(len(_bodies(cur)[bi]) - 1, -1, -1):
            it = _bodies(cur)[bi][j]
            cand = copy.deepcopy(cur)
            del _bodies(cand)[bi][j]
            yield cand
            if isinstance(it, If):
                for b in range(len(it.branches)):            # hoist one branch body in place of the block
                    cand = copy.deepcopy(cur)
                    body = _bodies(cand)[bi]
                    body[j:j + 1] = body[j].branches[b][1]
                    yield cand
                for b in range(len(it.branches) - 1, 0, -1):  # drop a branch
                    cand = copy.deepcopy(cur)
                    del _bodies(cand)[bi][j].branches[b]
                    yield cand
                if len(it.branches) > 1 and it.branches[1][0] is not None:   # drop the first (the @elif becomes the @if)
                    cand = copy.deepcopy(cur)
                    del _bodies(cand)[bi][j].branches[0]
                    yield cand
            elif isinstance(it, For):
                cand = copy.deepcopy(cur)
                body = _bodies(cand)[bi]
                body[j:j + 1] = body[j].body
                yield cand
    for i, p in enumerate(cur.passages):
        for attr in ("tags", "params"):
            if getattr(p, attr):
                cand = copy.deepcopy(cur)
                setattr(cand.passages[i], attr, [])
                yield cand
    if cur.start is not None:
        cand = copy.deepcopy(cur)
        cand.start = None
        yield cand
    # simplify leaves (several candidates per leaf, the simplest first)
    for bi in range(nb):
        for j, it in enumerate(_bodies(cur)[bi]):
            for simpler in _simpler_leaves(it):
                cand = copy.deepcopy(cur)
                _bodies(cand)[bi][j] = copy.deepcopy(simpler)
                yield cand


MIN_MULTILINE = ["vals = [\n    1,\n]", "vals = [\n    n // 2,\n]"]


def _simpler_leaves(it):
    if isinstance(it, Text) and (it.src != "Hello" or it.tags or it.glue):
        yield Text("Hello", False, [])
        if it.glue and (it.src != "Hello" or it.tags):
            yield Text("Hello", True, [])
    elif isinstance(it, Stmt) and it.code != "n = 1":
        yield Stmt("n = 1")
        if "\n" in it.code:
            for m in MIN_MULTILINE:
                if it.code == m:
                    return
                yield Stmt(m)
            lines = it.code.split("\n")
            for k in range(len(lines) - 1, 0, -1):          # drop one continuation line
                code = "\n".join(lines[:k] + lines[k + 1:])
                if python_ok(code) and "\n" in code and code.split("\n")[0].rstrip()[-1:] in "[{(":
                    yield Stmt(code)
    elif isinstance(it, PyBlock) and it.lines != ["x = 1"]:
        yield PyBlock(["x = 1"])
        ls = it.lines
        blanks = [l for l in ls if not l.strip()]
        if blanks and len(blanks) + 1 < len(ls):            # one statement, the blank / whitespace-only lines kept
            yield PyBlock(["x = 1"] + blanks)
            yield PyBlock(blanks + ["x = 1"])
        ui = under_indented(ls)
        if ui:                                              # the smallest blocks of the family first
            real = [l for l in ls if l.strip()]
            b = real[0][:_lead(real[0])]
            u = min((l[:_lead(l)] for l in real), key=len)
            for small in ([b + "vals = [", u + "1,", b + "]"], [b + "s = '''", u + "a", b + "'''"],
                          [b + "s = '''", u + "a'''"]):
                if small != ls:
                    yield PyBlock(small)
        for k in range(len(ls) - 1, -1, -1):                # drop one line (a real statement stays, valid Python)
            rest = ls[:k] + ls[k + 1:]
            if any(l.strip() for l in rest) and py_block_ok(rest) and \
                    (ui or not (rest[0].strip() and rest[0][0] in " \t")):
                yield PyBlock(rest)
        for k, l in enumerate(ls):
            if l.strip() and l.strip() != "x = 1" and not l.rstrip().endswith(":"):
                ind = l[:len(l) - len(l.lstrip())]
                rest = ls[:k] + [ind + "x = 1"] + ls[k + 1:]
                if py_block_ok(rest) and (ui or python_ok("\n".join(rest))):
                    yield PyBlock(rest)
    elif isinstance(it, Choice) and (it.cond is not None or it.tags or it.text != "Go"):
        yield Choice(it.sticky, None, "Go", it.target, it.args, [], it.block)
    elif isinstance(it, If) and any(c not in (None, "flag") for c, _ in it.branches):
        yield If([(None if c is None else "flag", b) for c, b in it.branches])
    elif isinstance(it, For) and (it.var, it.coll) != ("i", "xs"):
        yield For("i", "xs", it.body)


def shrink(story: Story, still_fails, budget=400) -> Story:
    """Greedy reduction: delete passages / items / branches, hoist block bodies, simplify leaves, while
    `still_fails(candidate)` holds.  `still_fails` must return False for candidates that are not valid stories."""
    cur = copy.deepcopy(story)
    calls = 0
    progress = True
    while progress and calls < budget:
        progress = False
        for cand in _edits(cur):
            calls += 1
            if still_fails(cand):
                cur, progress = cand, True
                break
            if calls >= budget:
                break
    return cur
