"""Tie of Story/StoryJson.v (the compiled story as JSON data) to the real compiler.

For real compiled stories - the dict returned by bardic's parse() for (a) the repository's .bard files (through
parse_file, so includes are resolved), (b) sources of harness.enginegen (hooks, @join, loops, conditionals, parameters,
directives) and (c) printed source ASTs of harness.storygen - the dict is printed as a Coq `json` tree
(jsontext_tie.coq_json: it raises on anything that is not None/bool/int/str/list/dict with str keys, so a float, a
tuple, a set or a non-string key in a compiled story would be reported) together with the `story` term that
harness/story2coq.py gives the engine model for that dict, and INSIDE Coq (vm_compute, Story/StoryJsonCheck.v) it is
checked that
  * schema:    jstory_of_json real = Some js           (the strict reader accepts: exactly the documented members, in
                                                         the compiler's insertion order, with the documented value types)
  * exact:     jstory_to_json js = real                (tree equality incl. key order: the writer produces EXACTLY the dict)
  * keys:      json_kdb real && jstory_kdb js          (hypothesis of the file theorems, true of every Python dict)
  * view:      story_of_json real = Some story         (what the reader hands the engine model IS the story2coq term)
  * roundtrip: story_of_json (story_to_json story) = Some story, story_kdb story   (instance of the theorem, evaluated)
  * canonical: story_to_json story = real              (counted only: true when the dict has none of the members the
                                                         engine ignores - version aside these are token tags, section-less
                                                         choices, block_execute, current_section, _join_count)
  * text:      loads (dumps_indent2 real) = Some real  (for dicts whose printed Coq term has at most TEXT_LIMIT characters: the model's text codec;
                                                         that json.dump's text IS dumps_indent2 is jsontext_tie's subject)
and in Python, on the real code: compile_file writes json.dumps(story, indent=2) and json.load gives the story back.

Domain: JSON trees without floats (none occurs; counted if one did).  The model's strings are byte strings and
story2coq's terms are ASCII: a compiled story containing a character >= 128 is PROJECTED (each such character replaced by
'?') before it is printed, and counted; a story in which the projection makes two dict keys collide is skipped and counted.
A render directive with a framework hint is outside story2coq's domain only because of how the ENGINE reports it; the dict
is handled here (the Coq view keeps the hint).

    /venv/bin/python -m harness.storyjson_tie [n] [seed]        (from /verif)
"""
from __future__ import annotations

import glob
import json
import os
import random
import re
import shutil
import sys
import tempfile
from concurrent.futures import ThreadPoolExecutor

from . import common as C
from . import story2coq
from .jsontext_tie import coq_json
from .pymini import Unsupported

SHARD = 40
SHARD_CHARS = 600_000
TEXT_LIMIT = 60_000

HEADER = ("From Coq Require Import String Ascii List ZArith Bool.\n"
          "From Bardic Require Import PyStr Value Compiled Codec JsonText JsonTextCheck StoryJson StoryJsonCheck.\n"
          "Import ListNotations.\nLocal Open Scope string_scope.\nLocal Open Scope list_scope.\n"
          "Set Printing Width 1000000.\nSet Printing Depth 1000000.\n")


class NoTables(story2coq.Tables):
    """story2coq prints the story term; the PyMini code tables (and their Unsupported) are not needed here."""

    def want_expr(self, code):
        pass

    def want_display(self, code):
        pass

    def want_stmt(self, code):
        pass

    def want_args(self, args):
        pass


class OutOfDomain(Exception):
    pass


def project(v):
    """(v with every character >= 128 replaced by '?', number replaced).  OutOfDomain for a float, a non-str key, any
    other type, or two keys made equal by the projection."""
    n = 0

    def s_(s):
        nonlocal n
        if s.isascii():
            return s
        n += sum(1 for c in s if ord(c) >= 128)
        return "".join(c if ord(c) < 128 else "?" for c in s)

    def go(x):
        if x is None or isinstance(x, bool) or isinstance(x, int):
            return x
        if isinstance(x, float):
            raise OutOfDomain("float")
        if isinstance(x, str):
            return s_(x)
        if isinstance(x, list):
            return [go(y) for y in x]
        if isinstance(x, dict):
            out = {}
            for k, y in x.items():
                if not isinstance(k, str):
                    raise OutOfDomain("non-string key")
                out[s_(k)] = go(y)
            if len(out) != len(x):
                raise OutOfDomain("keys collide after projection")
            return out
        raise OutOfDomain(type(x).__name__)

    return go(v), n


def story_term(st):
    """The story2coq term, or None with the reason when the dict is outside story2coq's domain."""
    try:
        return story2coq.story(st, NoTables()), None
    except Unsupported as e:
        return None, str(e)


def scase(st) -> str:
    term, _ = story_term(st)
    return f"mkS {coq_json(st)}\n  {('(Some ' + term + ')') if term else 'None'}"


# ---------------------------------------------------------------------------------------------
# real compiled stories

def ignored_members(st):
    """Mechanism tags: which members the engine's view forgets occur in this dict."""
    tags = set()

    def toks(ts):
        for t in ts:
            if "tags" in t and t["type"] in ("text", "expression", "inline_conditional"):
                tags.add("token-tags")
            ty = t["type"]
            if ty == "inline_conditional":
                toks(t["truthy"]), toks(t["falsy"])
            elif ty == "conditional":
                for b in t["branches"]:
                    toks(b["content"])
                    for c in b.get("choices", []):
                        choice(c, nested=True)
            elif ty == "for_loop":
                toks(t["content"])
                for c in t.get("choices", []):
                    choice(c, nested=True)
            elif ty == "render_directive" and t.get("framework_hint"):
                tags.add("framework-hint")

    def choice(c, nested=False):
        toks(c["text"])
        if "section" not in c:
            tags.add("choice-without-section")
        if "block_execute" in c:
            tags.add("block_execute")
            toks(c["block_execute"])
        if "block_content" in c:
            tags.add("block_content")
            toks(c["block_content"])

    for p in st["passages"].values():
        toks(p["content"]), toks(p["execute"])
        for c in p["choices"]:
            choice(c)
        for k in ("current_section", "_join_count", "input_directives"):
            if k in p:
                tags.add(k)
    return tags


def real_stories(rng: random.Random, n: int, repo_files=True):
    """[(label, source or path, dict)], stats."""
    C.use_repo()
    from bardic.compiler.parsing import parse_file
    from bardic.compiler.parser import parse
    from bardic.compiler.compiler import BardCompiler
    from . import enginegen, storygen

    out = []
    stats = {"repo_files": 0, "repo_compiled": 0, "generated": 0, "generated_compiled": 0, "files_written": 0,
             "file_differs": []}
    tmp = tempfile.mkdtemp(prefix="storyjson_compile_")
    try:
        if repo_files:
            files = sorted(glob.glob(os.path.join(C.REPO, "**", "*.bard"), recursive=True))
            files = [f for f in files if os.sep + "pyodide" + os.sep not in f]
            for path in files:
                stats["repo_files"] += 1
                name = os.path.relpath(path, C.REPO)
                try:
                    with C.quiet():
                        st = parse_file(path)
                except BaseException:
                    continue
                stats["repo_compiled"] += 1
                out.append(("repo:" + name, path, st))
                # the file `bardic compile` writes, on the real code
                try:
                    out_path = os.path.join(tmp, "story.json")
                    with C.quiet():
                        BardCompiler().compile_file(path, out_path)
                    with open(out_path, encoding="utf-8") as f:
                        text = f.read()
                    stats["files_written"] += 1
                    if text != json.dumps(st, indent=2) or json.loads(text) != st:
                        stats["file_differs"].append(name)
                except BaseException as e:
                    stats["file_differs"].append(f"{name}: {type(e).__name__}")
        for k in range(n):
            sub = random.Random(rng.getrandbits(48))
            if k % 2 == 0:
                prof = enginegen.Profile(directives=0.5, join=0.5, hooks=0.5, depth=sub.choice([1, 2, 3]))
                src = enginegen.Gen(sub, prof).source()
                label = "enginegen"
            else:
                src = storygen.print_story(storygen.gen_story(sub, depth=sub.choice([1, 2, 3]))).text
                label = "storygen"
            stats["generated"] += 1
            try:
                with C.quiet():
                    st = parse(src)
            except BaseException:
                continue
            stats["generated_compiled"] += 1
            out.append((label, src, st))
            if k % 10 == 0:
                try:
                    src_path, out_path = os.path.join(tmp, "g.bard"), os.path.join(tmp, "g.json")
                    with open(src_path, "w", encoding="utf-8") as f:
                        f.write(src)
                    with C.quiet():
                        BardCompiler().compile_file(src_path, out_path)
                    with open(out_path, encoding="utf-8") as f:
                        text = f.read()
                    stats["files_written"] += 1
                    if text != json.dumps(st, indent=2) or json.loads(text) != st:
                        stats["file_differs"].append(f"{label}#{k}")
                except BaseException as e:
                    stats["file_differs"].append(f"{label}#{k}: {type(e).__name__}")
    finally:
        shutil.rmtree(tmp, ignore_errors=True)
    return out, stats


def prepare(stories):
    """-> (cases [(label, src, projected dict, has_term)], stats)"""
    cases = []
    stats = {"projected_docs": 0, "projected_chars": 0, "out_of_domain": [], "no_story_term": {}, "members": {}}
    for label, src, st in stories:
        try:
            pst, k = project(st)
        except OutOfDomain as e:
            stats["out_of_domain"].append((label, str(e)))
            continue
        if k:
            stats["projected_docs"] += 1
            stats["projected_chars"] += k
        term, why = story_term(pst)
        if term is None:
            stats["no_story_term"][why] = stats["no_story_term"].get(why, 0) + 1
        for m in ignored_members(pst):
            stats["members"][m] = stats["members"].get(m, 0) + 1
        cases.append((label, src, pst, term is not None))
    return cases, stats


# ---------------------------------------------------------------------------------------------
# the Coq side

def shards(terms):
    cur, size = [], 0
    for i, t in terms:
        if cur and (len(cur) >= SHARD or size + len(t) > SHARD_CHARS):
            yield cur
            cur, size = [], 0
        cur.append((i, t))
        size += len(t)
    if cur:
        yield cur


def run_shards(scratch: str, kind: str, terms, jobs=4, timeout=1500):
    """kind 's' (ssummary) or 't' (tsummary); terms = [(global index, term)].
    Returns (totals, bad global indices, errors, number of files)."""
    summ, width = ("ssummary", 8) if kind == "s" else ("tsummary", 2)
    files, maps = [], []
    for k, sh_terms in enumerate(shards(terms)):
        path = os.path.join(scratch, f"story_{kind}_{k}.v")
        with open(path, "w", encoding="latin-1") as f:
            f.write(HEADER)
            f.write("Definition cases : list scase :=\n[\n")
            f.write(";\n".join(t for _, t in sh_terms))
            f.write("\n].\n")
            f.write(f"Eval vm_compute in ({summ} cases).\n")
        files.append(path)
        maps.append([i for i, _ in sh_terms])

    def one(path):
        return C.sh(f"ulimit -s unlimited 2>/dev/null; exec coqc -Q {C.COQ} Bardic {os.path.basename(path)}",
                    timeout=timeout, cwd=scratch)

    with ThreadPoolExecutor(max_workers=jobs) as ex:
        results = list(ex.map(one, files))
    totals, bad, errors = [0] * width, [], []
    for path, idx, (rc, out) in zip(files, maps, results):
        m = re.search(r"=\s*\(([\d,\s]+),\s*\[([\d;\s]*)\]\)", out)
        if rc != 0 or not m:
            errors.append(f"{os.path.basename(path)}: rc={rc}\n{out[-1500:]}")
            continue
        nums = [int(x) for x in re.findall(r"\d+", m.group(1))]
        if len(nums) != width:
            errors.append(f"{os.path.basename(path)}: unexpected summary {m.group(0)[:200]}")
            continue
        for i, x in enumerate(nums):
            totals[i] += x
        bad += [idx[int(x)] for x in re.findall(r"\d+", m.group(2))]
    return totals, bad, errors, len(files)


def evaluate(scratch, cases):
    sterms = [(i, scase(st)) for i, (_, _, st, _) in enumerate(cases)]
    tterms = [(i, t) for i, t in sterms if len(t) <= TEXT_LIMIT]
    stot, sbad, serr, sfiles = run_shards(scratch, "s", sterms)
    ttot, tbad, terr, tfiles = run_shards(scratch, "t", tterms)
    return {"stot": stot, "sbad": sbad, "ttot": ttot, "tbad": tbad, "errors": serr + terr, "files": sfiles + tfiles,
            "n_s": len(sterms), "n_t": len(tterms)}


S_NAMES = ["cases", "schema accepted", "writer(reader real) = real exactly", "keys distinct", "with a story2coq term",
           "story_of_json real = Some story", "round trip + story_kdb (evaluated)", "story_to_json story = real (canonical dicts)"]


def selftest(n: int = 120, seed: int = 0, keep: bool = False) -> int:
    rng = random.Random(seed)
    stories, rstats = real_stories(rng, n)
    cases, pstats = prepare(stories)
    scratch = tempfile.mkdtemp(prefix="storyjson_tie_")
    try:
        ev = evaluate(scratch, cases)
    finally:
        if not keep:
            shutil.rmtree(scratch, ignore_errors=True)
    print(f"storyjson_tie seed={seed}: {len(cases)} compiled stories = {rstats['repo_compiled']} of {rstats['repo_files']} "
          f"repository .bard files + {rstats['generated_compiled']} of {rstats['generated']} generated sources; "
          f"{pstats['projected_docs']} projected ({pstats['projected_chars']} characters >= 128 replaced), "
          f"{len(pstats['out_of_domain'])} outside the domain {pstats['out_of_domain'][:3]}; "
          f"no story2coq term: {pstats['no_story_term']}")
    print(f"  members the engine view forgets, stories containing them: {pstats['members']}")
    print("  inside Coq (%d case files): " % ev["files"] + "; ".join(f"{k} {v}" for k, v in zip(S_NAMES, ev["stot"])))
    print(f"  text codec on the real dict (dicts whose Coq term has at most {TEXT_LIMIT} characters): cases {ev['ttot'][0]}, "
          f"loads (dumps_indent2 real) = Some real {ev['ttot'][1]}")
    print(f"  compile-to-file on the real code: {rstats['files_written']} files written; text is not json.dumps(story, indent=2) "
          f"or json.load differs from the story: {len(rstats['file_differs'])}")
    rc = 0
    for name in rstats["file_differs"][:5]:
        rc = 1
        print("  FILE DIFFERS:", name)
    for e in ev["errors"][:5]:
        rc = 1
        print("  COQ FAILED:", e)
    if ev["stot"][0] != ev["n_s"] or ev["ttot"][0] != ev["n_t"]:
        rc = 1
        print(f"  MISSING RESULTS: {ev['stot'][0]}/{ev['n_s']} story cases, {ev['ttot'][0]}/{ev['n_t']} text cases evaluated")
    for i in ev["sbad"][:10]:
        rc = 1
        label, src, st, _ = cases[i]
        print(f"  MISMATCH story case {i} ({label}): {str(src)[:300]!r}")
    for i in ev["tbad"][:10]:
        rc = 1
        print(f"  TEXT MISMATCH story case {i} ({cases[i][0]})")
    if pstats["out_of_domain"]:
        rc = 1
    print("  RESULT:", "agree" if rc == 0 else "DISAGREE")
    return rc


def phase(chk, rng, n=40, repo_files=True):
    """The same comparison as selftest(), reporting through a common.Check.  A compiled story that is not plain JSON data
    (float, non-string key, other type), or whose file differs from json.dumps(story, indent=2) / does not load back, is a
    concrete failing input of the code; a dict the strict reader rejects, or that the writer does not reproduce exactly, or
    whose Coq view is not the story2coq term, is a disagreement between the compiler's output and Story/StoryJson.v."""
    stories, rstats = real_stories(rng, n, repo_files=repo_files)
    cases, pstats = prepare(stories)
    scratch = os.path.join(chk.scratch, "storyjson")
    os.makedirs(scratch, exist_ok=True)
    ev = evaluate(scratch, cases)
    for label, why in pstats["out_of_domain"][:5]:
        chk.report("compiled-story-not-json:" + why.split()[0], "a compiled story is not plain JSON data (" + why + ")",
                   {"story": label})
    for name in rstats["file_differs"][:5]:
        chk.report("compiled-file-differs", "the file written by compile_file is not json.dumps(story, indent=2), or json.load "
                   "of it is not the story", {"story": name})
    for e in ev["errors"][:3]:
        chk.disagree("storyjson-coqc", "a story JSON case file failed to evaluate", {"log": e[-1500:]})
    if ev["stot"][0] != ev["n_s"] or ev["ttot"][0] != ev["n_t"]:
        chk.disagree("storyjson-missing", "not every story case was evaluated",
                     {"evaluated": [ev["stot"][0], ev["ttot"][0]], "expected": [ev["n_s"], ev["n_t"]]})
    for i in ev["sbad"][:5]:
        label, src, st, _ = cases[i]
        chk.disagree("story-dict-shape", "the real compiled dict and Story/StoryJson.v differ (schema / exact writer / distinct "
                     "keys / engine view)", {"kind": label, "source": str(src)[:3000], "members": sorted(ignored_members(st))})
    for i in ev["tbad"][:5]:
        chk.disagree("story-dict-text", "loads (dumps_indent2 real) is not the real dict in the model", {"kind": cases[i][0]})
    for k, (label, src, st, has_term) in enumerate(cases):
        chk.count(("storyjson", label, k, tuple(sorted(ignored_members(st)))), len(st["passages"]) > 1)
    return {"stories": len(cases), "repo": rstats["repo_compiled"], "generated": rstats["generated_compiled"],
            "files_written": rstats["files_written"], "projected_docs": pstats["projected_docs"],
            "no_story_term": pstats["no_story_term"], "ignored_members": pstats["members"],
            "evaluated_inside_coq": dict(zip(S_NAMES, ev["stot"])), "text_cases": ev["ttot"][0], "text_ok": ev["ttot"][1]}


if __name__ == "__main__":
    a = sys.argv[1:]
    sys.exit(selftest(int(a[0]) if a else 120, int(a[1]) if len(a) > 1 else 0, keep=os.environ.get("KEEP") == "1"))
