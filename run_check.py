#!/venv/bin/python
"""Entry point of every check registered in MANIFEST.json:  run_check.py Cnn [--tier quick|thorough]"""
import argparse
import importlib
import os
import sys

sys.path.insert(0, os.path.dirname(os.path.abspath(__file__)))


def main():
    ap = argparse.ArgumentParser()
    ap.add_argument("pid")
    ap.add_argument("--tier", default=os.environ.get("VERIF_TIER", "quick"), choices=["quick", "thorough"])
    ap.add_argument("--seed", type=int, default=int(os.environ.get("VERIF_SEED", "20260930")))
    ap.add_argument("--repo", default=None, help="check another copy of the repository (sensitivity self-test)")
    ap.add_argument("--replay", default=None)
    a = ap.parse_args()
    if a.repo:
        os.environ["BARDIC_REPO"] = a.repo
    os.environ.setdefault("PYTHONHASHSEED", "0")
    mod = importlib.import_module(f"harness.{a.pid.lower()}")
    if a.replay and hasattr(mod, "replay"):
        return mod.replay(a.replay)
    try:
        return mod.run(a.tier, a.seed)
    except (SystemExit, KeyboardInterrupt):
        raise
    except BaseException as e:  # noqa
        # The check could not complete: an exception escaped from the code under test (through a call the harness did
        # not expect to fail) or from the harness itself.  Either way the property is not shown to hold on this tree:
        # reported as the brief prescribes for a broken correspondence, naming what stopped.
        import json
        import time
        import traceback
        tb = traceback.format_exc()
        here = os.path.dirname(os.path.abspath(__file__))
        rdir = os.path.join(here, "evidence", "replays")
        os.makedirs(rdir, exist_ok=True)
        path = os.path.join(rdir, f"{a.pid}_{a.tier}_{a.seed}_stopped.json")
        in_repo = [l.strip() for l in tb.splitlines() if "bardic" in l and "/harness/" not in l][-3:]
        with open(path, "w") as f:
            json.dump({"property": a.pid, "kind": "check-stopped-by-exception", "exception": repr(e)[:500],
                       "obligation_not_established": f"correspondence run of {a.pid} (harness/{a.pid.lower()}.py) did not complete",
                       "innermost_frames_in_the_code_under_test": in_repo, "traceback": tb[-6000:]}, f, indent=1)
        ev = {"property_id": a.pid, "tier": a.tier, "seed": a.seed, "level": "other",
              "coverage": {"evaluations": 0, "distinct_nontrivial": 0,
                           "rule": "the check stopped with an exception before completing: nothing is claimed for this run"},
              "assumptions": [], "wall_s": 0.0, "violations": 1, "known_findings_reproduced": [],
              "violation_signatures": ["check-stopped-by-exception:" + type(e).__name__]}
        with open(os.path.join(here, "evidence", f"{a.pid}.json"), "w") as f:
            json.dump(ev, f, indent=1)
        sys.stderr.write(tb)
        print(f"VIOLATION property={a.pid} replay={path} no-failing-input-found")
        return 1


if __name__ == "__main__":
    sys.exit(main())
