#!/venv/bin/python
"""Entry point of every check registered in MANIFEST.json:  run_check.py Cnn [--tier quick|thorough]"""
import argparse
import importlib
import os
import sys

sys.path.insert(0, os.path.dirname(os.path.abspath(__file__)))


def main():
    ap = argparse.ArgumentParser()
    ap.add_argument("pid")
    ap.add_argument("--tier", default=os.environ.get("VERIF_TIER", "quick"), choices=["quick", "thorough"])
    ap.add_argument("--seed", type=int, default=int(os.environ.get("VERIF_SEED", "20260930")))
    ap.add_argument("--repo", default=None, help="check another copy of the repository (sensitivity self-test)")
    ap.add_argument("--replay", default=None)
    a = ap.parse_args()
    if a.repo:
        os.environ["BARDIC_REPO"] = a.repo
    os.environ.setdefault("PYTHONHASHSEED", "0")
    mod = importlib.import_module(f"harness.{a.pid.lower()}")
    if a.replay and hasattr(mod, "replay"):
        return mod.replay(a.replay)
    return mod.run(a.tier, a.seed)


if __name__ == "__main__":
    sys.exit(main())
