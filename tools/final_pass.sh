#!/bin/bash
# Regenerate every evidence file on the unchanged /repo (quick tier) and validate MANIFEST/evidence against the schemas.
# usage: tools/final_pass.sh [quick|thorough]
tier=${1:-quick}
cd /verif
rc_all=0
for P in C01 C02 C03 C04 C05 C06 C07 C08 C09 C10 C11 C12 C13 C14 C15 C16 C17 C18 C19 C20; do
  out=$(timeout 7200 /venv/bin/python run_check.py $P --tier $tier 2>&1); rc=$?
  echo "$P rc=$rc $(echo "$out" | grep -c KNOWN-FINDING) known | $(echo "$out" | tail -1)"
  echo "$out" | grep "^VIOLATION" 
  [ $rc -ne 0 ] && rc_all=1
done
python3-vt - <<'PY'
import json, jsonschema, glob
m=json.load(open('/verif/MANIFEST.json')); jsonschema.validate(m, json.load(open('/root/.vp/MANIFEST.schema.json')))
es=json.load(open('/root/.vp/EVIDENCE.schema.json'))
for c in m['checks']:
    e=json.load(open(c['evidence_file'])); jsonschema.validate(e, es)
    assert e['violations']==0, c['property_id']
print("schemas ok:", len(m['checks']), "checks")
PY
exit $rc_all
