#!/bin/bash
# usage: tools/multi_seed.sh "<seeds>" [jobs]   -- every check (quick tier) on the unchanged /repo for each seed; prints one line per run
seeds=${1:-"1 2"}; jobs=${2:-4}
cd /verif
for sd in $seeds; do for P in C01 C02 C03 C04 C05 C06 C07 C08 C09 C10 C11 C12 C13 C14 C15 C16 C17 C18 C19 C20; do echo "$P $sd"; done; done | \
  xargs -P $jobs -L 1 bash -c 'out=$(BARDIC_SKIP_BUILD=1 timeout 3000 /venv/bin/python run_check.py $0 --seed $1 2>&1); rc=$?; echo "$0 seed=$1 rc=$rc | $(echo "$out" | grep -v "^KNOWN-FINDING" | grep "violation\[" | head -2 | cut -c1-200 | tr "\n" " ") $(echo "$out" | tail -1 | cut -c1-160)"'
