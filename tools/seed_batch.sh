#!/bin/bash
# usage: seed_batch.sh "C02_3 C02_4 ..."   (mutants under /tmp/wt_<pid>/mutants/)
for m in $1; do P=${m%_*}; p=$(echo $P | tr A-Z a-z);
  /venv/bin/python /verif/tools/seed_eval.py $P /tmp/wt_$p/mutants/$m /tmp/wt_$p > /tmp/se_$m.log 2>&1
  python3 - <<PY
import json
d=json.load(open('/verif/seeded/$m/meta.json'))['validation']
sig=[l.split(']')[0].split('[')[-1] for l in d.get('check_lines',[]) if 'violation[' in l]
print('$m', 'clean',d.get('demo_clean_pass'),'applies',d.get('applies'),'fail',d.get('demo_mutant_fail'),'DETECTED' if d.get('detected') else 'MISSED', sorted(set(sig))[:3])
PY
done
