#!/venv/bin/python
"""Validate a seeded change and run the property's check against it.
usage: seed_eval.py <PID> <mutant_dir> <worktree> [--tier quick]
Confirms: demo PASS + tests pass on the clean worktree; patch applies; tests still pass; demo FAILs;
then runs /verif/run_check.py PID --repo <worktree> and records whether it printed VIOLATION.
Copies the mutant to /verif/seeded/<name>/ with an extended meta.json.  The worktree is restored."""
import json, os, shutil, subprocess, sys, time

def sh(cmd, cwd=None, timeout=3600):
    p = subprocess.run(cmd, shell=True, cwd=cwd, capture_output=True, text=True, timeout=timeout)
    return p.returncode, (p.stdout + p.stderr)

def main():
    pid, mdir, wt = sys.argv[1:4]
    tier = sys.argv[5] if len(sys.argv) > 5 else "quick"
    name = os.path.basename(mdir.rstrip("/"))
    patch = os.path.join(mdir, "patch.diff"); demo = os.path.join(mdir, "demo.py")
    res = {"property": pid, "name": name}
    sh("git checkout -- .", cwd=wt)
    rc, out = sh(f"/venv/bin/python {demo} {wt}", cwd=wt); res["demo_clean_pass"] = rc == 0
    rc, out = sh(f"git apply --check {patch}", cwd=wt); res["applies"] = rc == 0
    if rc == 0:
        sh(f"git apply {patch}", cwd=wt)
    else:
        # the repository moved on since the change was written: apply with fuzz and keep the rebased patch
        rc2, out2 = sh(f"patch -p1 --fuzz=3 --no-backup-if-mismatch < {patch}", cwd=wt)
        res["applies"] = rc2 == 0; res["rebased_with_fuzz"] = True
        if rc2 != 0:
            sh("git checkout -- .", cwd=wt); print(json.dumps(res)); print(out2[-500:]); return 2
        _, diff = sh("git diff", cwd=wt)
        open(patch, "w").write(diff)
    try:
        rc, out = sh("/venv/bin/python -m pytest -q -p no:cacheprovider 2>&1 | tail -1", cwd=wt); res["tests"] = out.strip()[-60:]
        rc, out = sh(f"/venv/bin/python {demo} {wt}", cwd=wt); res["demo_mutant_fail"] = rc != 0; res["demo_out"] = out.strip()[-300:]
        t0 = time.time()
        rc, out = sh(f"BARDIC_SKIP_BUILD=1 /venv/bin/python /verif/run_check.py {pid} --tier {tier} --repo {wt}", cwd="/verif")
        res["check_rc"] = rc; res["check_wall_s"] = round(time.time() - t0, 1)
        res["detected"] = ("VIOLATION property=" + pid) in out
        res["check_lines"] = [l for l in out.splitlines() if "iolation" in l or "VIOLATION" in l][:8]
    finally:
        sh("git checkout -- .", cwd=wt)
    dst = os.path.join("/verif/seeded", name)
    os.makedirs(dst, exist_ok=True)
    for f in ("patch.diff", "demo.py"):
        shutil.copy(os.path.join(mdir, f), dst)
    meta = {}
    try: meta = json.load(open(os.path.join(mdir, "meta.json")))
    except Exception: pass
    meta["validation"] = {k: res[k] for k in res if k not in ("property", "name")}
    meta["ran"] = [f"demo.py on clean worktree", "git apply patch.diff", "pytest (217)", "demo.py on patched worktree",
                   f"/verif/run_check.py {pid} --tier {tier} --repo <patched worktree>", "git checkout -- ."]
    json.dump(meta, open(os.path.join(dst, "meta.json"), "w"), indent=1)
    print(json.dumps(res, indent=1))
    # restore the evidence of the unchanged tree is the caller's job (re-run the check on /repo)
    return 0

sys.exit(main())
