#!/usr/bin/env python3
"""Print the markdown table of seeded changes (seeded/*/meta.json) for DESIGN.md."""
import glob, json, os, re
rows = []
for m in sorted(glob.glob(os.path.join(os.path.dirname(__file__), "..", "seeded", "*", "meta.json"))):
    d = json.load(open(m)); v = d.get("validation", {})
    name = os.path.basename(os.path.dirname(m))
    sigs = []
    for l in v.get("check_lines", []):
        g = re.search(r"violation\[([^\]]+)\]", l)
        if g and g.group(1) not in sigs:
            sigs.append(g.group(1))
    status = "yes" if v.get("detected") else "NO"
    if not v.get("detected") and v.get("demo_mutant_fail") is False:
        status = "obsolete (after later fixes in /repo the change no longer alters behaviour: its demo passes)"
    rows.append((name, d.get("summary", "").replace("|", "/")[:230], status,
                 "; ".join(s[:70] for s in sigs[:3]).replace("|", "/")))
print("| change | what it does | detected (quick) | first signatures |\n|---|---|---|---|")
for r in rows:
    print("| %s | %s | %s | %s |" % r)
